"""C10 - Checkpoint and resume continue exactly where iteration stopped.

spec/source/Checkpoint.tla is model-checked (Exact: delivered ++ rest = uninterrupted
sequence, for every cut, every generation, every shard chain) and every bounded history
of next/capture/restore operations is replayed on the real iterators:

  raw      io.SequenceIterator / io.DataIterator
  runner   one-stage pipeline  (TransformRunner.iterate -> _ChainedRunnerIterator, aggregate)
  chain2   two named stages, aggregate in the last
  chain2a  two named stages, aggregate in the first (state of a non-final stage)

Threaded configurations (num_threads > 0): spec/source/CheckpointThreads.tla models the worker
threads reading ahead of the consumer through the bounded result queue; TLC decides which
checkpoint design is exact (per-shard delivered counts) and which is not (the shard
iterators' own positions, as implemented); the real threaded pipeline iterator is then
checkpointed at quiescent points (workers blocked on the full queue or exhausted) and the
resumed run is compared with the specification's prediction and with the property.
"""
from __future__ import annotations

import dataclasses as dc
import os

from harness import common, tlc

common.setup_repo_path()


def _bounds(tier):
  if tier == 'thorough':
    return dict(mc=dict(MaxN=6, MaxK=3, MaxDepth=2, MaxOps=99, MaxSaves=3, MaxGens=3, MaxBad=1),
                gen=dict(MaxN=4, MaxK=2, MaxDepth=2, MaxOps=7, MaxSaves=2, MaxGens=3, MaxBad=1),
                sim=dict(MaxN=6, MaxK=3, MaxDepth=2, MaxOps=12, MaxSaves=3, MaxGens=4, MaxBad=2),
                sim_num=3000)
  return dict(mc=dict(MaxN=5, MaxK=3, MaxDepth=2, MaxOps=99, MaxSaves=2, MaxGens=3, MaxBad=1),
              gen=dict(MaxN=3, MaxK=2, MaxDepth=2, MaxOps=6, MaxSaves=2, MaxGens=2, MaxBad=1),
              sim=dict(MaxN=6, MaxK=3, MaxDepth=2, MaxOps=12, MaxSaves=3, MaxGens=4, MaxBad=2),
              sim_num=400)


# ------------------------------------------------------------------ subjects


class _End(Exception):
  pass


class Subject:
  """Adapter: build / next / state / from_state for one kind of iterator."""
  name = ''
  offset = 0          # value added by the pipeline to each element

  def build(self, n, kind, chain):
    raise NotImplementedError

  def supports(self, kind):
    return True

  def wants(self, h):
    return True

  def final_check(self, it, full):
    return None


_BAD = []      # unreadable positions of the history being replayed (set by _replay)


MULTISEQ = [False]     # the source is merged from two sub-sequences (an inner boundary in the middle)


def _source(n, kind, chain):
  from ml_metrics._src.chainables import io
  data = list(range(n))
  if kind == 'seq':
    if MULTISEQ[0] and not _BAD:
      ds = io.SequenceDataSource.from_sequences([data[:n // 2], data[n // 2:]])
      for c in chain:
        ds = ds.shard(c['i'], c['k'])
      return ds
    if _BAD:
      from checks import c09
      ds = io.SequenceDataSource(c09.BadSeq(n, _BAD), ignore_error=True)     # unreadable positions are skipped
    else:
      ds = io.SequenceDataSource(data)
    for c in chain:
      ds = ds.shard(c['i'], c['k'])
    return ds
  c = chain[0]
  return io.ShardedIterable(data).shard(c['i'], c['k'])


class Raw(Subject):
  name = 'raw'

  def build(self, n, kind, chain):
    return iter(_source(n, kind, chain))


class RawMultiSeq(Subject):
  """A source merged from two sub-sequences: shards may end exactly on the inner boundary."""
  name = 'raw-multiseq'

  def supports(self, kind):
    return kind == 'seq'

  def wants(self, h):
    return not h.get('bad')

  def build(self, n, kind, chain):
    MULTISEQ[0] = True
    try:
      return iter(_source(n, kind, chain))
    finally:
      MULTISEQ[0] = False


def _norm_agg(r):
  if isinstance(r, list):
    return r
  if isinstance(r, dict):
    vals = list(r.values())
    return vals[0] if len(vals) == 1 else vals
  return type(r).__name__


class Runner(Subject):
  name = 'runner'
  offset = 100
  agg_offset = 100

  def build(self, n, kind, chain):
    from ml_metrics._src.chainables import transform
    from harness import lib
    p = (transform.TreeTransform.new(name='s')
         .data_source(_source(n, kind, chain))
         .apply(fn=lib.add100)
         .aggregate(fn=lib.Collect()))
    return p.make().iterate()

  def final_check(self, it, full):
    got = _norm_agg(it.agg_result)
    want = [x + self.agg_offset for x in full]
    if not want:
      # empty stream: whatever the uninterrupted run reports (the library uses a NullMap)
      ref = self.build(0, 'seq', [])
      list(ref)
      want = _norm_agg(ref.agg_result)
    if got != want:
      return f'final aggregate {got!r} != uninterrupted {want!r}'
    return None


class RunnerInPlace(Runner):
  """Aggregate that mutates its state in place: a checkpoint must not share it with the live iterator."""
  name = 'runner-inplace'

  def build(self, n, kind, chain):
    from ml_metrics._src.chainables import transform
    from harness import lib
    p = (transform.TreeTransform.new(name='s')
         .data_source(_source(n, kind, chain))
         .apply(fn=lib.add100)
         .aggregate(fn=lib.CollectInPlace()))
    return p.make().iterate()


class RunnerMean(Runner):
  """A shipped in-place metric (MeanAndVariance): count/mean/var after resume = uninterrupted."""
  name = 'runner-meanvar'

  def build(self, n, kind, chain):
    from ml_metrics._src.aggregates import rolling_stats
    from ml_metrics._src.chainables import transform
    from harness import lib
    p = (transform.TreeTransform.new(name='s')
         .data_source(_source(n, kind, chain))
         .apply(fn=lib.as_batch100)
         .aggregate(fn=rolling_stats.MeanAndVariance().as_agg_fn()))
    return p.make().iterate()

  def next_value(self, x):
    return x

  def final_check(self, it, full):
    import numpy as np
    got = it.agg_result
    if not full:
      return None
    vals = np.array([x + 100.0 for x in full])
    want = (len(vals), float(vals.mean()), float(vals.var()))
    try:
      r = got[''] if isinstance(got, dict) and '' in got else (list(got.values())[0] if isinstance(got, dict) else got)
      have = (int(r.count), float(r.mean), float(r.var))
    except Exception as e:  # pylint: disable=broad-exception-caught
      return f'cannot read MeanAndVariance result {got!r}: {e!r}'
    if have[0] != want[0] or abs(have[1] - want[1]) > 1e-9 or abs(have[2] - want[2]) > 1e-9:
      return f'final MeanAndVariance (count, mean, var) {have} != uninterrupted {want}'
    return None


class Chain2(Runner):
  name = 'chain2'
  offset = 101
  agg_offset = 101
  agg_first = False

  def build(self, n, kind, chain):
    from ml_metrics._src.chainables import transform
    from harness import lib
    a = transform.TreeTransform.new(name='a').data_source(_source(n, kind, chain)).apply(fn=lib.add100)
    if self.agg_first:
      a = a.aggregate(fn=lib.Collect())
    b = transform.TreeTransform.new(name='b').apply(fn=lib.inc)
    if not self.agg_first:
      b = b.aggregate(fn=lib.Collect())
    return a.chain(b).make().iterate()

class Chain2AggFirst(Chain2):
  name = 'chain2a'
  agg_first = True
  agg_offset = 100


class Chain3AggFirst(Runner):
  """Three named stages, the aggregate in the first: its state has to survive a restore of the whole chain."""
  name = 'chain3a'
  offset = 102
  agg_offset = 100

  def wants(self, h):
    return any(o['op'] == 'restore' for o in h['ops']) and not h.get('bad')

  def build(self, n, kind, chain):
    from ml_metrics._src.chainables import transform
    from harness import lib
    a = transform.TreeTransform.new(name='a').data_source(_source(n, kind, chain)).apply(fn=lib.add100).aggregate(fn=lib.Collect())
    b = transform.TreeTransform.new(name='b').apply(fn=lib.inc)
    c = transform.TreeTransform.new(name='c').apply(fn=lib.inc)
    return a.chain(b).chain(c).make().iterate()


class RunnerSliced(Runner):
  """A sliced aggregate: the checkpoint carries one aggregate state per slice value (MetricKey(metric, SliceKey))."""
  name = 'runner-sliced'

  def build(self, n, kind, chain):
    from ml_metrics._src.chainables import transform
    from harness import lib
    p = (transform.TreeTransform.new(name='s')
         .data_source(_source(n, kind, chain))
         .apply(fn=lib.vpar, output_keys=('v', 'par'))
         .aggregate(fn=lib.CollectRows(), input_keys='v', output_keys='all')
         .add_slice('par'))
    return p.make().iterate()

  def project(self, got):
    return got['v'][0]

  def final_check(self, it, full):
    from ml_metrics._src.chainables import transform
    res = it.agg_result
    got = {}
    for k, v in (dict(res) if res is not None else {}).items():
      if isinstance(k, transform.MetricKey):
        got[(k.metrics, tuple(int(x) for x in k.slice.values))] = [int(x) for x in v]
      else:
        got[(k, ())] = [int(x) for x in v]
    got = {k: v for k, v in got.items() if v}      # an empty stream: no rows anywhere, whatever keys are reported
    want = {}
    if full:
      want[('all', ())] = [x + 100 for x in full]
      for par in (0, 1):
        rows = [x + 100 for x in full if x % 2 == par]
        if rows:
          want[('all', (par,))] = rows
    if got != want:
      return f'final sliced aggregate {got!r} != uninterrupted {want!r}'
    return None


SUBJECTS = [Raw(), RawMultiSeq(), Runner(), RunnerInPlace(), RunnerMean(), Chain2(), Chain2AggFirst(), Chain3AggFirst(), RunnerSliced()]


def _replay(chk, h, subj):
  global _BAD
  n, kind, chain = h['n'], h['kind'], h['chain']
  _BAD = list(h.get('bad') or [])
  ctx = dict(kind='checkpoint', subject=subj.name, history=h)
  try:
    it = subj.build(n, kind, chain)
  except Exception as e:  # pylint: disable=broad-exception-caught
    chk.violation(f'{subj.name}:build:{type(e).__name__}', repr(e), ctx)
    return False
  saved = []
  gens = 0
  for step, op in enumerate(h['ops']):
    try:
      if op['op'] == 'next':
        try:
          got = next(it)
          if hasattr(subj, 'project'):
            got = subj.project(got)
          if hasattr(got, '__array__'):
            got = int(got[0])
        except StopIteration:
          got = -1
        want = op['expect'] + subj.offset if op['expect'] >= 0 else -1
        if got != want:
          kindsig = 'repeat-or-skip' if got != -1 and want != -1 else 'early-or-late-end'
          chk.violation(f'{subj.name}:{kind}:gen{min(gens, 2)}:{kindsig}' + (':unreadable-positions' if _BAD else ''),
                        f'step {step}: next() gave {got}, uninterrupted run gives {want}; history {h["ops"]}',
                        dict(ctx, step=step, got=got, want=want))
          return False
      elif op['op'] == 'capture':
        saved.append(it.state)
      else:
        it = it.from_state(saved[op['j'] - 1])
        gens += 1
    except Exception as e:  # pylint: disable=broad-exception-caught
      chk.violation(f'{subj.name}:{kind}:{op["op"]}:{type(e).__name__}', f'step {step}: {e!r}',
                    dict(ctx, step=step))
      return False
  # drain: what is left must be exactly the rest of the uninterrupted run
  try:
    rest = [subj.project(x) if hasattr(subj, 'project') else int(x[0]) if hasattr(x, '__array__') else x for x in it]
  except Exception as e:  # pylint: disable=broad-exception-caught
    chk.violation(f'{subj.name}:{kind}:drain:{type(e).__name__}', repr(e), ctx)
    return False
  want_rest = [x + subj.offset for x in h['rest']]
  if rest != want_rest:
    chk.violation(f'{subj.name}:{kind}:gen{min(gens, 2)}:rest' + (':unreadable-positions' if _BAD else ''),
                  f'after {h["ops"]} the iterator yields {rest}, uninterrupted run has {want_rest} left',
                  dict(ctx, got=rest, want=want_rest))
    return False
  msg = subj.final_check(it, h['full'])
  if msg:
    chk.violation(f'{subj.name}:{kind}:gen{min(gens, 2)}:aggregate', f'{msg}; history {h["ops"]}', ctx)
    return False
  return True


class _Collector:
  """Stands in for the Check object inside worker processes."""

  def __init__(self):
    self.viols = []

  def violation(self, sig, msg, rep):
    if sum(1 for v in self.viols if v[0] == sig) < 3000:
      self.viols.append((sig, msg, rep if sum(1 for v in self.viols if v[0] == sig) < 2 else {}))


def _replay_subject(i, hs):
  common.setup_repo_path()
  col = _Collector()
  okc = 0
  for h in hs:
    if not SUBJECTS[i].supports(h['kind']) or not SUBJECTS[i].wants(h):
      okc += 1
      continue
    if _replay(col, h, SUBJECTS[i]):
      okc += 1
  return col.viols, okc


def _threaded_run(n, p, d, with_agg):
  """Consume d elements of a pipeline with num_threads=p, wait for the workers to quiesce, capture, restore, drain."""
  import time
  from ml_metrics._src.chainables import io, transform
  from harness import lib
  t = transform.TreeTransform.new(name='p', num_threads=p).data_source(io.SequenceDataSource(list(range(n)))).apply(fn=lib.ident)
  if with_agg:
    t = t.aggregate(fn=lib.Collect())
  it = t.make().iterate()
  before = [next(it) for _ in range(d)]
  runner_it = it._iterators[0]

  def positions():
    return [s._index for s in runner_it._source_iterators]

  last, stable_since = positions(), time.time()
  deadline = time.time() + 5
  while time.time() < deadline:
    time.sleep(0.005)
    cur = positions()
    if cur != last:
      last, stable_since = cur, time.time()
    elif time.time() - stable_since > 0.15:
      break
  state = it.state
  it2 = it.from_state(state)
  after = list(it2)
  agg = it2.agg_result if with_agg else None
  it.maybe_stop()
  return before, after, agg, last


def threaded_part(chk):
  import os
  lib_path = ['-DTLA-Library=' + os.path.join(common.VERIF, 'spec', 'source')]
  for n, p in (((7, 2), (4, 1)) if chk.tier != 'thorough' else ((9, 2), (5, 1), (10, 3))):
    bad = tlc.run('source', 'CheckpointThreads', tlc.cfg_text(constants=dict(N=n, P=p, SourcePos=True), invariants=['LocalOrder', 'NoRepeat', 'Exact'],
                                                              deadlock=False), timeout=1800, java_opts=lib_path)
    good = tlc.run('source', 'CheckpointThreads', tlc.cfg_text(constants=dict(N=n, P=p, SourcePos=False), invariants=['LocalOrder', 'NoRepeat', 'Exact'],
                                                               deadlock=False), timeout=1800, java_opts=lib_path, coverage=True)
    chk.add_tlc(good, f'CheckpointThreads/N={n} P={p}/delivered-counts')
    chk.add_tlc(bad, f'CheckpointThreads/N={n} P={p}/source-positions')
    chk.coverage.setdefault('threads_design', {})[f'N={n} P={p}'] = dict(source_positions=bad.error_name or 'ok', delivered_counts=good.error_name or 'ok')
    if not good.ok:
      chk.machinery_failure(f'CheckpointThreads.tla: the exact design violates {good.error_name}')
    if bad.ok:
      chk.machinery_failure('CheckpointThreads.tla accepts checkpoints made of source positions: Exact is vacuous')
  # the real threaded iterator at quiescent points
  for n, p, d in ((10, 2, 2), (10, 2, 0), (4, 2, 1), (12, 1, 3), (20, 2, 5), (7, 3, 2)):
    for with_agg in (False, True):
      try:
        before, after, agg, pos = _threaded_run(n, p, d, with_agg)
      except Exception as e:  # pylint: disable=broad-exception-caught
        chk.violation(f'threads:exception:{type(e).__name__}', f'n={n} threads={p} delivered={d}: {e!r}', dict(kind='checkpoint-threads', n=n, p=p, d=d))
        continue
      chk.replayed()
      ctx = dict(kind='checkpoint-threads', n=n, num_threads=p, delivered_before_capture=d, aggregate=with_agg, before=before, after=after)
      cfg = f'n={n} num_threads={p} captured after {d} elements'
      dup = sorted(set(before) & set(after))
      lost = sorted(set(range(n)) - set(before) - set(after))
      # conformance with CheckpointThreads.tla (Restore): the resumed run delivers exactly the elements at or after
      # the captured shard positions
      his, lo = [], 0
      q_, r_ = divmod(n, p)
      for w in range(p):
        ln = q_ + (1 if w < r_ else 0)
        his.append((lo, lo + ln))
        lo += ln
      predicted_after = sorted(x for w, (l_, h_) in enumerate(his) for x in range(max(pos[w], l_), h_))
      if sorted(after) != predicted_after:
        print(f'MODEL-DRIFT property=C10 threads [{cfg}]: resumed run delivered {sorted(after)}, the specification predicts {predicted_after} '
              f'from the captured positions {pos}')
      if dup:
        chk.violation('threads:restore-repeats-elements', f'[{cfg}] repeated {dup}', ctx)
      if lost:
        chk.violation('threads:restore-skips-prefetched-elements',
                      f'[{cfg}] elements {lost} were read ahead by the worker threads, are not part of the captured state and are never delivered '
                      f'(delivered before {sorted(before)}, after restore {sorted(after)})', ctx)
      if with_agg and not lost and not dup:
        got = sorted(agg if isinstance(agg, list) else list(dict(agg).values())[0])
        if got != sorted(range(n)):
          chk.violation('threads:aggregate-after-restore', f'[{cfg}] aggregate {got}', ctx)


def resharded_part(chk):
  """A checkpoint of a source that is restored and then split again (make(shard=state) with num_threads > 0 shards
  the restored source; so does a user spreading the rest over workers): Shard.tla's nested round-robin / interval
  histories with a resume position give the elements that are still due; the pipeline must deliver exactly those."""
  from ml_metrics._src.chainables import io, transform
  from harness import lib
  consts = dict(MaxN=7, MaxK=3, MaxDepth=2, MaxOff=2) if chk.tier != 'thorough' else dict(MaxN=9, MaxK=4, MaxDepth=2, MaxOff=3)
  lib_path = ['-DTLA-Library=' + os.path.join(common.VERIF, 'spec', 'source')]
  mc = tlc.run('source', 'Shard', tlc.cfg_text(constants=consts, invariants=['RoundRobinPartition', 'RRClosedForm', 'Partition'], view='View', deadlock=False),
               coverage=True, timeout=900, java_opts=lib_path)
  chk.add_tlc(mc, 'Shard/MC (resume then re-shard)')
  if not mc.ok:
    chk.machinery_failure(f'Shard.tla violates {mc.error_kind} {mc.error_name}')
  gen = tlc.run('source', 'Shard', tlc.cfg_text(constants=consts, invariants=['Emit'], deadlock=False), workers=1, timeout=900, java_opts=lib_path)
  if not gen.ok:
    chk.machinery_failure(f'Shard export failed: {gen.error_kind} {gen.error_name}')
  hs = [h for h in gen.histories if any(st.get('op') == 'resume' or st.get('off', 0) > 0 for st in h['steps'])]
  import random
  random.Random(chk.seed).shuffle(hs)
  hs = hs[:250 if chk.tier != 'thorough' else 3000]
  chk.count('resharded_histories', len(hs))
  if not hs:
    chk.machinery_failure('no Shard.tla history with a resume position')
  for h in hs:
    n = h['n']
    data = list(range(n))
    try:
      if h['kind'] == 'seq':
        src = io.SequenceDataSource(data)
        for st in h['steps']:
          src = src.shard(st['i'], st['k'], st['off'])
        due = list(range(h['steps'][-1]['lo'], h['steps'][-1]['hi']))
        fresh = io.SequenceDataSource(data)
      else:
        src = io.ShardedIterable(data)
        for st in h['steps']:
          if st['op'] == 'rr':
            src = src.shard(st['i'], st['k'])
          else:
            it = src.iterate()
            for _ in range(st['c']):
              next(it)
            src = io.ShardedIterable(data).from_state(it.state)
        due = sorted(h['steps'][-1]['elems'])
        fresh = io.ShardedIterable(data)
      state = src.state
      for p in (0, 1, 2, 3):
        t = transform.TreeTransform.new(name='p', num_threads=p).data_source(fresh).apply(fn=lib.ident)
        got = sorted(t.make(shard=state).iterate())
        chk.replayed()
        if got != due:
          rep = sorted(set(got) - set(due))
          what = 'repeats-delivered-elements' if rep else 'loses-elements'
          chk.violation(f'resharded:{h["kind"]}:{what}:' + ('threads' if p else 'sequential'),
                        f'source of {n} elements after {h["steps"]} (state {state}) resumed with num_threads={p}: delivered {got}, still due {due}',
                        dict(kind='checkpoint-resharded', history=h, num_threads=p, got=got, due=due))
          break
    except Exception as e:  # pylint: disable=broad-exception-caught
      chk.violation(f'resharded:{h["kind"]}:exception:{type(e).__name__}', f'{e!r} for {h}', dict(kind='checkpoint-resharded', history=h))


def rebatch_part(chk):
  from harness import lib
  """A re-batching operator between the source and the consumer (apply(..., batch_size=b) over input batches of another
  size): rows waiting in the re-batching buffer (Rebatch.tla: `buffer`) when the state is captured are neither
  delivered nor part of the source position."""
  from ml_metrics._src.chainables import io, transform
  for n_in, s_in, b in ((4, 3, 2), (3, 2, 3), (4, 1, 2), (3, 3, 3)):
    data = [list(range(i * s_in, (i + 1) * s_in)) for i in range(n_in)]
    full = [x for bt in data for x in bt]

    def mk():
      return transform.TreeTransform.new(name='p').data_source(io.SequenceDataSource([list(bt) for bt in data])).apply(fn=lib.ident, batch_size=b).make().iterate()

    n_out = len(list(mk()))
    for cut in range(n_out + 1):
      it = mk()
      before = [x for _ in range(cut) for x in next(it)]
      restored = it.from_state(it.state)
      after = [x for bt in restored for x in bt]
      chk.replayed()
      cfg = f'{n_in} input batches of {s_in} rows, apply(batch_size={b}), state captured after {cut} output batches'
      ctx = dict(kind='checkpoint-rebatch', input_batches=n_in, input_batch_size=s_in, batch_size=b, cut=cut, before=before, after=after)
      lost = [x for x in full if x not in before and x not in after]
      dup = [x for x in before if x in after]
      if dup:
        chk.violation('rebatch:restore-repeats-rows', f'[{cfg}] rows {dup} delivered before and after the restore', ctx)
      elif lost:
        chk.violation('rebatch:restore-skips-buffered-rows', f'[{cfg}] rows {lost} were waiting in the re-batching buffer and are never delivered '
                      f'(before {before}, after restore {after})', ctx)
      elif before + after != full:
        chk.violation('rebatch:order', f'[{cfg}] {before} + {after} != {full}', ctx)


def body(chk):
  threaded_part(chk)
  resharded_part(chk)
  rebatch_part(chk)
  b = _bounds(chk.tier)
  chk.coverage['bounds'] = b
  chk.assumptions += [
      'elements are abstract positions; pipelines add a constant per stage',
      'threaded configurations are checkpointed at quiescent points (workers blocked or exhausted); other capture points differ only in how many elements are in flight',
  ]
  invs = ['Exact', 'PosInRange', 'SavedInRange']
  mc = tlc.run('source', 'Checkpoint',
               tlc.cfg_text(constants=dict(b['mc'], Formula='cumulative'), invariants=invs, view='View',
                            deadlock=False),
               coverage=True, timeout=1200)
  chk.add_tlc(mc, 'Checkpoint/MC')
  if not mc.ok:
    chk.machinery_failure(f'Checkpoint.tla violates {mc.error_kind} {mc.error_name}')
  missing = tlc.require_covered(mc, ['Deliver', 'DeliverEnd', 'Capture', 'Restore'])
  if missing:
    chk.machinery_failure(f'vacuous model: actions never taken {missing}')
  # sensitivity of the specification itself: the pinned formula must be rejected by TLC
  neg = tlc.run('source', 'Checkpoint',
                tlc.cfg_text(constants=dict(b['gen'], MaxOps=99, Formula='pinned'), invariants=['Exact'],
                             view='View', deadlock=False), timeout=600)
  chk.coverage['pinned_formula_rejected_by_tlc'] = (neg.error_kind == 'invariant')
  neg2 = tlc.run('source', 'Checkpoint',
                 tlc.cfg_text(constants=dict(b['gen'], MaxOps=99, Formula='count-delivered'), invariants=['Exact'],
                              view='View', deadlock=False), timeout=600)
  chk.coverage['count_delivered_formula_rejected_by_tlc'] = (neg2.error_kind == 'invariant')
  if neg2.ok:
    chk.machinery_failure('Checkpoint.tla accepts a position counter that ignores skipped unreadable elements: Exact is vacuous there')
  if neg.ok:
    chk.machinery_failure('Checkpoint.tla accepts the pinned (defective) state formula: invariant Exact is vacuous')

  gen = tlc.run('source', 'Checkpoint',
                tlc.cfg_text(constants=dict(b['gen'], Formula='cumulative'), invariants=['Emit'],
                             constraints=['HistBound'], deadlock=False),
                workers=1, timeout=1200)
  if not gen.ok:
    chk.machinery_failure(f'Checkpoint export failed: {gen.error_kind} {gen.error_name}')
  hs = list(gen.histories)
  chk.count('histories_exhaustive', len(hs))
  sim = tlc.run('source', 'Checkpoint',
                tlc.cfg_text(constants=dict(b['sim'], Formula='cumulative'), invariants=['Emit'],
                             constraints=['HistBound'], deadlock=False),
                workers=1, timeout=600, simulate=f'num={b["sim_num"]}', depth=b['sim']['MaxOps'] + 1,
                seed=chk.seed + 1)
  sim_hs = list(sim.histories)
  chk.count('histories_simulated', len(sim_hs))
  hs += sim_hs
  interesting = [h for h in hs if sum(o['op'] == 'restore' for o in h['ops']) >= 2]
  chk.count('histories_with_2plus_generations', len(interesting))
  if not interesting:
    chk.machinery_failure('no history with two or more restores was generated')
  per_subject = {}
  import concurrent.futures as cf
  with cf.ProcessPoolExecutor(max_workers=len(SUBJECTS)) as ex:
    futs = [ex.submit(_replay_subject, i, hs) for i in range(len(SUBJECTS))]
    for i, f in enumerate(futs):
      viols, okc = f.result()
      for sig, msg, rep in viols:
        chk.violation(sig, msg, rep)
      chk.replayed(len(hs))
      per_subject[SUBJECTS[i].name] = dict(replayed=len(hs), conforming=okc)
  chk.coverage['subjects'] = per_subject
  chk.coverage['exhaustive'] = True
  chk.add_samples(interesting[:2])


if __name__ == '__main__':
  common.main('C10', body)
