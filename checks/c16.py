"""C16 - Fault-free distributed execution equals in-process execution.

Design level: spec/dist/Sched.tla with an empty fault budget (every output batch and every
shard state exactly once, termination) and the strict-count law of the final merge.
Binding: the real sharded_pipelines_as_iterator over worker pools of 1..3 workers and 1..4
shards, and run_pipeline_interleaved with in-process stages and with a remote stage fed
through a RemoteIteratorQueue, are compared with ChainedRunner in process: same multiset of
output batches, same aggregate, exactly one final AggregateResult; merge_states with fewer
or more states than expected must raise.
"""
from __future__ import annotations

import collections
import queue

from harness import common, dist, lib, tlc

common.setup_repo_path()


def _agg_list(r):
  a = r.agg_result
  return a if isinstance(a, list) else list(a.values())[0]


def sharded(chk):
  configs = [(1, 1, 5, 1), (2, 2, 5, 1), (2, 3, 7, 2), (3, 4, 6, 1), (2, 1, 4, 3), (3, 2, 0, 1)]
  if chk.tier == 'thorough':
    configs += [(w, s, n, b) for w in (1, 2, 3) for s in (1, 2, 3, 4) for n in (1, 3, 8) for b in (1, 2)]
  variants = [dict(), dict(prog='filtermap'), dict(agg='meanvar'), dict(agg='meanvar', prog='filtermap')]
  # `late`: the consuming thread is slow between collecting the outputs and looking at the task states (a pure delay at every
  # Task.done()), so that the last shard's tail batches and its completion both fall between those two steps of the final round
  runs = [(cfg, kw, 0) for cfg in configs
          for kw in (variants if cfg[:2] in ((2, 3), (3, 4), (2, 2)) or chk.tier == 'thorough' else variants[:1])]
  runs += [(cfg, dict(), 0.03) for cfg in ((2, 1, 4, 3), (3, 2, 6, 1), (2, 2, 5, 1), (3, 1, 6, 2))]
  for (workers, shards, n, bsz), kw, late in runs:
    name = f'sharded workers={workers} shards={shards} n={n} batch={bsz} {kw or ""}' + (' consumer slow before the state check' if late else '')
    ref = lib.define_pipeline(n, **kw).make().iterate()
    ref_outs = sorted(map(_key, ref))
    ref_agg = _norm(ref.agg_result) if n else None
    with dist.cluster(workers, iterate_batch_size=bsz) as c:
      rq = queue.SimpleQueue()
      outs = []

      def run():
        for x in c.mods.orchestrate.sharded_pipelines_as_iterator(c.pool, lib.define_pipeline, n, result_queue=rq,
                                                                  num_shards=shards, **kw):
          outs.append(x)
        return True

      task_cls, real_done = c.mods.courier_utils.Task, c.mods.courier_utils.Task.done
      if late:
        import time as real_time

        def slow_done(self, _d=real_done, _s=real_time.sleep, _late=late):
          _s(_late)
          return _d(self)
        task_cls.done = slow_done
      try:
        status, val = dist.run_with_deadline(run, 30)
      finally:
        task_cls.done = real_done
      chk.replayed()
      ctx = dict(kind='dist-faultfree', scenario=name)
      if status != 'ok':
        chk.violation(f'sharded:{status}', f'[{name}] {val!r}', ctx)
        continue
      if sorted(map(_key, outs)) != ref_outs:
        chk.violation('sharded:outputs', f'[{name}] outputs {sorted(map(_key, outs))} != in-process {ref_outs}', ctx)
      results = []
      try:
        results.append(rq.get(timeout=5))
        while not rq.empty():
          results.append(rq.get_nowait())
      except queue.Empty:
        pass
      if len(results) != 1:
        chk.violation('sharded:final-result-count', f'[{name}] {len(results)} final AggregateResults', ctx)
      elif ref_agg not in (None, 'NullMap') and _norm(results[0].agg_result) != ref_agg:
        chk.violation('sharded:aggregate', f'[{name}] {_norm(results[0].agg_result)} != {ref_agg}', ctx)
      if c.pool.acquired_workers:
        chk.violation('sharded:workers-left-acquired', f'[{name}]', ctx)


def failed_shard(chk):
  """One shard fails with a non-retriable error: fewer shard states arrive than there are shards, so the final merge must
  report that instead of delivering an aggregate over the shards that did finish (Sched.tla: MergeStrict)."""
  import time as real_time
  for workers, shards, n, bad in ((2, 4, 8, 7), (2, 2, 6, 0), (3, 3, 9, 4)):
    name = f'sharded workers={workers} shards={shards} n={n}, element {bad} raises'
    with dist.cluster(workers) as c:
      rq = queue.SimpleQueue()
      outs = []

      def run():
        for x in c.mods.orchestrate.sharded_pipelines_as_iterator(c.pool, lib.define_pipeline, n, result_queue=rq, num_shards=shards,
                                                                  fail_on=(bad,), retry_failures=False):
          outs.append(x)
        return True

      status, val = dist.run_with_deadline(run, 30)
      chk.replayed()
      ctx = dict(kind='dist-failed-shard', scenario=name)
      if status == 'ok':
        chk.violation('sharded:failed-shard:error-swallowed', f'[{name}] iteration ended normally with {sorted(outs)}', ctx)
        continue
      if status == 'hung':
        chk.violation('sharded:failed-shard:hung', f'[{name}] no end within the deadline', ctx)
        continue
      results = []
      t0 = real_time.time()
      while real_time.time() - t0 < 0.6:
        try:
          results.append(rq.get_nowait())
        except queue.Empty:
          real_time.sleep(0.02)
      if results:
        got = [_agg_list(r) if hasattr(r, 'agg_result') else r for r in results]
        chk.violation('sharded:failed-shard:partial-aggregate-delivered',
                      f'[{name}] the iterator raised {type(val).__name__}, yet result_queue received {got} merged from the shards that finished', ctx)


def two_aggregating_stages(chk):
  """A chain of two named stages that both aggregate, sharded over a worker pool."""
  for workers, shards, n in ((2, 2, 4), (1, 3, 5), (2, 1, 3)):
    name = f'two aggregating stages workers={workers} shards={shards} n={n}'
    ref = lib.two_agg_pipeline(n).make().iterate()
    ref_outs = sorted(ref)
    ref_agg = {k: sorted(v) for k, v in dict(ref.agg_result).items()}
    with dist.cluster(workers) as c:
      rq = queue.SimpleQueue()
      outs = []

      def run():
        for x in c.mods.orchestrate.sharded_pipelines_as_iterator(c.pool, lib.two_agg_pipeline, n, result_queue=rq, num_shards=shards):
          outs.append(x)
        return True

      status, val = dist.run_with_deadline(run, 30)
      chk.replayed()
      ctx = dict(kind='dist-faultfree', scenario=name)
      if status != 'ok':
        chk.violation(f'two-aggs:{status}', f'[{name}] {val!r}', ctx)
        continue
      if sorted(outs) != ref_outs:
        chk.violation('two-aggs:outputs', f'[{name}] {sorted(outs)} != {ref_outs}', ctx)
      try:
        res = rq.get(timeout=5)
      except queue.Empty:
        chk.violation('two-aggs:no-final-aggregate', f'[{name}] the run ended normally but no AggregateResult was delivered', ctx)
        continue
      got = {k: sorted(v) for k, v in dict(res.agg_result).items()}
      if got != ref_agg:
        chk.violation('two-aggs:aggregate', f'[{name}] {got} != in-process {ref_agg}', ctx)


def interleaved(chk):
  from ml_metrics._src.chainables import orchestrate
  for n in (0, 1, 4) if chk.tier == 'quick' else (0, 1, 2, 4, 7):
    p = lib.two_stage_pipeline(n)
    ref = p.make().iterate()
    ref_outs = sorted(ref)
    ref_agg = ref.agg_result
    for buf in (0, 1):
      name = f'interleaved in-process n={n} buffer={buf}'
      res = {k: orchestrate.RunnerResource(buffer_size=buf, timeout=20) for k in ('a', 'b')}

      def run():
        state = orchestrate.run_pipeline_interleaved(p, resources=res)
        with state:
          outs = list(state.result_queue)
        return outs, state.result_queue.returned

      status, val = dist.run_with_deadline(run, 30)
      chk.replayed()
      ctx = dict(kind='dist-faultfree', scenario=name)
      if status != 'ok':
        chk.violation(f'interleaved:{status}', f'[{name}] {val!r}', ctx)
        continue
      outs, returned = val
      if sorted(outs) != ref_outs:
        chk.violation('interleaved:outputs', f'[{name}] {sorted(outs)} != {ref_outs}', ctx)
      aggs = [r for r in returned if hasattr(r, 'agg_result')]
      if len(aggs) != 1:
        chk.violation('interleaved:final-result-count', f'[{name}] {len(aggs)} results in returned: {returned}', ctx)
      elif _norm(aggs[0].agg_result) != _norm(ref_agg):
        chk.violation('interleaved:aggregate', f'[{name}] {aggs[0].agg_result} != {ref_agg}', ctx)


def interleaved_remote(chk):
  """stage 'a' in process, stage 'b' on a worker pool fed through a RemoteIteratorQueue on the master."""
  # (workers, elements, buffer[, seconds by which every answer of the second worker is late])
  cases = [(2, 5, 1), (1, 3, 0), (3, 6, 2), (2, 0, 1), (2, 8, 2, 0.12), (2, 12, 2, 'second-start')]
  if chk.tier == 'thorough':
    cases += [(w, n, b) for w in (1, 2, 3) for n in (1, 2, 7) for b in (0, 1, 3)]
  for case in cases:
    workers, n, buf = case[:3]
    late = case[3] if len(case) > 3 else 0
    name = f'interleaved remote workers={workers} n={n} buffer={buf}' + (f' slow answers: {late}' if late else '')
    p = lib.two_stage_pipeline(n)
    ref = p.make().iterate()
    ref_outs = sorted(ref)
    ref_agg = ref.agg_result
    with dist.cluster(workers, heartbeat_threshold=1e7) as c:
      if late == 'second-start':
        # only the acknowledgement of the second "start enqueueing" request (return_immediately) is slow: the first worker
        # can go through the whole input meanwhile
        from harness import fakecourier
        starts = []

        def slow_second_start(address, method, kwargs):
          if method == 'maybe_make' and kwargs.get('return_immediately'):
            starts.append(address)
            return 1.0 if len(starts) == 2 else 0
          return 0
        fakecourier.BOARD.reply_delay['*'] = slow_second_start
      elif late:
        from harness import fakecourier
        fakecourier.BOARD.reply_delay[c.names[1]] = late
      orch = c.mods.orchestrate
      master = c.mods.courier_server.CourierServer(f'master-{dist._RUN[0]}')
      res = {'a': orch.RunnerResource(buffer_size=buf, timeout=20),
             'b': orch.RunnerResource(worker_pool=c.pool, buffer_size=buf, timeout=20)}

      def run():
        state = orch.run_pipeline_interleaved(p, master_server=master, resources=res)
        with state:
          outs = list(state.result_queue)
        return outs, list(state.result_queue.returned)

      status, val = dist.run_with_deadline(run, 40)
      try:
        master._request_shutdown()
      except Exception:  # pylint: disable=broad-exception-caught
        pass
      chk.replayed()
      ctx = dict(kind='dist-faultfree', scenario=name)
      if status != 'ok':
        chk.violation(f'interleaved-remote:{status}', f'[{name}] {val!r}', ctx)
        continue
      outs, returned = val
      if sorted(outs) != ref_outs:
        chk.violation('interleaved-remote:outputs', f'[{name}] {sorted(outs)} != {ref_outs}', ctx)
      aggs = [r for r in returned if hasattr(r, 'agg_result')]
      if len(aggs) != 1:
        chk.violation('interleaved-remote:final-result-count', f'[{name}] {len(aggs)} results: {returned}', ctx)
      elif _norm(aggs[0].agg_result) != _norm(ref_agg):
        chk.violation('interleaved-remote:aggregate', f'[{name}] {aggs[0].agg_result} != {ref_agg}', ctx)
      if c.pool.acquired_workers:
        chk.violation('interleaved-remote:workers-left-acquired', f'[{name}]', ctx)


def _key(x):
  """outputs may be numpy arrays (meanvar variant)"""
  return float(x.reshape(-1)[0]) if hasattr(x, 'reshape') else x


def _norm(a):
  if hasattr(a, 'count') and hasattr(a, 'mean') and hasattr(a, 'var'):
    import numpy as np
    vals = [float(np.asarray(v).reshape(-1)[0]) for v in (a.count, a.mean, a.var)]
    return tuple('nan' if v != v else round(v, 9) for v in vals)
  if isinstance(a, dict) and len(a) == 1 and hasattr(list(a.values())[0], 'mean'):
    return _norm(list(a.values())[0])
  if isinstance(a, dict):
    vals = list(a.values())
    return sorted(vals[0]) if len(vals) == 1 and isinstance(vals[0], list) else repr(a)
  if isinstance(a, list):
    return sorted(a)
  return type(a).__name__


def strict_merge(chk):
  from ml_metrics._src.chainables import transform
  runner = lib.define_pipeline(4).make()
  agg_only = lib.define_pipeline(4).make(mode=transform.RunnerMode.AGGREGATE)
  for target, label in ((runner, 'ChainedRunner'), (agg_only._runners[0], 'TransformRunner')):
    for given in range(0, 5):
      for expected in range(0, 5):
        states = []
        for i in range(given):
          it = lib.define_pipeline(4, shard_index=i, num_shards=max(given, 1)).make().iterate()
          list(it)
          states.append(it.agg_state)
        try:
          target.merge_states(iter(states), strict_states_cnt=expected)
          got = 'merged'
        except ValueError:
          got = 'error'
        except Exception as e:  # pylint: disable=broad-exception-caught
          got = f'other:{type(e).__name__}'
        want = 'error' if (expected and given != expected) else 'merged'
        chk.replayed()
        if got != want:
          chk.violation(f'strict-merge:{label}', f'{label}.merge_states({given} states, strict_states_cnt={expected}) -> {got}, want {want}',
                        dict(kind='strict-merge', given=given, expected=expected))


def streamed_merge(chk):
  """The shard states of a chain with two aggregating stages arrive as a one-shot stream (the way the orchestration
  feeds them): every aggregating stage has to see every state - with and without a strict count - and the merged
  result equals the merge of the same states given as a list."""
  for shards in (1, 2, 3):
    n = 6
    states = []
    for i in range(shards):
      it = lib.two_agg_pipeline(n, shard_index=i, num_shards=shards).make().iterate()
      list(it)
      states.append(it.agg_state)
    runner = lib.two_agg_pipeline(n).make()
    want = {k: sorted(v) for k, v in dict(runner.get_result(runner.merge_states(list(states)))).items()}
    for strict in (0, shards):
      kw = dict(strict_states_cnt=strict) if strict else {}
      ctx = dict(kind='streamed-merge', shards=shards, strict=strict)
      try:
        got = {k: sorted(v) for k, v in dict(runner.get_result(runner.merge_states((s for s in states), **kw))).items()}
      except Exception as e:  # pylint: disable=broad-exception-caught
        chk.violation(f'streamed-merge:exception:{type(e).__name__}', f'{shards} shard states as a generator, strict_states_cnt={strict}: {e!r}', ctx)
        continue
      chk.replayed()
      if got != want:
        chk.violation('streamed-merge:result' + ('' if strict else ':no-strict-count'),
                      f'{shards} shard states as a generator, strict_states_cnt={strict}: {got}; the same states as a list: {want}', ctx)


def body(chk):
  streamed_merge(chk)
  consts = dict(Tasks={'t1', 't2', 't3'}, Workers={'w1', 'w2'}, L=2, Budget=0, Threshold=0, UsableWorker='w1', RecheckDone=False)
  mc = tlc.run('dist', 'Sched', tlc.cfg_text(constants=consts, invariants=['FaultFreeExactlyOnce', 'StateAtMostOnce'],
                                             properties=['Termination']), timeout=1800, coverage=True)
  chk.add_tlc(mc, 'Sched/fault-free')
  if not mc.ok:
    chk.machinery_failure(f'Sched.tla fault-free fails {mc.error_name}')
  sharded(chk)
  two_aggregating_stages(chk)
  interleaved(chk)
  interleaved_remote(chk)
  strict_merge(chk)
  failed_shard(chk)
  chk.add_samples([dict(scenario='sharded workers=2 shards=3 n=7 batch=2')])
  chk.assumptions += ['in-process transport; real threads and asyncio loops (schedules sampled, not enumerated)',
                      ]


if __name__ == '__main__':
  common.main('C16', body)
