"""C03 - Results do not depend on the execution strategy.

spec/pipeline/ExecStrategy.tla: the source is cut into shards (ShardMath.Cut, the transcribed
interval arithmetic) and sub-shards per worker thread; every worker step is an action, so
TLC explores every arrival order and checks that the shards partition the source, nothing is
invented or delivered twice at any time, the final multisets of emitted rows and of the
merged aggregate equal the sequential run, one thread keeps the sequential order, and every
run terminates.  Binding: pipelines from the operator grammar are run on the real code under
every strategy of the bounded universe - num_threads 0..3, fused vs a chain of two named
stages (with threads per stage), 1..4 shards run separately and merged with merge_states,
shards combined with threads, the interleaved in-process stage runner - over
SequenceDataSource and ShardedIterable sources, and compared with the sequential fused run
(multiset of emitted rows, aggregate as a multiset, sequential order where one worker runs).
Threaded runs use real threads and are repeated.
"""
from __future__ import annotations

import collections
import os
import random

from harness import common, dist, lib, tlc

common.setup_repo_path()

PROGRAMS = {
    'map': ['add100'],
    'filter': ['odd'],
    'mapfilter': ['odd', 'add100'],
    'filtermap2': ['add100', 'odd', 'add100'],
}


def odd(x):
  return x % 2 == 1


def _ops(p, names):
  for nm in names:
    if nm == 'add100':
      p = p.apply(fn=lib.add100)
    else:
      p = p.filter(odd)
  return p


class SlowGen:
  """A non-shardable source: a generator that takes a moment per element, so worker threads overlap inside it."""

  def __init__(self, n):
    self.n = n

  def __iter__(self):
    import time
    for x in range(self.n):
      time.sleep(0.0003)
      yield x


def _source(kind, n):
  from ml_metrics._src.chainables import io
  if kind == 'slow-generator':
    return SlowGen(n)
  data = list(range(n))
  return io.SequenceDataSource(data) if kind == 'sequence' else io.ShardedIterable(data)


def _sequential(prog, n):
  out = list(range(n))
  for nm in PROGRAMS[prog]:
    out = [x + 100 for x in out] if nm == 'add100' else [x for x in out if odd(x)]
  return out


def build(prog, kind, n, *, threads=0, split=None, threads2=0):
  """fused pipeline, or a chain of two named stages split after `split` operators"""
  from ml_metrics._src.chainables import transform
  names = PROGRAMS[prog]
  kw = dict(num_threads=threads) if threads else {}
  if split is None:
    p = transform.TreeTransform.new(name='p', **kw).data_source(_source(kind, n))
    return _ops(p, names).aggregate(fn=lib.Collect())
  a = _ops(transform.TreeTransform.new(name='a', **kw).data_source(_source(kind, n)), names[:split])
  kw2 = dict(num_threads=threads2) if threads2 else {}
  b = _ops(transform.TreeTransform.new(name='b', **kw2), names[split:]).aggregate(fn=lib.Collect())
  return a.chain(b)


def _agg_list(res):
  if res is None or type(res).__name__ == 'NullMap':
    return None
  if isinstance(res, list):
    return list(res)
  vals = list(dict(res).values())
  return list(vals[0]) if len(vals) == 1 else vals


def run_plain(p):
  it = p.make().iterate()
  outs = list(it)
  return outs, _agg_list(it.agg_result)


def run_sharded(p, m, threads_note=''):
  from ml_metrics._src.chainables import io
  outs, states = [], []
  for i in range(m):
    it = p.make(shard=io.ShardConfig(shard_index=i, num_shards=m)).iterate()
    outs.extend(it)
    states.append(it.agg_state)
  runner = p.make()
  merged = runner.merge_states(states, strict_states_cnt=m)
  return outs, _agg_list(runner.get_result(merged))


def run_sharded_explicit(p, m, kind, n):
  """the shards handed to the runner as its input, runner.iterate(source.shard(i, m)) (an explicit input overrides the pipeline's own source)"""
  outs, states = [], []
  for i in range(m):
    it = p.make().iterate(_source(kind, n).shard(i, m))
    outs.extend(it)
    states.append(it.agg_state)
  runner = p.make()
  merged = runner.merge_states(states, strict_states_cnt=m)
  return outs, _agg_list(runner.get_result(merged))


def run_interleaved(p):
  from ml_metrics._src.chainables import orchestrate
  res = {k: orchestrate.RunnerResource(buffer_size=2, timeout=20) for k in p.named_transforms()}
  state = orchestrate.run_pipeline_interleaved(p, resources=res)
  with state:
    outs = list(state.result_queue)
  aggs = [r for r in state.result_queue.returned if hasattr(r, 'agg_result')]
  return outs, (_agg_list(aggs[0].agg_result) if len(aggs) == 1 else f'{len(aggs)} results')


def strategies(prog, thorough):
  nops = len(PROGRAMS[prog])
  out = [('fused threads=0', dict(), 'plain', True)]
  for t in (1, 2, 3):
    out.append((f'fused threads={t}', dict(threads=t), 'plain', t == 1))
  for split in range(0, nops + 1):
    for t1, t2 in ((0, 0), (1, 1), (2, 0), (0, 2), (2, 2)):
      out.append((f'chain split={split} threads={t1},{t2}', dict(split=split, threads=t1, threads2=t2), 'plain', t1 <= 1 and t2 <= 1))
    out.append((f'interleaved split={split}', dict(split=split), 'interleaved', True))
  for m in (1, 2, 3, 4):
    out.append((f'shards={m}', dict(), ('sharded', m), False))
    for t in ((1, 2) if thorough else (2,)):
      out.append((f'shards={m} threads={t}', dict(threads=t), ('sharded', m), False))
    if m > 1:
      for t in (0, 2):
        out.append((f'shards={m}:explicit-inputs threads={t}', dict(threads=t) if t else dict(), ('sharded-explicit', m), False))
  return out


def sliced_part(chk, thorough):
  """A sliced aggregate built three ways (one builder chain, a chain of named stages, two same-named transforms fused
  by chain()), with and without threads and shards: the same result mapping, slices included."""
  from ml_metrics._src.chainables import io, transform

  def batches(n):
    # the slice value 7 occurs in the last batch only: with shards, the first shard's state has never seen that slice
    return [{'a': [i % 2, 7 if i == n - 1 else (i + 1) % 3 % 2], 'b': [10 * i, 10 * i + 1]} for i in range(n)]

  def build(form, n, threads):
    kw = dict(num_threads=threads) if threads else {}
    src = io.SequenceDataSource(batches(n))
    if form == 'builder':
      return (transform.TreeTransform.new(name='p', **kw).data_source(src).select(('a', 'b'))
              .aggregate(fn=lib.CollectRows(), input_keys='b', output_keys='o').add_slice('a'))
    first = transform.TreeTransform.new(name='p' if form == 'fused-by-chain' else 's1', **kw).data_source(src).select(('a', 'b'))
    second = (transform.TreeTransform.new(name='p' if form == 'fused-by-chain' else 's2')
              .aggregate(fn=lib.CollectRows(), input_keys='b', output_keys='o').add_slice('a'))
    return first.chain(second)

  def result_of(p, shards):
    if shards == 1:
      it = p.make().iterate()
      for _ in it:
        pass
      res = it.agg_result
    else:
      states = []
      for i in range(shards):
        it = p.make(shard=io.ShardConfig(shard_index=i, num_shards=shards)).iterate()
        for _ in it:
          pass
        states.append(it.agg_state)
      runner = p.make()
      res = runner.get_result(runner.merge_states(states, strict_states_cnt=shards))
    out = {}
    for k, v in dict(res or {}).items():
      key = (k.metrics, tuple(k.slice.features), tuple(int(x) for x in k.slice.values)) if isinstance(k, transform.MetricKey) else (k, (), ())
      out[repr(key)] = sorted(int(x) for x in v)
    return out

  for n in (0, 1, 3, 4):
    ref = result_of(build('builder', n, 0), 1)
    for form in ('builder', 'chained', 'fused-by-chain'):
      for threads in (0, 2):
        for shards in ((1, 2) if form != 'chained' else (1,)):       # make(shard=...) needs the source in every named stage
          if form == 'builder' and threads == 0 and shards == 1:
            continue
          cfg = f'sliced aggregate, {form}, n={n} batches, num_threads={threads}, shards={shards}'
          ctx = dict(kind='exec-strategy-sliced', form=form, n=n, num_threads=threads, shards=shards)
          try:
            status, got = dist.run_with_deadline(lambda: result_of(build(form, n, threads), shards), 30)
          except Exception as e:  # pylint: disable=broad-exception-caught
            status, got = 'raised', e
          chk.replayed()
          if status != 'ok':
            chk.violation(f'sliced:{status}:{form}', f'[{cfg}] {got!r}', ctx)
          elif got != ref:
            missing = sorted(set(ref) - set(got))
            what = 'slices-dropped' if missing else 'values'
            chk.violation(f'sliced:{what}:{form}', f'[{cfg}] {got} != builder form {ref}', ctx)


def fusing_part(chk):
  """The same operators as a chain of named stages and fused under one name (chain() of two transforms with the same
  name): an aggregating stage followed by an apply stage, and two aggregating stages of which one is sliced.  Fusing
  either gives the chained result or is refused when the pipeline is built."""
  from ml_metrics._src.chainables import io, transform

  def agg_then_apply(n1, n2):
    a = transform.TreeTransform.new(name=n1).data_source(io.SequenceDataSource([1, 2, 3, 4])).aggregate(fn=lib.Collect(), output_keys='s')
    b = transform.TreeTransform.new(name=n2).apply(fn=lib.add100)
    return a.chain(b)

  def two_aggs(n1, n2):
    rows = [{'x': [i % 2], 'y': [i]} for i in range(4)]
    a = (transform.TreeTransform.new(name=n1).data_source(io.SequenceDataSource(rows))
         .aggregate(fn=lib.CollectRows(), input_keys='y', output_keys='s1').add_slice('x'))
    b = transform.TreeTransform.new(name=n2).aggregate(fn=lib.CollectRows(), input_keys='y', output_keys='s2')
    return a.chain(b)

  ROWS = [{'x': [i % 2, 1], 'y': [i, i + 10]} for i in range(4)]

  def two_aggs_same_slicer(n1, n2):
    # both aggregates hang off one sliced base (the SAME slicer object: two slicers built alike do not compare equal)
    base = transform.TreeTransform.new(name=n1).add_slice('x')
    a = base.add_aggregate(fn=lib.CollectRows(), input_keys='y', output_keys='s1')
    b = (base if n1 == n2 else transform.TreeTransform.new(name=n2).add_slice('x')).add_aggregate(fn=lib.CollectRows(), input_keys='y', output_keys='s2')
    return a.chain(b)

  def result(p):
    it = p.make().iterate(ROWS) if explicit_rows[0] else p.make().iterate()
    outs = [repr(x) for x in it]
    return outs, sorted((repr(k), repr(v)) for k, v in dict(it.agg_result or {}).items())

  explicit_rows = [False]
  for name, mk in (('aggregate-then-apply', agg_then_apply), ('two-aggregates-one-sliced', two_aggs),
                   ('two-aggregates-sliced-alike', two_aggs_same_slicer)):
    explicit_rows[0] = mk is two_aggs_same_slicer
    ref = result(mk('a', 'b'))
    ctx = dict(kind='exec-strategy-fusing', pipeline=name)
    chk.replayed()
    try:
      fused = mk('p', 'p')
    except (ValueError, KeyError, TypeError):
      continue          # refused at build time: loud
    try:
      got = result(fused)
    except Exception as e:  # pylint: disable=broad-exception-caught
      chk.violation(f'fusing:{name}:raised:{type(e).__name__}', f'{e!r}', ctx)
      continue
    if got != ref:
      chk.violation(f'fusing:{name}:result-differs', f'fused under one name: outputs / aggregate {got}; as a chain of two named stages: {ref}', ctx)


def rebatching_part(chk, thorough):
  """A re-batching operator (batch(k)) under worker threads and shards: the rows are those of the sequential run under
  every strategy; the property also asks for the same multiset of emitted BATCHES."""
  from ml_metrics._src.chainables import io, transform

  def run(n, k, threads, shards):
    def one(shard):
      kw = dict(num_threads=threads) if threads else {}
      p = transform.TreeTransform.new(name='p', **kw).data_source(io.SequenceDataSource(list(range(n)))).apply(fn=lib.add100).batch(k)
      return [list(b) for b in p.make(shard=shard).iterate()]
    if shards == 1:
      return one(None)
    out = []
    for i in range(shards):
      out += one(io.ShardConfig(shard_index=i, num_shards=shards))
    return out

  for n in ((0, 1, 5, 10) if not thorough else (0, 1, 2, 5, 7, 10, 13)):
    for k in (2, 4):
      ref = run(n, k, 0, 1)
      for threads, shards in ((1, 1), (2, 1), (3, 1), (0, 2), (0, 3), (2, 2)):
        cfg = f'apply | batch({k}) over {n} elements, num_threads={threads}, shards={shards}'
        ctx = dict(kind='exec-strategy-rebatching', n=n, batch=k, num_threads=threads, shards=shards)
        status, got = dist.run_with_deadline(lambda: run(n, k, threads, shards), 30)
        chk.replayed()
        how = 'threads' if threads > 1 else 'shards' if shards > 1 else 'one-thread'
        if status != 'ok':
          chk.violation(f'rebatching:{status}:{how}', f'[{cfg}] {got!r}', ctx)
          continue
        rows, ref_rows = sorted(x for b in got for x in b), sorted(x for b in ref for x in b)
        if rows != ref_rows:
          chk.violation(f'rebatching:rows:{how}', f'[{cfg}] rows {rows}, sequential run {ref_rows}', ctx)
        elif sorted(map(tuple, got)) != sorted(map(tuple, ref)):
          chk.violation(f'rebatching:batches-differ:{how}', f'[{cfg}] emitted batches {got}, sequential run {ref}', ctx)


def body(chk):
  thorough = chk.tier == 'thorough'
  rebatching_part(chk, thorough)
  fusing_part(chk)
  # 1. design level
  for n, shards, threads, prog in ([(4, 2, 2, 'mapfilter'), (3, 1, 3, 'map'), (5, 3, 1, 'filter'), (2, 3, 2, 'map')] +
                                   ([(6, 2, 2, 'mapfilter'), (5, 2, 3, 'filter')] if thorough else [])):
    consts = dict(N=n, Shards=shards, Threads=threads, Program=prog)
    mc = tlc.run('pipeline', 'ExecStrategy', tlc.cfg_text(constants=consts, invariants=['Partition', 'NothingInvented', 'FinalEqual', 'SequentialOrder'],
                                                          properties=['Termination'], deadlock=False), timeout=1800,
                 java_opts=['-DTLA-Library=' + os.path.join(common.VERIF, 'spec', 'source')])
    chk.add_tlc(mc, f'ExecStrategy/N={n} shards={shards} threads={threads} {prog}')
    if not mc.ok:
      chk.machinery_failure(f'ExecStrategy.tla violates {mc.error_name} for {consts}')
  # 2. the real code under every strategy
  rnd = random.Random(chk.seed)
  sizes = (0, 1, 2, 5, 7) if not thorough else (0, 1, 2, 3, 5, 7, 11)
  repeats = 2 if not thorough else 8
  n_runs = 0
  for prog in PROGRAMS:
    for kind in ('sequence', 'sharded-iterable', 'slow-generator'):
      # long sources exercise the 64-element read-ahead across shard boundaries
      for n in sizes + ((150, 300) if kind == 'sequence' and prog in ('map', 'mapfilter') else ()):
        ref = _sequential(prog, n)
        for name, kw, how, ordered in strategies(prog, thorough):
          if kind == 'slow-generator' and how not in ('plain', 'interleaved'):
            continue        # a generator cannot be cut into shards
          if n >= 100 and not (name.startswith('shards=') or name in ('fused threads=2', 'fused threads=3', 'fused threads=0')):
            continue
          threaded = 'threads=0' not in name and how != 'interleaved' or 'threads=2' in name or 'threads=3' in name
          for rep in range(repeats if threaded else 1):
            cfg = f'{prog} over {kind}[{n}] / {name}'
            ctx = dict(kind='exec-strategy', program=prog, source=kind, n=n, strategy=name)
            sig_src = kind
            strat = name.split(' threads')[0].split(' split')[0]
            has_thr = any(f'threads={t}' in name for t in (1, 2, 3)) or any(x in name for x in ('=1,', '=2,', ',1', ',2'))
            try:
              p = build(prog, kind, n, **kw)
              if how == 'plain':
                status, val = dist.run_with_deadline(lambda: run_plain(p), 30)
              elif how == 'interleaved':
                status, val = dist.run_with_deadline(lambda: run_interleaved(p), 30)
              elif how[0] == 'sharded-explicit':
                status, val = dist.run_with_deadline(lambda: run_sharded_explicit(p, how[1], kind, n), 30)
              else:
                status, val = dist.run_with_deadline(lambda: run_sharded(p, how[1]), 30)
            except Exception as e:  # pylint: disable=broad-exception-caught
              status, val = 'raised', e
            n_runs += 1
            chk.replayed()
            if status == 'hung':
              chk.violation(f'hung:{strat}:{sig_src}', f'[{cfg}] no result within 30s', ctx)
              break
            if status == 'raised':
              chk.violation(f'raised:{strat}{":threads" if has_thr else ""}:{sig_src}:{type(val).__name__}', f'[{cfg}] {val!r}', ctx)
              break
            outs, agg = val
            if collections.Counter(outs) != collections.Counter(ref):
              extra = sorted((collections.Counter(outs) - collections.Counter(ref)).elements())
              missing = sorted((collections.Counter(ref) - collections.Counter(outs)).elements())
              what = 'duplicated' if extra and not missing else 'lost' if missing and not extra else 'wrong'
              chk.violation(f'outputs-{what}:{strat}{":threads" if has_thr else ""}:{sig_src}',
                            f'[{cfg}] emitted {sorted(outs)}, sequential run {ref} (extra {extra}, missing {missing})', ctx)
              break
            if ordered and outs != ref:
              chk.violation(f'order:{strat}:{sig_src}', f'[{cfg}] emitted {outs}, sequential run {ref}', ctx)
              break
            if not ref and agg in (None, []):
              continue      # nothing reached the aggregate: no result at all, under every strategy
            if not isinstance(agg, list) or collections.Counter(agg) != collections.Counter(ref):
              chk.violation(f'aggregate:{strat}{":threads" if has_thr else ""}:{sig_src}', f'[{cfg}] aggregate {agg}, sequential run {ref}', ctx)
              break
  chk.count('strategy_runs', n_runs)
  sliced_part(chk, thorough)
  chk.add_samples([dict(program='mapfilter', source='sequence', n=5, strategy='shards=3 threads=2')])
  chk.assumptions += ['threaded strategies run on real threads (schedules sampled by repetition); arrival orders are enumerated at the design level only',
                      'the aggregate collects the rows it absorbs, compared as a multiset',
                      'make(shard=...) applies to a single named stage holding the data source (a chain raises TypeError: loud, outside the statement)']


if __name__ == '__main__':
  common.main('C03', body)
