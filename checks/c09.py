"""C09 - Sharding partitions a data source exactly; MergedSequences = concatenation.

spec/source/Shard.tla + spec/source/MergedSeq.tla, model-checked by TLC, then every
behaviour TLC enumerates is replayed on the working tree's io.SequenceDataSource /
ShardedIterable / iter_utils.MergedSequences and compared step by step.
"""
from __future__ import annotations

import dataclasses as dc

from harness import common, tlc

common.setup_repo_path()

NONE = -999
ERR = -998


def _bounds(tier):
  if tier == 'thorough':
    return dict(shard=dict(MaxN=12, MaxK=6, MaxDepth=2, MaxOff=2),
                merged=dict(MaxParts=4, MaxPartLen=4, MaxTotal=7),
                rng=dict(MaxLen=7, Batches={1, 2, 3, 4, 8, 64}, MaxBad=2))
  return dict(shard=dict(MaxN=8, MaxK=4, MaxDepth=2, MaxOff=1),
              merged=dict(MaxParts=3, MaxPartLen=4, MaxTotal=5),
              rng=dict(MaxLen=5, Batches={1, 2, 3, 8}, MaxBad=1))


# ------------------------------------------------------------------ Shard


def _replay_shard(chk, h):
  from ml_metrics._src.chainables import io
  n = h['n']
  data = list(range(n))
  if h['kind'] == 'seq':
    ds = io.SequenceDataSource(data)
    for step_no, st in enumerate(h['steps']):
      try:
        ds = ds.shard(st['i'], st['k'], st['off'])
        got = dict(lo=ds.start, hi=ds.end, len=len(ds), elems=list(ds))
        state = ds.state
        rebuilt = io.SequenceDataSource(data).from_state(state)
        got['rebuilt'] = list(rebuilt)
        got['iter_state_rebuilt'] = list(ds.iterate().from_state(ds.iterate().state))
      except Exception as e:  # pylint: disable=broad-exception-caught
        chk.violation(f'shard:exception:{type(e).__name__}', f'{e!r} at step {step_no} of {h}',
                      dict(kind='shard', history=h, step=step_no))
        return
      want_elems = list(range(st['lo'], st['hi']))
      want = dict(lo=st['lo'], hi=st['hi'], len=st['len'], elems=want_elems,
                  rebuilt=want_elems, iter_state_rebuilt=want_elems)
      if got != want:
        bad = sorted(k for k in want if got[k] != want[k])
        chk.violation('shard:' + '+'.join(bad), f'step {step_no}: got {got} want {want}',
                      dict(kind='shard', history=h, step=step_no, got=got, want=want))
        return
  else:
    src = io.ShardedIterable(data)
    for step_no, st in enumerate(h['steps']):
      try:
        if st['op'] == 'rr':
          src = src.shard(st['i'], st['k'])
        else:      # consume c elements, capture the iterator state, rebuild the source from it
          it = src.iterate()
          for _ in range(st['c']):
            next(it)
          src = io.ShardedIterable(data).from_state(it.state)
        got = dict(elems=list(src), state=(src.state.shard_index, src.state.num_shards, src.state.start_index),
                   iterator_restored=list(src.iterate().from_state(src.iterate().state)))
      except Exception as e:  # pylint: disable=broad-exception-caught
        chk.violation(f'rr:exception:{type(e).__name__}', f'{e!r} at step {step_no} of {h}',
                      dict(kind='shard', history=h, step=step_no))
        return
      want_elems = sorted(st['elems'])
      if got['elems'] != want_elems or got['iterator_restored'] != want_elems:
        nested = sum(1 for x in h['steps'][:step_no + 1] if x['op'] == 'rr') > 1
        resumed = any(x['op'] == 'resume' for x in h['steps'][:step_no + 1])
        chk.violation('rr:elements' + (':nested' if nested else '') + (':resumed' if resumed else ''),
                      f'step {step_no} of {h["steps"]} over {n} elements: got {got}, the specification says {want_elems}',
                      dict(kind='shard', history=h, step=step_no))
        return
      # the representation is not part of the property: a different but equivalent state is only reported
      if got['state'][:2] != (st['fi'], st['fk']) and not getattr(chk, '_rr_drift', False):
        chk._rr_drift = True
        print(f'MODEL-DRIFT property=C09 ShardedIterable keeps {got["state"]} where Shard.tla keeps ({st["fi"]}, {st["fk"]}, {st["from"]})')


def _shard_part(chk, b):
  consts = b['shard']
  invs = ['Within', 'Partition', 'RoundRobinPartition', 'RRClosedForm', 'RRWithin', 'StateRoundTrip']
  mc = tlc.run('source', 'Shard',
               tlc.cfg_text(constants=consts, invariants=invs, view='View', deadlock=False),
               coverage=True, timeout=900)
  chk.add_tlc(mc, 'Shard/MC')
  if not mc.ok:
    # A failure of the specification alone is not a verdict on the code: replay decides.
    chk.machinery_failure(f'Shard.tla violates {mc.error_kind} {mc.error_name}: spec and code must be re-aligned')
  missing = tlc.require_covered(mc, ['ShardStep', 'RRStep', 'RRResume'])
  if missing:
    chk.machinery_failure(f'vacuous model: actions never taken {missing}')
  gen = tlc.run('source', 'Shard',
                tlc.cfg_text(constants=consts, invariants=['Emit'], deadlock=False),
                workers=1, timeout=900)
  if not gen.ok:
    chk.machinery_failure(f'Shard export failed: {gen.error_kind} {gen.error_name}')
  hs = gen.histories
  chk.count('shard_histories', len(hs))
  for h in hs:
    _replay_shard(chk, h)
  chk.replayed(len(hs))
  chk.add_samples(hs[len(hs) // 2: len(hs) // 2 + 2])


# ------------------------------------------------------------------ MergedSeq


def _mk_parts(parts):
  out, base = [], 0
  for ln in parts:
    out.append(list(range(base, base + ln)))
    base += ln
  return out


def _py(x):
  return None if x == NONE else x


def _replay_merged(chk, h, batch_sizes):
  from ml_metrics._src.utils import iter_utils
  parts, q = h['parts'], h['q']
  for bs in batch_sizes:
    m = iter_utils.MergedSequences(_mk_parts(parts), max_batch_size=bs)
    try:
      if q['op'] == 'get':
        try:
          got = m[q['i']]
        except IndexError:
          got = ERR
        want = q['expect']
      elif q['op'] == 'slice':
        got = list(m[_py(q['a']):_py(q['b'])])
        want = q['expect']
      else:
        got = [list(m), len(m)]
        want = [q['expect'], q['len']]
    except Exception as e:  # pylint: disable=broad-exception-caught
      got, want = f'EXC {type(e).__name__}: {e}', q['expect']
    if got != want:
      sig = f"merged:{q['op']}"
      if q['op'] == 'get':
        sig += ':empty-part' if 0 in parts else ':no-empty-part'
      if q['op'] == 'slice':
        total = sum(parts)
        def norm(x, dflt):
          if x == NONE:
            return dflt
          return max(0, total + x) if x < 0 else min(x, total)
        sig += ':reversed' if norm(q['a'], 0) > norm(q['b'], total) else ':forward'
      chk.violation(sig, f'parts={parts} q={q} read_ahead={bs} got={got} want={want}',
                    dict(kind='merged', history=h, read_ahead=bs, got=got, want=want))
      return


def _merged_part(chk, b):
  consts = b['merged']
  invs = ['IndexCorrect', 'SliceCorrect', 'SliceReversedEmpty', 'IterCorrect']
  spec_failures = []
  for inv in invs:
    mc = tlc.run('source', 'MergedSeq',
                 tlc.cfg_text(constants=consts, invariants=[inv], view='View', deadlock=False),
                 timeout=900)
    chk.add_tlc(mc, f'MergedSeq/MC/{inv}')
    if not mc.ok:
      spec_failures.append((inv, mc.trace[-1].get('parts') if mc.trace else None))
  gen = tlc.run('source', 'MergedSeq',
                tlc.cfg_text(constants=consts, invariants=['Emit'], deadlock=False),
                workers=1, timeout=900)
  if not gen.ok:
    chk.machinery_failure(f'MergedSeq export failed: {gen.error_kind} {gen.error_name}')
  hs = gen.histories
  chk.count('merged_queries', len(hs))
  before = len(chk.violations) + sum(chk.known_hits.values())
  batch_sizes = (1, 2, 3, 64) if chk.tier == 'thorough' else (2, 3, 64)
  for h in hs:
    _replay_merged(chk, h, batch_sizes)
  chk.replayed(len(hs))
  chk.add_samples([h for h in hs if h['q']['op'] == 'slice'][7:9])
  after = len(chk.violations) + sum(chk.known_hits.values())
  # The implementation-level transcription and the code must agree on whether the
  # design is right: a spec-only failure with a clean replay means the transcription drifted.
  if spec_failures and after == before:
    chk.machinery_failure(f'MergedSeq.tla impl layer fails {spec_failures} but the code agrees with '
                          'the declarative layer: transcription out of date')
  if spec_failures:
    chk.notes.append(f'impl-level transcription violates {spec_failures} (reproduced on the code)')


class BadSeq:
  """Random-access data 0..n-1 whose positions in `bad` raise when read, alone or inside a slice."""

  def __init__(self, n, bad, sliceable=True):
    self.n, self.bad = n, set(bad)
    self.sliceable = sliceable
    self.touched = set()

  def __len__(self):
    return self.n

  def __getitem__(self, k):
    if isinstance(k, slice):
      if not self.sliceable:
        raise TypeError('integer indices only')
      idx = list(range(*k.indices(self.n)))
      # positions actually requested, also beyond len (a reader must not ask for them)
      lo = k.start or 0
      hi = k.stop if k.stop is not None else self.n
      self.touched.update(range(lo, hi))
      if self.bad.intersection(idx):
        raise ValueError(f'bad position in {k}')
      return idx
    self.touched.add(k)
    if k in self.bad:
      raise ValueError(f'bad position {k}')
    if not 0 <= k < self.n:
      raise IndexError(k)
    return k


def _replay_range(chk, h):
  from ml_metrics._src.utils import iter_utils
  bad = h['bad'] if isinstance(h['bad'], list) else []
  data = BadSeq(h['len'], bad, sliceable=h.get('sliceable', True))
  ctx = dict(kind='rangeiter', history=h)
  try:
    it = iter_utils._RangeIterator(data, h['start'], h['stop'], h['bs'])
    got = []
    for _ in h['results']:
      try:
        got.append(next(it))
      except StopIteration:
        got.append(-2)
      except ValueError:
        got.append(-1)
  except Exception as e:  # pylint: disable=broad-exception-caught
    chk.violation(f'range:exception:{type(e).__name__}', f'{e!r} {h}', ctx)
    return
  if got != h['results']:
    kind = 'with-errors' if bad else 'no-errors'
    chk.violation(f'range:results:{kind}', f'read-ahead {h["bs"]} over [{h["start"]},{h["stop"]}) of {h["len"]} bad={bad}: '
                  f'got {got} want {h["results"]}', dict(ctx, got=got))
    return
  outside = sorted(x for x in data.touched if not h['start'] <= x < h['stop'])
  if outside:
    chk.violation('range:reads-outside', f'positions {outside} outside [{h["start"]},{h["stop"]}) were read (read-ahead {h["bs"]})', ctx)


def _range_part(chk, b):
  consts = b['rng']
  mc = tlc.run('source', 'RangeIter',
               tlc.cfg_text(constants=consts, invariants=['InRange', 'PrefixOfExpected', 'StopOnlyAtEnd', 'Complete'],
                            view='View', deadlock=False), coverage=True, timeout=1800)
  chk.add_tlc(mc, 'RangeIter/MC')
  if not mc.ok:
    chk.machinery_failure(f'RangeIter.tla violates {mc.error_kind} {mc.error_name}')
  if tlc.require_covered(mc, ['Call']):
    chk.machinery_failure('vacuous RangeIter model')
  gen = tlc.run('source', 'RangeIter', tlc.cfg_text(constants=consts, invariants=['Emit'], deadlock=False),
                workers=1, timeout=1800)
  if not gen.ok:
    chk.machinery_failure(f'RangeIter export failed: {gen.error_kind} {gen.error_name}')
  hs = gen.histories
  chk.count('range_behaviours', len(hs))
  for h in hs:
    _replay_range(chk, h)
  chk.replayed(len(hs))
  chk.add_samples([h for h in hs if h['bad'] and h['stop'] - h['start'] >= 3][:1])


def body(chk):
  b = _bounds(chk.tier)
  chk.coverage['bounds'] = b
  chk.coverage['exhaustive'] = True
  chk.assumptions += [
      'elements are abstract positions 0..n-1; sequences are Python lists',
      'offsets passed to shard() do not exceed the shard length (resume usage)',
      'slice bounds within -total..total+1 or None',
  ]
  _shard_part(chk, b)
  _merged_part(chk, b)
  _range_part(chk, b)


if __name__ == '__main__':
  common.main('C09', body)
