"""C09 - Sharding partitions a data source exactly; MergedSequences = concatenation.

spec/source/Shard.tla + spec/source/MergedSeq.tla, model-checked by TLC, then every
behaviour TLC enumerates is replayed on the working tree's io.SequenceDataSource /
ShardedIterable / iter_utils.MergedSequences and compared step by step.
"""
from __future__ import annotations

import dataclasses as dc

from harness import common, tlc

common.setup_repo_path()

NONE = -999
ERR = -998


def _bounds(tier):
  if tier == 'thorough':
    return dict(shard=dict(MaxN=12, MaxK=6, MaxDepth=2, MaxOff=2),
                merged=dict(MaxParts=4, MaxPartLen=3, MaxTotal=7))
  return dict(shard=dict(MaxN=8, MaxK=4, MaxDepth=2, MaxOff=1),
              merged=dict(MaxParts=3, MaxPartLen=2, MaxTotal=5))


# ------------------------------------------------------------------ Shard


def _replay_shard(chk, h):
  from ml_metrics._src.chainables import io
  n = h['n']
  data = list(range(n))
  if h['kind'] == 'seq':
    ds = io.SequenceDataSource(data)
    for step_no, st in enumerate(h['steps']):
      try:
        ds = ds.shard(st['i'], st['k'], st['off'])
        got = dict(lo=ds.start, hi=ds.end, len=len(ds), elems=list(ds))
        state = ds.state
        rebuilt = io.SequenceDataSource(data).from_state(state)
        got['rebuilt'] = list(rebuilt)
        got['iter_state_rebuilt'] = list(ds.iterate().from_state(ds.iterate().state))
      except Exception as e:  # pylint: disable=broad-exception-caught
        chk.violation(f'shard:exception:{type(e).__name__}', f'{e!r} at step {step_no} of {h}',
                      dict(kind='shard', history=h, step=step_no))
        return
      want_elems = list(range(st['lo'], st['hi']))
      want = dict(lo=st['lo'], hi=st['hi'], len=st['len'], elems=want_elems,
                  rebuilt=want_elems, iter_state_rebuilt=want_elems)
      if got != want:
        bad = sorted(k for k in want if got[k] != want[k])
        chk.violation('shard:' + '+'.join(bad), f'step {step_no}: got {got} want {want}',
                      dict(kind='shard', history=h, step=step_no, got=got, want=want))
        return
  else:
    for st in h['steps']:
      try:
        src = io.ShardedIterable(data).shard(st['i'], st['k'])
        full = list(src)
        state = dc.replace(src.state, start_index=st['off'])
        resumed = list(src.iterate().from_state(state))
      except Exception as e:  # pylint: disable=broad-exception-caught
        chk.violation(f'rr:exception:{type(e).__name__}', f'{e!r} {h}', dict(kind='shard', history=h))
        return
      want = sorted(st['elems'])
      want_full = [j for j in range(n) if j % st['k'] == st['i']]
      if full != want_full or resumed != want:
        chk.violation('rr:elements', f'full={full} want={want_full} resumed={resumed} want={want}',
                      dict(kind='shard', history=h))
        return


def _shard_part(chk, b):
  consts = b['shard']
  invs = ['Within', 'Partition', 'RoundRobinPartition', 'StateRoundTrip']
  mc = tlc.run('source', 'Shard',
               tlc.cfg_text(constants=consts, invariants=invs, view='View', deadlock=False),
               coverage=True, timeout=900)
  chk.add_tlc(mc, 'Shard/MC')
  if not mc.ok:
    # A failure of the specification alone is not a verdict on the code: replay decides.
    chk.machinery_failure(f'Shard.tla violates {mc.error_kind} {mc.error_name}: spec and code must be re-aligned')
  missing = tlc.require_covered(mc, ['ShardStep', 'RRStep'])
  if missing:
    chk.machinery_failure(f'vacuous model: actions never taken {missing}')
  gen = tlc.run('source', 'Shard',
                tlc.cfg_text(constants=consts, invariants=['Emit'], deadlock=False),
                workers=1, timeout=900)
  if not gen.ok:
    chk.machinery_failure(f'Shard export failed: {gen.error_kind} {gen.error_name}')
  hs = gen.histories
  chk.count('shard_histories', len(hs))
  for h in hs:
    _replay_shard(chk, h)
  chk.replayed(len(hs))
  chk.add_samples(hs[len(hs) // 2: len(hs) // 2 + 2])


# ------------------------------------------------------------------ MergedSeq


def _mk_parts(parts):
  out, base = [], 0
  for ln in parts:
    out.append(list(range(base, base + ln)))
    base += ln
  return out


def _py(x):
  return None if x == NONE else x


def _replay_merged(chk, h, batch_sizes):
  from ml_metrics._src.utils import iter_utils
  parts, q = h['parts'], h['q']
  for bs in batch_sizes:
    m = iter_utils.MergedSequences(_mk_parts(parts), max_batch_size=bs)
    try:
      if q['op'] == 'get':
        try:
          got = m[q['i']]
        except IndexError:
          got = ERR
        want = q['expect']
      elif q['op'] == 'slice':
        got = list(m[_py(q['a']):_py(q['b'])])
        want = q['expect']
      else:
        got = [list(m), len(m)]
        want = [q['expect'], q['len']]
    except Exception as e:  # pylint: disable=broad-exception-caught
      got, want = f'EXC {type(e).__name__}: {e}', q['expect']
    if got != want:
      sig = f"merged:{q['op']}"
      if q['op'] == 'get':
        sig += ':empty-part' if 0 in parts else ':no-empty-part'
      if q['op'] == 'slice':
        total = sum(parts)
        def norm(x, dflt):
          if x == NONE:
            return dflt
          return max(0, total + x) if x < 0 else min(x, total)
        sig += ':reversed' if norm(q['a'], 0) > norm(q['b'], total) else ':forward'
      chk.violation(sig, f'parts={parts} q={q} read_ahead={bs} got={got} want={want}',
                    dict(kind='merged', history=h, read_ahead=bs, got=got, want=want))
      return


def _merged_part(chk, b):
  consts = b['merged']
  invs = ['IndexCorrect', 'SliceCorrect', 'SliceReversedEmpty', 'IterCorrect']
  spec_failures = []
  for inv in invs:
    mc = tlc.run('source', 'MergedSeq',
                 tlc.cfg_text(constants=consts, invariants=[inv], view='View', deadlock=False),
                 timeout=900)
    chk.add_tlc(mc, f'MergedSeq/MC/{inv}')
    if not mc.ok:
      spec_failures.append((inv, mc.trace[-1].get('parts') if mc.trace else None))
  gen = tlc.run('source', 'MergedSeq',
                tlc.cfg_text(constants=consts, invariants=['Emit'], deadlock=False),
                workers=1, timeout=900)
  if not gen.ok:
    chk.machinery_failure(f'MergedSeq export failed: {gen.error_kind} {gen.error_name}')
  hs = gen.histories
  chk.count('merged_queries', len(hs))
  before = len(chk.violations) + sum(chk.known_hits.values())
  batch_sizes = (1, 2, 64) if chk.tier == 'thorough' else (2, 64)
  for h in hs:
    _replay_merged(chk, h, batch_sizes)
  chk.replayed(len(hs))
  chk.add_samples([h for h in hs if h['q']['op'] == 'slice'][7:9])
  after = len(chk.violations) + sum(chk.known_hits.values())
  # The implementation-level transcription and the code must agree on whether the
  # design is right: a spec-only failure with a clean replay means the transcription drifted.
  if spec_failures and after == before:
    chk.machinery_failure(f'MergedSeq.tla impl layer fails {spec_failures} but the code agrees with '
                          'the declarative layer: transcription out of date')
  if spec_failures:
    chk.notes.append(f'impl-level transcription violates {spec_failures} (reproduced on the code)')


def body(chk):
  b = _bounds(chk.tier)
  chk.coverage['bounds'] = b
  chk.coverage['exhaustive'] = True
  chk.assumptions += [
      'elements are abstract positions 0..n-1; sequences are Python lists',
      'offsets passed to shard() do not exceed the shard length (resume usage)',
      'slice bounds within -total..total+1 or None',
  ]
  _shard_part(chk, b)
  _merged_part(chk, b)


if __name__ == '__main__':
  common.main('C09', body)
