"""C05 - Failures and stop requests propagate through queues without hanging.

Same specification and machinery as C04 with the fault actions enabled: a producer's
iterator raising at a chosen position, an external maybe_stop() / maybe_stop(exc) arriving at
any point, configured timeouts, ignore_error.
"""
from __future__ import annotations

from harness import common, qprops

common.setup_repo_path()

P = dict


def entries(tier):
  es = [
      P(name='2x1 fail-first cap1', cfg=P(prods={'p1': (1, 1), 'p2': (2, 0)}, cons={'c1': ('get',)}, cap=1), graph=True),
      P(name='2x0 fail cap1', cfg=P(prods={'p1': (1, 1), 'p2': (2, 0)}, cons={}, cap=1), graph=True),
      P(name='2x1 fail-late cap1', cfg=P(prods={'p1': (2, 2), 'p2': (1, 0)}, cons={'c1': ('get',)}, cap=1), graph=True),
      P(name='3x1 fail parked cap1', cfg=P(prods={'p1': (1, 1), 'p2': (2, 0), 'p3': (1, 0)}, cons={'c1': ('get',)}, cap=1)),
      P(name='2x0 stop cap1', cfg=P(prods={'p1': (2, 0), 'p2': (2, 0)}, cons={}, cap=1, stoppers={'s1': False}), graph=True),
      P(name='1x1 stop cap1', cfg=P(prods={'p1': (2, 0)}, cons={'c1': ('get',)}, cap=1, stoppers={'s1': False}), graph=True),
      P(name='1x1 stop-exc cap1', cfg=P(prods={'p1': (2, 0)}, cons={'c1': ('get',)}, cap=1, stoppers={'s1': True}),
        graph=True),
      P(name='1x1 fail then stop cap1', cfg=P(prods={'p1': (2, 1)}, cons={'c1': ('get',)}, cap=1, stoppers={'s1': False}),
        graph=True),
      P(name='1x2 stop-exc cap1', cfg=P(prods={'p1': (1, 0)}, cons={'c1': ('get',), 'c2': ('get',)}, cap=1, stoppers={'s1': True}),
        graph=True),
      P(name='2x1 timeout cap1', cfg=P(prods={'p1': (1, 0), 'p2': (1, 0)}, cons={'c1': ('get',)}, cap=1, timeout=True),
        graph=True),
      P(name='2x1 ignore_error cap1', cfg=P(prods={'p1': (2, 1), 'p2': (1, 0)}, cons={'c1': ('get',)}, cap=1,
                                            ignore_error=True), graph=True),
      P(name='1x1 batch2 block fail-3rd', cfg=P(prods={'p1': (3, 3)}, cons={'c1': ('batch', 2, True)}, cap=2), graph=True),
  ]
  if tier == 'thorough':
    es += [
        P(name='3x1 fail parked (2,2)', cfg=P(prods={'p1': (1, 1), 'p2': (2, 0), 'p3': (2, 0)}, cons={'c1': ('get',)},
                                               cap=1)),
        P(name='2x1 stop cap1', cfg=P(prods={'p1': (2, 0), 'p2': (1, 0)}, cons={'c1': ('get',)}, cap=1,
                                      stoppers={'s1': False})),
        P(name='2x1 stop-exc cap1', cfg=P(prods={'p1': (2, 0), 'p2': (1, 0)}, cons={'c1': ('get',)}, cap=1,
                                          stoppers={'s1': True})),
        P(name='2x2 fail cap1', cfg=P(prods={'p1': (2, 2), 'p2': (1, 0)}, cons={'c1': ('get',), 'c2': ('batch', 2, True)},
                                      cap=1)),
        P(name='2x1 fail cap2 batch', cfg=P(prods={'p1': (2, 1), 'p2': (2, 0)}, cons={'c1': ('batch', 0, False)}, cap=2),
          graph=True),
        P(name='2x1 timeout batch', cfg=P(prods={'p1': (1, 0), 'p2': (1, 0)}, cons={'c1': ('batch', 2, True)}, cap=1,
                                          timeout=True), graph=True),
    ]
  return es


def body(chk):
  qprops.run(chk, entries(chk.tier),
             negative=[('2x0 fail cap1', P(prods={'p1': (1, 1), 'p2': (2, 0)}, cons={}, cap=1), 'deadlock'),
                       ('2x0 stop cap1', P(prods={'p1': (2, 0), 'p2': (2, 0)}, cons={}, cap=1, stoppers={'s1': False}),
                        'deadlock')])
  chk.assumptions += [
      'a producer failure is a non-skippable exception raised by next() of its input iterator at a chosen index',
      'external stops are maybe_stop() / maybe_stop(exc) calls from a separate thread at any point',
      'with a timeout configured every wait may time out (time itself is not modelled)',
      'after a failure, elements already dequeued inside an open get_batch call may be dropped (never duplicated)',
  ]


if __name__ == '__main__':
  common.main('C05', body)
