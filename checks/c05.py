"""C05 - Failures and stop requests propagate through queues without hanging.

Same specification and machinery as C04 with the fault actions enabled: a producer's
iterator raising at a chosen position, an external maybe_stop() / maybe_stop(exc) arriving at
any point, configured timeouts, ignore_error.
"""
from __future__ import annotations

from harness import common, qprops

common.setup_repo_path()

P = dict


def entries(tier):
  es = [
      P(name='2x1 fail-first cap1', cfg=P(prods={'p1': (1, 1), 'p2': (2, 0)}, cons={'c1': ('get',)}, cap=1), graph=True),
      P(name='2x0 fail cap1', cfg=P(prods={'p1': (1, 1), 'p2': (2, 0)}, cons={}, cap=1), graph=True),
      P(name='2x1 fail-late cap1', cfg=P(prods={'p1': (2, 2), 'p2': (1, 0)}, cons={'c1': ('get',)}, cap=1), graph=True),
      P(name='3x1 fail parked cap1', cfg=P(prods={'p1': (1, 1), 'p2': (2, 0), 'p3': (1, 0)}, cons={'c1': ('get',)}, cap=1)),
      P(name='2x0 stop cap1', cfg=P(prods={'p1': (2, 0), 'p2': (2, 0)}, cons={}, cap=1, stoppers={'s1': False}), graph=True),
      P(name='1x1 stop cap1', cfg=P(prods={'p1': (2, 0)}, cons={'c1': ('get',)}, cap=1, stoppers={'s1': False}), graph=True),
      P(name='1x1 stop-exc cap1', cfg=P(prods={'p1': (2, 0)}, cons={'c1': ('get',)}, cap=1, stoppers={'s1': True}),
        graph=True),
      P(name='1x1 fail then stop cap1', cfg=P(prods={'p1': (2, 1)}, cons={'c1': ('get',)}, cap=1, stoppers={'s1': False}),
        graph=True),
      P(name='1x2 stop-exc cap1', cfg=P(prods={'p1': (1, 0)}, cons={'c1': ('get',), 'c2': ('get',)}, cap=1, stoppers={'s1': True}),
        graph=True),
      P(name='2x1 timeout cap1', cfg=P(prods={'p1': (1, 0), 'p2': (1, 0)}, cons={'c1': ('get',)}, cap=1, timeout=True),
        graph=True),
      P(name='2x1 ignore_error cap1', cfg=P(prods={'p1': (2, 1), 'p2': (1, 0)}, cons={'c1': ('get',)}, cap=1,
                                            ignore_error=True), graph=True),
      P(name='1x1 batch2 block fail-3rd', cfg=P(prods={'p1': (3, 3)}, cons={'c1': ('batch', 2, True)}, cap=2), graph=True),
  ]
  if tier == 'thorough':
    es += [
        P(name='3x1 fail parked (2,2)', cfg=P(prods={'p1': (1, 1), 'p2': (2, 0), 'p3': (2, 0)}, cons={'c1': ('get',)},
                                               cap=1)),
        P(name='2x1 stop cap1', cfg=P(prods={'p1': (2, 0), 'p2': (1, 0)}, cons={'c1': ('get',)}, cap=1,
                                      stoppers={'s1': False})),
        P(name='2x1 stop-exc cap1', cfg=P(prods={'p1': (2, 0), 'p2': (1, 0)}, cons={'c1': ('get',)}, cap=1,
                                          stoppers={'s1': True})),
        P(name='2x2 fail cap1', cfg=P(prods={'p1': (2, 2), 'p2': (1, 0)}, cons={'c1': ('get',), 'c2': ('batch', 2, True)},
                                      cap=1)),
        P(name='2x1 fail cap2 batch', cfg=P(prods={'p1': (2, 1), 'p2': (2, 0)}, cons={'c1': ('batch', 0, False)}, cap=2),
          graph=True),
        P(name='2x1 timeout batch', cfg=P(prods={'p1': (1, 0), 'p2': (1, 0)}, cons={'c1': ('batch', 2, True)}, cap=1,
                                          timeout=True), graph=True),
    ]
  return es


def async_part(chk):
  """AsyncIteratorQueue: the same protocol on an event loop (IterQueue.tla's producer loop: an enqueuer looks at
  enqueue_done before every read of its source).  One event loop, endless sources, puts and gets on executor threads;
  the producers must have returned within 3 s of the stop / failure, and the consumer must see the failure."""
  import asyncio
  from ml_metrics._src.utils import iter_utils

  class Src:
    """Endless (or finite / failing) async source that counts its reads."""

    def __init__(self, n=None, fail_at=0, idle=False, fail_delay=0.0):
      self.n, self.fail_at, self.reads, self.idle, self.fail_delay = n, fail_at, 0, idle, fail_delay

    def __aiter__(self):
      return self

    async def __anext__(self):
      self.reads += 1
      await asyncio.sleep(0)
      if self.idle:
        await asyncio.Event().wait()        # a producer that is alive but has nothing to deliver
      if self.fail_at and self.reads == self.fail_at:
        if self.fail_delay:
          await asyncio.sleep(self.fail_delay)     # the consumer has taken what there was and is starved by now
        raise RuntimeError('async producer fails')
      if self.n is not None and self.reads > self.n:
        raise StopAsyncIteration
      return self.reads

  async def scenario(kind, cap, turns_before):
    q = iter_utils.AsyncIteratorQueue(cap)
    srcs = ([Src(idle=True), Src(fail_at=2, fail_delay=turns_before * 0.01)] if kind == 'other-fails-while-idle' else [Src(), Src(fail_at=2)] if kind == 'other-fails' else [Src()])
    tasks = [asyncio.ensure_future(q.async_enqueue_from_iterator(s)) for s in srcs]
    got, seen_exc = [], None

    async def consume():
      nonlocal seen_exc
      try:
        while True:
          got.append(await q.async_get())
      except StopAsyncIteration:
        pass
      except Exception as e:  # pylint: disable=broad-exception-caught
        seen_exc = e

    cons = asyncio.ensure_future(consume()) if kind != 'stop-no-consumer' else None
    for _ in range(turns_before):
      await asyncio.sleep(0)
    if kind in ('stop', 'stop-no-consumer'):
      q.maybe_stop()
    elif kind == 'stop-exc':
      q.maybe_stop(ValueError('stop with an error'))
    reads_at_stop = [s.reads for s in srcs]
    # puts and gets run on executor threads: give them real time (up to 3 s) to wind down
    for _ in range(300):
      if all(t.done() for t in tasks) and (cons is None or cons.done()):
        break
      if kind == 'other-fails-while-idle' and cons.done():
        break
      await asyncio.sleep(0.01)
    state = dict(producers_done=[t.done() for t in tasks], consumer_done=cons.done() if cons else True,
                 reads_after=[s.reads - r for s, r in zip(srcs, reads_at_stop)], seen_exc=repr(seen_exc))
    for t in tasks + ([cons] if cons else []):
      t.cancel()
    await asyncio.gather(*tasks, *([cons] if cons else []), return_exceptions=True)
    return state

  for kind in ('stop', 'stop-exc', 'stop-no-consumer', 'other-fails', 'other-fails-while-idle'):
    for cap in (0, 1, 2):
      for turns in (0, 3, 12):
        # on its own thread with a deadline: a consumer left blocked in an executor thread would otherwise keep
        # asyncio.run() from returning (it joins the default executor)
        from harness import dist
        status, st = dist.run_with_deadline(lambda: asyncio.run(asyncio.wait_for(scenario(kind, cap, turns), 20)), 12)
        if status == 'hung':
          chk.replayed()
          chk.violation(f'async:consumer-blocked:{kind}', f'[AsyncIteratorQueue({cap}), {kind}, after {turns} loop turns] the event loop cannot shut down: '
                        'a get()/put() on an executor thread is blocked for ever', dict(kind='async-queue', scenario=kind, cap=cap, turns_before=turns))
          continue
        if status == 'raised':
          chk.violation(f'async:{kind}:harness-error:{type(st).__name__}', repr(st), dict(kind='async-queue', scenario=kind, cap=cap, turns=turns))
          continue
        chk.replayed()
        cfg = f'AsyncIteratorQueue({cap}), {kind}, after {turns} loop turns'
        ctx = dict(kind='async-queue', scenario=kind, cap=cap, turns_before=turns, state=st)
        if kind == 'other-fails' and turns == 0:
          pass
        if kind == 'other-fails-while-idle':
          # the idle producer cannot return (its source never answers); the consumer, starved, must still see the failure
          if not st['consumer_done'] or 'Error' not in st['seen_exc']:
            chk.violation('async:failure-not-observed:other-fails-while-idle', f'[{cfg}] consumer done={st["consumer_done"]}, saw {st["seen_exc"]}', ctx)
          continue
        if not all(st['producers_done']):
          chk.violation(f'async:producer-keeps-running:{kind}', f'[{cfg}] 3 s later a producer task has not returned; it read its source '
                        f'{st["reads_after"]} more times', ctx)
        elif not st['consumer_done']:
          chk.violation(f'async:consumer-blocked:{kind}', f'[{cfg}] the consumer is still waiting', ctx)
        elif kind in ('stop-exc', 'other-fails') and 'Error' not in st['seen_exc']:
          chk.violation(f'async:failure-not-observed:{kind}', f'[{cfg}] consumer ended with {st["seen_exc"]}', ctx)


def body(chk):
  async_part(chk)
  qprops.run(chk, entries(chk.tier),
             negative=[('2x0 fail cap1', P(prods={'p1': (1, 1), 'p2': (2, 0)}, cons={}, cap=1), 'deadlock'),
                       ('2x0 stop cap1', P(prods={'p1': (2, 0), 'p2': (2, 0)}, cons={}, cap=1, stoppers={'s1': False}),
                        'deadlock')])
  chk.assumptions += [
      'a producer failure is a non-skippable exception raised by next() of its input iterator at a chosen index',
      'external stops are maybe_stop() / maybe_stop(exc) calls from a separate thread at any point',
      'with a timeout configured every wait may time out (time itself is not modelled)',
      'after a failure, elements already dequeued inside an open get_batch call may be dropped (never duplicated)',
  ]


if __name__ == '__main__':
  common.main('C05', body)
