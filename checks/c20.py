"""C20 - Worker liveness and ownership bookkeeping stays consistent.

spec/dist/Registry.tla   the liveness table with clock reads and table writes as separate
                         steps (handlers can overtake each other);
spec/dist/Ownership.tla  Worker.is_available / acquire_by / release and the pool loops
                         _acquire_all / release_all with every unlocked read and every
                         critical section as its own action.
TLC checks the properties on both, dumps the state graphs, and an edge cover of each graph
is replayed on the real WorkerRegistry / CourierServer._heartbeat (virtual clock) and on the
real Worker / WorkerPool objects under the deterministic scheduler, comparing the recorded
heartbeat resp. lock/owner after every step.  Pool-level operations that raise are run over
the in-process transport and must leave no worker acquired.
"""
from __future__ import annotations

import contextlib
import os
import random
import shutil
import types as pytypes

from harness import common, fakecourier, graph, qconfig, sched, tlc

common.setup_repo_path()

ADDR = 'worker-x'


class VClock:
  now = 1.0

  @classmethod
  def time(cls):
    return cls.now

  @staticmethod
  def sleep(_=0):
    sched.yield_point('sleep')


@contextlib.contextmanager
def installed():
  from ml_metrics._src.chainables import courier_server, courier_worker
  from ml_metrics._src.utils import courier_utils
  mods = (courier_utils, courier_server, courier_worker)
  saved = [(m, getattr(m, 'threading', None), getattr(m, 'time', None), getattr(m, 'courier', None)) for m in mods]
  vt = pytypes.SimpleNamespace(time=VClock.time, sleep=VClock.sleep)
  for m in mods:
    m.threading = sched.threading
    m.time = vt
    if hasattr(m, 'courier'):
      m.courier = fakecourier
  saved_signal = courier_server.signal
  courier_server.signal = pytypes.SimpleNamespace(signal=lambda *a, **k: None, SIGINT=2, SIGTERM=15, SIGABRT=6)
  saved_del = courier_server.CourierServer.__del__
  courier_server.CourierServer.__del__ = lambda self: None
  old_reg = courier_utils._worker_registry
  courier_utils._worker_registry = courier_utils.WorkerRegistry()
  try:
    yield courier_utils, courier_server, courier_worker
  finally:
    for m, th, ti, co in saved:
      m.threading, m.time = th, ti
      if co is not None:
        m.courier = co
    courier_server.signal = saved_signal
    courier_server.CourierServer.__del__ = saved_del
    courier_utils._worker_registry = old_reg


# ------------------------------------------------------------------ registry


REG_HANDLERS = {'h1': True, 'h2': False, 'h3': True}
REG_CALLS = {'c1', 'c2'}
_SRV = iter(range(1, 10 ** 9))


def run_registry(script, max_time):
  """Executes one schedule of Registry.tla processes on the real code; returns the hb after every step."""
  with installed() as (courier_utils, courier_server, _):
    VClock.now = 1.0
    states = []

    def hbval():
      v = courier_utils._worker_registry.data.get(ADDR, 0)
      return -1 if v is None else int(v)

    sch = sched.Scheduler(sched.Scripted(script, strict=True), eager_start=False,
                          on_state=lambda s: states.append(hbval()))
    sched.set_active(sch)
    try:
      srv = courier_server.CourierServer(f'reg-srv-{next(_SRV)}')

      def handler(alive):
        return lambda: srv._heartbeat(ADDR, alive)

      def call():
        t = courier_utils.time.time()          # StateWithTime(state, time.time()) at call time
        courier_utils._worker_registry.refresh(ADDR, t)   # _is_heartbeat_fresh -> refresh(address, time)

      def clock():
        for _ in range(int(max_time) - 1):
          VClock.now += 1
          sched.yield_point('tick')

      for h, alive in REG_HANDLERS.items():
        sch.spawn(h, handler(alive))
      for c in sorted(REG_CALLS):
        sch.spawn(c, call)
      sch.spawn('clock', clock)
      failure = sch.run(timeout=20)
      return states, failure
    finally:
      sched.set_active(None)


def registry_part(chk, rnd):
  defs = dict(mc_Alive=qconfig.fn(REG_HANDLERS))
  max_time = 4
  consts = dict(Handlers=set(REG_HANDLERS), Calls=REG_CALLS, MaxTime=max_time, RegisterMax=True, AliveFlag='<- mc_Alive')
  scratch = tlc.scratch_dir('verif_c20_')
  try:
    dot = os.path.join(scratch, 'r.dot')
    mc = tlc.run('dist', 'Registry', tlc.cfg_text(constants=consts, properties=['Monotone', 'DeadNotRevivedByRefresh'],
                                                   deadlock=False), mc_defs=defs, timeout=900, dump_dot=dot)
    chk.add_tlc(mc, 'Registry/MC')
    if not mc.ok:
      # decided on the real code: replay the counter-example
      script = _reg_script(mc.trace_actions[1:])
      states, failure = run_registry(script, max_time)
      _judge_registry(chk, states, script, 'TLC counter-example')
      if not chk.violations and not chk.known_hits:
        chk.machinery_failure(f'Registry.tla fails {mc.error_name} but the counter-example does not reproduce')
      return
    # the stale-revival property is a recorded finding: TLC must still find it in the design
    neg = tlc.run('dist', 'Registry', tlc.cfg_text(constants=consts, properties=['NoStaleRevival'], deadlock=False),
                  mc_defs=defs, timeout=900)
    chk.coverage['stale_revival_found_by_tlc'] = not neg.ok
    if not neg.ok:
      script = _reg_script(neg.trace_actions[1:])
      states, failure = run_registry(script, max_time)
      _judge_registry(chk, states, script, 'TLC counter-example (NoStaleRevival)', stale=True)
    pinned = tlc.run('dist', 'Registry', tlc.cfg_text(constants=dict(consts, RegisterMax=False), properties=['Monotone'],
                                                      deadlock=False), mc_defs=defs, timeout=900)
    chk.coverage['pinned_register_rejected_by_tlc'] = not pinned.ok
    if pinned.ok:
      chk.machinery_failure('Registry.tla with the pinned register() satisfies Monotone: property vacuous')
    g = graph.Graph.from_dot(dot)
    n = drift = 0
    for path in g.edge_cover(rnd, budget_s=8 if chk.tier == 'quick' else 120):
      script = _reg_script([f'{a}("{p}")' if p else a for (_, _, a, p) in path])
      states, failure = run_registry(script, max_time)
      n += 1
      chk.replayed()
      if failure is not None:
        drift += 1
        continue
      want = [g.state(path[0][0])['hb']] + [g.state(dst)['hb'] for (_, dst, _, _) in path]
      if states[:len(want)] != want:
        drift += 1
        if drift <= 2:
          print(f'MODEL-DRIFT property=C20 registry: spec {want} real {states}')
      _judge_registry(chk, states, script, 'TLC edge-cover path')
    chk.coverage['registry'] = dict(graph_edges=g.n_edges, edges_replayed=getattr(g, 'covered_edges', 0), paths=n, drift=drift)
    chk.add_samples([dict(registry_schedule=script, hb=states)])
    return drift
  finally:
    shutil.rmtree(scratch, ignore_errors=True)


def _reg_script(actions):
  import re
  out = []
  for a in actions:
    m = re.match(r'(\w+)(?:\("(\w+)"\))?', a)
    name, proc = m.group(1), m.group(2)
    out.append('clock' if name == 'Tick' else proc)
  return out


def _judge_registry(chk, states, script, source, stale=False):
  """Property-level verdict on the recorded heartbeat sequence of one real execution.

  Deadness is taken from the events, not from how the registry represents it: the worker is dead from the
  last step of a not-alive heartbeat handler (its notice is recorded) until a later alive handler writes."""
  last_step = {p: max(j for j, q in enumerate(script) if q == p) for p in set(script)}
  dead = False
  death_written = None
  for i in range(1, len(states)):
    a, b = states[i - 1], states[i]
    who = script[i - 1] if i - 1 < len(script) else '?'
    if a > 0 and b > 0 and b < a:
      chk.violation('registry:heartbeat-moved-backwards', f'recorded heartbeat {a} -> {b} by {who}; schedule {script}',
                    dict(kind='registry', schedule=script, states=states, source=source))
      return
    if (a == -1 or dead) and a <= 0 and b > 0:
      if who in REG_CALLS:
        chk.violation('registry:dead-revived-by-late-completion', f'{a} -> {b} by {who}; schedule {script}',
                      dict(kind='registry', schedule=script, states=states, source=source))
        return
      # revived by a server-side alive heartbeat: stale if that handler read its clock before the death notice was written
      started = script.index(who)
      if death_written is None and any(states[j + 1] == -1 and states[j] != -1 for j in range(i)):
        death_written = max(j for j in range(i) if states[j + 1] == -1 and states[j] != -1)
      if death_written is not None and started < death_written:
        chk.violation('registry:dead-revived-by-stale-alive-heartbeat',
                      f'handler {who} read its clock before the death notice was recorded and revived the worker: {states}; '
                      f'schedule {script}', dict(kind='registry', schedule=script, states=states, source=source))
        return
      dead = False
    if who in REG_HANDLERS and not REG_HANDLERS[who] and last_step.get(who) == i - 1:
      dead = True
      death_written = i - 1


# ------------------------------------------------------------------ ownership


def run_ownership(progs, pool_of, workers, script, strict=True, policy=None):
  """progs: {thread: [ops]}; returns (states [(lock, owner)...], releases [(thread, pool, owner before)], failure)."""
  with installed() as (courier_utils, _, courier_worker):
    states, releases = [], []
    pools = {}
    cur_pool = {}

    def snap(_):
      ws = pools[sorted(pools)[0]]._workers
      states.append({w.address.split('~')[0]: (w._lock.owner is not None,
                                 next((p for p, obj in pools.items() if w._worker_pool is obj), 'none')) for w in ws})

    sch = sched.Scheduler(policy or sched.Scripted(script, strict=strict), on_state=snap)
    sched.set_active(sch)
    try:
      # Worker objects are singletons per address and outlive a run: fresh addresses per run
      run_id = next(_SRV)
      for p in sorted(set(pool_of.values())):
        pools[p] = courier_worker.WorkerPool([f'{w}~{run_id}' for w in workers])
      orig_release = courier_worker.Worker.release

      pending = {}        # thread -> what its current release() observed

      def traced_release(self, *a, **k):
        # observes who owns the worker at the very moment its lock is given up, WITHOUT making release() atomic (holding the
        # state lock around it would hide a check-then-act inside release itself)
        me = sch.current()
        lk = self._lock
        if not getattr(lk, '_verif_observed', False):
          real = lk.release

          def observed_release(_w=self, _real=real):
            info = pending.get(sch.current())
            if info is not None:
              info['before'] = next((p for p, obj in pools.items() if _w._worker_pool is obj), 'none')
            return _real()
          lk.release = observed_release
          lk._verif_observed = True
        info = pending[me] = {}
        try:
          return orig_release(self, *a, **k)
        finally:
          pending.pop(me, None)
          if info.get('before', 'none') != 'none':
            releases.append((me.name if me else '?', cur_pool.get(me.name if me else '?'), info['before']))

      courier_worker.Worker.release = traced_release
      # no servers in this part: a worker always has capacity and is alive
      courier_worker.Worker.has_capacity = property(lambda self: True)
      courier_worker.Worker.is_alive = property(lambda self: True)

      def body(t):
        def run():
          pool = pools[pool_of[t]]
          cur_pool[t] = pool_of[t]
          for op in progs[t]:
            if op == 'acquire_all':
              pool._acquire_all()
            elif op == 'idle_run':
              # WorkerPool.run without the remote call: pick an idle worker, then run's `finally: worker.release()`
              w = pool.next_idle_worker(maybe_acquire=True)
              if w is not None:
                w.release()
            else:
              pool.release_all()
        return run

      for t in progs:
        sch.spawn(t, body(t))
      failure = sch.run(timeout=20)
      trace = [t for t, _ in sch.trace]
      return states, releases, failure, trace
    finally:
      sched.set_active(None)
      try:
        courier_worker.Worker.release = orig_release
        del courier_worker.Worker.has_capacity
        del courier_worker.Worker.is_alive
      except Exception:  # pylint: disable=broad-exception-caught
        pass


def _judge_ownership(chk, states, releases, script, source):
  for t, pool, before in releases:
    if before not in ('none', pool):
      chk.violation('ownership:released-a-worker-owned-by-another-pool',
                    f'thread {t} of pool {pool} released a worker owned by pool {before}; schedule {script}',
                    dict(kind='ownership', schedule=script, source=source))
      return True
  for st in states:
    for w, (locked, owner) in st.items():
      if locked != (owner != 'none'):
        chk.violation('ownership:lock-and-owner-disagree', f'{w}: locked={locked} owner={owner}; schedule {script}',
                      dict(kind='ownership', schedule=script, source=source))
        return True
  return False


def ownership_part(chk, rnd):
  from harness import qcheck
  cfgs = [
      ('2 pools x 1 worker, re-acquire', {'a1': ['acquire_all', 'release_all'], 'b1': ['acquire_all', 'release_all', 'acquire_all']},
       {'a1': 'A', 'b1': 'B'}, ['w1']),
      ('2 pools x 2 workers', {'a1': ['acquire_all', 'release_all'], 'b1': ['acquire_all', 'release_all']},
       {'a1': 'A', 'b1': 'B'}, ['w1', 'w2']),
  ]
  cfgs.append(('2 pools x 2 workers, run picks an idle worker',
               {'a1': ['acquire_all', 'idle_run', 'release_all'], 'b1': ['idle_run', 'idle_run']}, {'a1': 'A', 'b1': 'B'}, ['w1', 'w2']))
  # a second thread of pool A releases while pool B acquires: release_all's ownership check and the release are one step
  cfgs.append(('2 pools, 2 threads in pool A', {'a1': ['acquire_all', 'release_all'], 'a2': ['release_all'],
                                                'b1': ['acquire_all', 'release_all', 'acquire_all']} if chk.tier == 'thorough' else
               {'a2': ['release_all'], 'b1': ['acquire_all', 'release_all', 'acquire_all']},
               {'a1': 'A', 'a2': 'A', 'b1': 'B'} if chk.tier == 'thorough' else {'a2': 'A', 'b1': 'B'}, ['w1']))
  total_drift = 0
  for name, progs, pool_of, workers in cfgs:
    defs = dict(mc_PoolOf=qconfig.fn(pool_of), mc_Prog=qconfig.fn(progs), mc_WorkerSeq=tlc.tla(list(workers)))
    consts = dict(Threads=set(progs), WorkerSeq='<- mc_WorkerSeq', Fix=True, PoolOf='<- mc_PoolOf', Prog='<- mc_Prog')
    scratch = tlc.scratch_dir('verif_c20_')
    try:
      dot = os.path.join(scratch, 'o.dot')
      mc = tlc.run('dist', 'Ownership', tlc.cfg_text(constants=consts, invariants=['Consistent', 'ReleasedAtEnd'],
                                                      properties=['ReleaseOnlyOwn', 'Termination']),
                   mc_defs=defs, timeout=900, dump_dot=dot)
      chk.add_tlc(mc, f'Ownership/{name}')
      if not mc.ok:
        script = [p for a, p in _own_steps(mc.trace_actions[1:])]
        states, releases, failure, trace = run_ownership(progs, pool_of, workers, script, strict=False)
        if not _judge_ownership(chk, states, releases, script, f'TLC counter-example ({mc.error_name})'):
          chk.machinery_failure(f'Ownership.tla [{name}] fails {mc.error_name} but it does not reproduce on the code')
        continue
      pinned = tlc.run('dist', 'Ownership', tlc.cfg_text(constants=dict(consts, Fix=False), properties=['ReleaseOnlyOwn']),
                       mc_defs=defs, timeout=900)
      chk.coverage.setdefault('pinned_release_all_rejected_by_tlc', {})[name] = not pinned.ok
      g = graph.Graph.from_dot(dot)
      n = drift = 0
      for path in g.edge_cover(rnd, budget_s=6 if chk.tier == 'quick' else 90):
        script = [p for (_, _, a, p) in path if a != 'Fetch']
        states, releases, failure, trace = run_ownership(progs, pool_of, workers, script, strict=False)
        n += 1
        chk.replayed()
        if trace[:len(script)] != script or failure is not None:
          drift += 1
          if drift <= 2:
            print(f'MODEL-DRIFT property=C20 ownership [{name}]: script {script} executed {trace} failure={failure}')
        else:
          want = [g.state(dst) for (_, dst, a, _) in path if a != 'Fetch']
          for i, st in enumerate(want):
            real = states[i + 1] if i + 1 < len(states) else None
            spec = {w: (tlc.fn_to_dict(st['lock'])[w], tlc.fn_to_dict(st['owner'])[w]) for w in workers}
            if real != spec:
              drift += 1
              if drift <= 2:
                print(f'MODEL-DRIFT property=C20 ownership [{name}] step {i}: spec {spec} real {real}')
              break
        _judge_ownership(chk, states, releases, script, 'TLC edge-cover path')
      # exploration of the real code independent of the spec
      n_rand = 0
      for i in range(80 if chk.tier == 'quick' else 800):
        pol = sched.Random(random.Random(chk.seed * 31 + i), stickiness=rnd.choice([0, 0.5]))
        states, releases, failure, trace = run_ownership(progs, pool_of, workers, [], policy=pol)
        n_rand += 1
        chk.replayed()
        if failure is not None:
          chk.violation('ownership:stuck', f'{failure}; schedule {trace}', dict(kind='ownership', schedule=trace))
          break
        if _judge_ownership(chk, states, releases, trace, 'random schedule'):
          break
      total_drift += drift
      chk.coverage.setdefault('ownership', {})[name] = dict(graph_edges=g.n_edges, edges_replayed=getattr(g, 'covered_edges', 0),
                                                            paths=n, drift=drift, random=n_rand)
    finally:
      shutil.rmtree(scratch, ignore_errors=True)
  return total_drift


def _own_steps(actions):
  import re
  out = []
  for a in actions:
    m = re.match(r'(\w+)\("(\w+)"\)', a)
    if m and m.group(1) != 'Fetch':
      out.append((m.group(1), m.group(2)))
  return out


# ------------------------------------------------------------------ pool-level operations that raise


def harvest_part(chk):
  """Registry.tla CIssue / CRefresh on the real client: a completed call is harvested by CourierClient._is_heartbeat_fresh
  whenever somebody asks is_alive, possibly much later; what it records is the time the call was SENT."""
  with installed() as (courier_utils, _, _):
    # Registry.tla's Threshold is the client's own: ages on either side of it, for thresholds below and above the library default
    for sent, harvested, thr in ((10.0, 10.0, 180), (10.0, 25.0, 180), (10.0, 500.0, 180), (10.0, 250.0, 180), (10.0, 200.0, 180),
                                 (10.0, 50.0, 30), (10.0, 30.0, 30), (10.0, 410.0, 600), (10.0, 700.0, 600)):
      courier_utils._worker_registry = courier_utils.WorkerRegistry()
      client = courier_utils.CourierClient(ADDR, call_timeout=5, heartbeat_threshold_secs=thr)
      VClock.now = sent
      done = courier_utils.futures.Future()
      done.set_result(None)
      client._pendings.append(courier_utils.StateWithTime(done, courier_utils.time.time()))
      VClock.now = harvested
      fresh = client._is_heartbeat_fresh()
      recorded = courier_utils._worker_registry.get(ADDR)
      chk.replayed()
      ctx = dict(kind='registry-harvest', sent=sent, harvested=harvested, recorded=recorded)
      if recorded != sent:
        chk.violation('registry:harvest-records-' + ('harvest-time' if recorded == harvested else 'other-time'),
                      f'a call sent at t={sent} and harvested at t={harvested} is recorded as a sign of life at t={recorded}; Registry.tla records the send time', ctx)
      elif fresh != (harvested - sent < thr):
        chk.violation('registry:harvest-freshness', f'sent {sent}, harvested {harvested}, threshold {thr}: is_heartbeat_fresh() = {fresh}', ctx)


def pool_ops_part(chk):
  """call_and_wait / run over the in-process transport with handlers that raise: afterwards the pool owns nothing."""
  from ml_metrics._src.chainables import courier_server, courier_worker, lazy_fns
  from ml_metrics._src.utils import courier_utils
  saved = (courier_utils.courier, courier_server.courier)
  courier_utils.courier = fakecourier
  courier_server.courier = fakecourier
  fakecourier.BOARD.reset()
  old_reg = courier_utils._worker_registry
  courier_utils._worker_registry = courier_utils.WorkerRegistry()
  servers = []
  try:
    for name in ('ops-w1', 'ops-w2'):
      s = courier_server.CourierServer(name)
      s.start()
      servers.append(s)
    pool = courier_worker.WorkerPool(['ops-w1', 'ops-w2'], call_timeout=5)
    pool.wait_until_alive(deadline_secs=10)
    from harness import lazylib
    scen = [('call_and_wait ok', lambda: pool.call_and_wait(lazy_fns.trace(lazylib.inc)(1)), False),
            ('call_and_wait raising', lambda: pool.call_and_wait(lazy_fns.trace(lazylib.boom)(1)), True),
            ('run ok', lambda: pool.run(lazy_fns.trace(lazylib.inc)(1)), False),
            ('run raising', lambda: pool.run(lazy_fns.trace(lazylib.boom)(1)), True)]
    from ml_metrics._src.chainables import orchestrate

    def completed(how):
      # the pool-level operation ends when the consumer is done with it: exhausted, closed early, or left through an exception
      def fn():
        gen = orchestrate.as_completed(pool, [lazy_fns.trace(lazylib.inc)(i) for i in range(4)])
        if how == 'exhausted':
          list(gen)
        elif how == 'closed early':
          next(gen)
          gen.close()
        else:
          next(gen)
          gen.throw(KeyError('the consumer fails'))
      return fn
    scen += [('as_completed exhausted', completed('exhausted'), False), ('as_completed closed-early', completed('closed early'), False),
             ('as_completed consumer-raises', completed('consumer raises'), True)]
    for name, fn, raises in scen:
      try:
        fn()
        raised = False
      except Exception:  # pylint: disable=broad-exception-caught
        raised = True
      chk.replayed()
      left = [w.address for w in pool.acquired_workers]
      if raised != raises:
        chk.violation(f'pool-op:unexpected-outcome:{name}', f'raised={raised}, expected {raises}', dict(kind='pool-op', op=name))
      if left:
        chk.violation(f'pool-op:workers-left-acquired:{name.split()[0]}:{"raise" if raised else "return"}' + (f':{name.split()[1]}' if name.startswith('as_completed') else ''),
                      f'after {name}: {left} still acquired', dict(kind='pool-op', op=name, left=left))
        pool.release_all()
    # a worker that is dead (declared so by the registry) when the operation ends must be released like any other
    courier_utils._worker_registry.unregister('ops-w2')
    dead_first = courier_worker.WorkerPool(['ops-w2', 'ops-w1'], call_timeout=5)
    import threading as _th
    for name, fn in (('call_and_wait with a dead worker', lambda: pool.call_and_wait(lazy_fns.trace(lazylib.inc)(1))),
                     ('call_and_wait raising with a dead worker', lambda: pool.call_and_wait(lazy_fns.trace(lazylib.boom)(1))),
                     # the operation fails while it is being submitted (an argument that cannot be pickled)
                     ('call_and_wait failing at submission', lambda: pool.call_and_wait(lazy_fns.trace(lazylib.add)(_th.Lock(), 1))),
                     ('run failing at submission', lambda: pool.run(lazy_fns.trace(lazylib.add)(_th.Lock(), 1))),
                     # run() walks over the dead worker (listed first) on its way to the usable one
                     ('run with a dead worker', lambda: dead_first.run(lazy_fns.trace(lazylib.inc)(1))),
                     ('run raising with a dead worker', lambda: dead_first.run(lazy_fns.trace(lazylib.boom)(1)))):
      try:
        fn()
        raised = False
      except Exception:  # pylint: disable=broad-exception-caught
        raised = True
      chk.replayed()
      left = []
      for pl in (pool, dead_first):
        left += [w.address for w in pl.acquired_workers] + [w.address for w in pl.all_workers if w.is_locked(pl) and w not in pl.acquired_workers]
      if left:
        what = 'submission-failure' if 'submission' in name else 'dead-worker'
        chk.violation(f'pool-op:workers-left-acquired:{what}:{name.split()[0]}:{"raise" if raised else "return"}',
                      f'after {name}: {left} still acquired', dict(kind='pool-op', op=name, left=left))
        for pl in (pool, dead_first):
          for w in pl.all_workers:
            w.release(pl)
  finally:
    for s in servers:
      try:
        s.stop().join(timeout=5)
      except Exception:  # pylint: disable=broad-exception-caught
        pass
    courier_utils.courier, courier_server.courier = saved
    courier_utils._worker_registry = old_reg
    fakecourier.BOARD.reset()


def body(chk):
  rnd = random.Random(chk.seed)
  d1 = registry_part(chk, rnd) or 0
  d2 = ownership_part(chk, rnd) or 0
  pool_ops_part(chk)
  harvest_part(chk)
  chk.coverage['drift'] = d1 + d2
  chk.coverage['exhaustive'] = (d1 + d2 == 0)
  chk.assumptions += [
      'time is a virtual clock substituted for the `time` module of courier_utils / courier_server / courier_worker',
      'the transport is the in-process fake; Worker objects are shared between pools (singleton per configuration)',
      'reads made while the reading thread holds a lock are not scheduling points',
  ]


if __name__ == '__main__':
  common.main('C20', body)
