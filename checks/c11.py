"""C11 - see checks/c01.py (same specification and replay, C11's share of the verdicts)."""
from harness import common
from checks import c01

if __name__ == '__main__':
  common.main('C11', lambda chk: c01.body(chk, 'C11'))
