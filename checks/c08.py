"""C08 - Pipeline operators route data exactly as a reference interpreter.

spec/pipeline/Operators.tla IS the reference interpreter (on top of TreeOps.tla's get /
copy-on-write set): select / apply / assign / filter / sink / batch over key
specifications (single, tuple, nested path, dict / kwargs, SELF, SKIP, literal) and a fixed
function library.  TLC enumerates every program up to the bound, evaluates it on fixed
streams (empty, 1, 2 and 4 records) and checks the interpreter's own laws (filter = ordered
sub-sequence, assign changes exactly the named keys, a sink sees every record reaching it
once, operators compose).  Every enumerated program is built with the real TreeTransform
and run on the real runner; compared: the output stream, what every sink received, that
sinks are closed exactly once, that the caller's input objects are untouched (deep equality
and identity of every container) and that invalid key combinations are rejected at build
time.
"""
from __future__ import annotations

import random

from harness import common, oplib, tlc

common.setup_repo_path()

LAWS = ['FilterLaw', 'AssignLaw', 'SinkLaw', 'ComposeLaw']
STREAM_NAMES = ['empty', 'one', 'two', 'four']


def op_str(o):
  def ik(e):
    return f"lit({e['v']})" if e['t'] == 'lit' else '.'.join(x['s'] or x['t'].upper() for x in e['p'])
  def ok(e):
    return str(dict(zip(e['names'], e['from']))) if e['t'] == 'map' else '.'.join(x['s'] or x['t'].upper() for x in e['p'])
  ins = ','.join(ik(e) for e in o['ins'])
  if o['kw']:
    ins = ','.join(f'{k}={ik(e)}' for k, e in zip(o['kw'], o['ins']))
  outs = ','.join(ok(e) for e in o['outs'])
  if o['op'] == 'batch':
    return f"batch({o['bs']})"
  return f"{o['op']}({o['fn']}; in={ins}; out={outs})"


def prog_str(prog):
  return ' | '.join(op_str(o) for o in prog)


def streams_py(h):
  """The fixed input streams, recovered from the single-select-free structure: same constants as the spec."""
  def rec(a, b, x):
    return {'a': a, 'b': b, 'n': {'x': x}, 't': (a,)}
  r1, r2, r3, r4 = rec(1, 2, 5), rec(4, 3, 6), rec(3, 3, 1), rec(6, 1, 2)
  return [[], [r1], [r1, r2], [r2, r1, r3, r4]]


def compare(chk, h, skip=False, kw=None, tag=''):
  prog = h['prog']
  if h.get('undefined'):
    return
  ps = prog_str(prog)
  kinds = '+'.join(sorted({o['op'] for o in prog}))
  for si, (stream, want) in enumerate(zip(streams_py(h), h['runs'])):
    got = oplib.run(prog, stream, **(kw or {}))
    ctx = dict(kind='operators', program=prog, program_text=ps, stream=STREAM_NAMES[si], options=kw or {})
    if h['build_error']:
      if not got['build_error']:
        chk.violation(f'build-error-not-raised{tag}', f'[{ps}] invalid key combination accepted at build time', ctx)
      return
    if got['build_error']:
      chk.violation(f'build-rejected{tag}:{got["build_error"].split(":")[0]}', f'[{ps}] {got["build_error"]}', ctx)
      return
    want_out = [oplib.to_py(t) for t in want['out']]
    if got['err'] != want['err']:
      if want['err']:
        chk.violation(f'error-not-raised{tag}:{kinds}', f'[{ps}] on {STREAM_NAMES[si]}: reference raises, real returned {got["out"]}', ctx)
      else:
        chk.violation(f'unexpected-error{tag}:{kinds}:{got["err_type"]}',
                      f'[{ps}] on {STREAM_NAMES[si]}: {got.get("err_chain")} (reference: {want_out})', ctx)
      continue
    if [oplib.canon(x) for x in got['out']] != [oplib.canon(x) for x in want_out]:
      chk.violation(f'output{tag}:{kinds}', f'[{ps}] on {STREAM_NAMES[si]}: real {got["out"]} reference {want_out}', dict(ctx, got=got['out'], want=want_out))
      continue
    for j, o in enumerate(prog):
      if o['op'] != 'sink':
        continue
      want_w = [tuple(oplib.to_py(v) for v in w) for w in want['sinks'][j]]
      if o['kw']:
        got_w = [tuple(k[n] for n in o['kw']) for k in got['sinks_kw'][j]]
      else:
        got_w = got['sinks'][j]
      if [oplib.canon(tuple(w)) for w in got_w] != [oplib.canon(w) for w in want_w]:
        chk.violation(f'sink-contents{tag}', f'[{ps}] on {STREAM_NAMES[si]}: sink {j} saw {got_w}, reference {want_w}', ctx)
      if got['closed'][j] != 1:
        chk.violation(f'sink-closed{tag}:{got["closed"][j]}x:{"error" if want["err"] else "normal"}',
                      f'[{ps}] on {STREAM_NAMES[si]}: sink {j} closed {got["closed"][j]} times', ctx)
    if not got['inputs_untouched']:
      chk.violation(f'caller-data-modified{tag}:{kinds}', f'[{ps}] on {STREAM_NAMES[si]}: the input records were changed', ctx)


def body(chk):
  thorough = chk.tier == 'thorough'
  rnd = random.Random(chk.seed)
  total = 0
  runs = [dict(MaxOps=2, Universe='core', Skip=False, laws=True), dict(MaxOps=2, Universe='keys', Skip=False, laws=True)]
  if thorough:
    runs.append(dict(MaxOps=3, Universe='core', Skip=False, laws=True))
  for r in runs:
    laws = r.pop('laws')
    mc = tlc.run('pipeline', 'Operators', tlc.cfg_text(constants=r, invariants=LAWS, deadlock=False), timeout=3000)
    chk.add_tlc(mc, f"Operators/{r['Universe']}/{r['MaxOps']}")
    if not mc.ok:
      chk.machinery_failure(f'Operators.tla: the reference interpreter breaks its own law {mc.error_name}')
    gen = tlc.run('pipeline', 'Operators', tlc.cfg_text(constants=r, invariants=['Emit'], deadlock=False), workers=1, timeout=3000)
    if not gen.ok:
      chk.machinery_failure(f'Operators export failed: {gen.error_kind} {gen.error_name}')
    hs = gen.histories
    cap = 40000 if thorough else 2500
    if len(hs) > cap:
      short = [h for h in hs if len(h['prog']) == 1]
      hs = short + rnd.sample([h for h in hs if len(h['prog']) > 1], cap - len(short))
      chk.coverage['exhaustive'] = False
    for h in hs:
      compare(chk, h)
      chk.replayed()
    total += len(hs)
  # longer programs: sampled behaviours of the same specification
  sim = tlc.run('pipeline', 'Operators', tlc.cfg_text(constants=dict(MaxOps=4, Universe='keys', Skip=False), invariants=['Emit'], deadlock=False),
                workers=1, simulate=f'num={400 if thorough else 60}', depth=5, seed=chk.seed + 1, timeout=1800)
  seen = set()
  for h in sim.histories:
    key = prog_str(h['prog'])
    if len(h['prog']) < 3 or key in seen:
      continue
    seen.add(key)
    compare(chk, h)
    chk.replayed()
    total += 1
  chk.count('programs', total)
  chk.add_samples([prog_str(h['prog']) for h in sim.histories[:3]])
  chk.assumptions += ['records are dicts {a, b, n: {x}} of small ints; functions come from the fixed library of Operators.tla / harness/oplib.py',
                      'batch() is modelled as the last operator of a program only',
                      'sink closing is observed after the iterator has been dropped and garbage collected']


if __name__ == '__main__':
  common.main('C08', body)
