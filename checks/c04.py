"""C04 - Iterator queues deliver every element exactly once and always terminate.

spec/queue/IterQueue.tla (lock/condvar level, one action per scheduler segment) is
model-checked by TLC for safety (NoDup, Causal, PerProducerOrder, FaultFreeEnd,
EndOnlyWhenDone), deadlock freedom and termination under weak fairness on a matrix of
fault-free configurations.  The state graphs of the small configurations are dumped and an
edge cover is replayed on the real IteratorQueue under the deterministic scheduler,
comparing the full abstract state after every step; the real code is additionally explored
systematically (<=2 preemptions) and randomly, each execution judged at property level.
"""
from __future__ import annotations

from harness import common, qprops

common.setup_repo_path()

P = dict


def entries(tier):
  es = [
      P(name='1x1 get cap1', cfg=P(prods={'p1': (2, 0)}, cons={'c1': ('get',)}, cap=1), graph=True),
      P(name='1x1 get unbounded', cfg=P(prods={'p1': (2, 0)}, cons={'c1': ('get',)}, cap=0), graph=True),
      P(name='2x1 get cap1', cfg=P(prods={'p1': (2, 0), 'p2': (1, 0)}, cons={'c1': ('get',)}, cap=1), graph=True),
      P(name='1x2 get cap1', cfg=P(prods={'p1': (2, 0)}, cons={'c1': ('get',), 'c2': ('get',)}, cap=1), graph=True),
      P(name='1x1 batch2 block cap1', cfg=P(prods={'p1': (3, 0)}, cons={'c1': ('batch', 2, True)}, cap=1), graph=True),
      P(name='1x1 batch nonblock cap2', cfg=P(prods={'p1': (3, 0)}, cons={'c1': ('batch', 0, False)}, cap=2), graph=True),
      P(name='2x1 batch2 block cap1', cfg=P(prods={'p1': (2, 0), 'p2': (1, 0)}, cons={'c1': ('batch', 2, True)}, cap=1),
        graph=True),
  ]
  if tier == 'thorough':
    es += [
        P(name='2x2 get cap1', cfg=P(prods={'p1': (2, 0), 'p2': (2, 0)}, cons={'c1': ('get',), 'c2': ('get',)}, cap=1)),
        P(name='2x2 batch+get cap1', cfg=P(prods={'p1': (2, 0), 'p2': (1, 0)},
                                            cons={'c1': ('batch', 2, True), 'c2': ('get',)}, cap=1)),
        P(name='3x1 get cap1', cfg=P(prods={'p1': (1, 0), 'p2': (1, 0), 'p3': (1, 0)}, cons={'c1': ('get',)}, cap=1)),
        P(name='2x1 get cap2', cfg=P(prods={'p1': (2, 0), 'p2': (2, 0)}, cons={'c1': ('get',)}, cap=2), graph=True),
        P(name='1x2 batch cap2', cfg=P(prods={'p1': (3, 0)}, cons={'c1': ('batch', 2, False), 'c2': ('batch', 2, True)},
                                       cap=2)),
        P(name='2x1 batch3 block unbounded', cfg=P(prods={'p1': (2, 0), 'p2': (2, 0)}, cons={'c1': ('batch', 3, True)},
                                                   cap=0), graph=True),
    ]
  return es


def undeclared_overlap(chk):
  """Producer count not declared (IterQueue.tla: DeclaredMax = 0, maxenq = Max(maxenq, start + 1)): producers that overlap
  in a chain - p2 runs, p1 starts and finishes, p3 starts and finishes, p2 finishes - never have start = stop before the
  end, so the stream may not end early and must end once p2 is through.  One thread: p2's source drives p1 and p3."""
  from ml_metrics._src.utils import iter_utils
  for cap in (0, 8):
    q = iter_utils.IteratorQueue(cap, timeout=0.5)

    def p2_source():
      q.enqueue_from_iterator(iter(['a1']))        # p1 starts and finishes while p2 is running
      yield 'b1'
      q.enqueue_from_iterator(iter(['c1']))        # p3 starts and finishes while p2 is running
      yield 'b2'

    ctx = dict(kind='queue-undeclared-overlap', cap=cap)
    try:
      q.enqueue_from_iterator(p2_source())
      got = []
      while True:
        try:
          got.append(q.get())
        except StopIteration:
          break
    except Exception as e:  # pylint: disable=broad-exception-caught
      chk.violation(f'undeclared-overlap:{type(e).__name__}', f'IteratorQueue({cap}) without max_enqueuer, producers p2[p1][p3] overlapping in a chain: {e!r} '
                    f'(start={q._enqueue_start} stop={q._enqueue_stop} max_enqueuer={q._max_enqueuer})', ctx)
      continue
    chk.replayed()
    if got != ['a1', 'b1', 'c1', 'b2']:
      chk.violation('undeclared-overlap:elements', f'IteratorQueue({cap}): got {got}', ctx)


def body(chk):
  undeclared_overlap(chk)
  qprops.run(chk, entries(chk.tier),
             negative=[('1x1 batch2 block cap1',
                        P(prods={'p1': (3, 0)}, cons={'c1': ('batch', 2, True)}, cap=1), 'deadlock')])
  chk.assumptions += [
      'enqueue_done is read as one atomic snapshot; segments between scheduler yield points are atomic (mover argument, DESIGN 3.4)',
      'harness iterators stand in for user generators; consumers use get / get_batch / iteration only',
      'Condition.notify wakes waiters in FIFO order (CPython); the spec uses the same order',
      'a queue created without max_enqueuer may end early by construction (documented); judged in declared form only, plus one overlap order in which it may not',
  ]


if __name__ == '__main__':
  common.main('C04', body)
