"""C19 - Re-batching conserves rows, order and column alignment.

spec/source/Rebatch.tla: declarative chunking + the carry-over machine of
iter_utils.rebatched_args; TLC checks the machine refines the declarative layer at every
step.  Every behaviour (size sequence x target size x pad) is replayed on the real
rebatched_args for list / tuple / ndarray containers and 1-2 columns, and through
pipelines using batch_size / fn_batch_size.  The real generator is also traced (reads and
yields) and the step pattern compared with the machine (drift, not a verdict).
"""
from __future__ import annotations

from harness import common, tlc

common.setup_repo_path()

PADVALS = (0, -7)     # a falsy and a truthy pad value


def _bounds(tier):
  if tier == 'thorough':
    return dict(MaxBatches=4, MaxSize=5, MaxB=6, Pads={False, True})
  return dict(MaxBatches=3, MaxSize=4, MaxB=4, Pads={False, True})


def _mk_batches(sizes, ncols, container):
  import numpy as np
  out, row = [], 0
  for s in sizes:
    cols = []
    for c in range(ncols):
      vals = [(row + j) * 10 + c + 1000 for j in range(s)]
      if container == 'list':
        cols.append(vals)
      elif container == 'tuple':
        cols.append(tuple(vals))
      elif container == 'ndarray2d':
        cols.append(np.array([[v, v + 5] for v in vals], dtype=int).reshape(len(vals), 2))      # two values per row
      else:
        cols.append(np.array(vals, dtype=int))
    out.append(tuple(cols))
    row += s
  return out


def _expected(expect, ncols, padval):
  return [[[(padval if r == -1 else r * 10 + c + 1000) for r in chunk] for c in range(ncols)] for chunk in expect]


def _tolist(chunks):
  return [[list(int(v) for v in col) for col in chunk] for chunk in chunks]


def _tolist_2d(chunks, padval):
  """Chunks of (rows, 2) columns -> the first value of every row; None when a column is not (rows, 2) or a row is torn."""
  out = []
  for chunk in chunks:
    cols = []
    for col in chunk:
      if getattr(col, 'ndim', 0) != 2 or col.shape[1] != 2:
        return None
      if any(not (int(r[1]) - int(r[0]) == 5 or (int(r[0]) == padval and int(r[1]) == padval)) for r in col):
        return None
      cols.append([int(r[0]) for r in col])
    out.append(cols)
  return out


def _replay(chk, h, containers):
  import numpy as np
  from ml_metrics._src.utils import iter_utils
  sizes, b, pad = h['sizes'], h['B'], h['pad']
  drift = 0
  for container in containers:
    for ncols in (1, 2):
      for explicit_cols, PADVAL in ((True, PADVALS[0]), (False, PADVALS[1]), (True, PADVALS[1])):
        batches = _mk_batches(sizes, ncols, container)
        pristine = [[list(int(v) for v in np.asarray(col).reshape(len(col), -1)[:, 0]) if len(col) else [] for col in bt] for bt in batches]
        reads = []

        def src(batches=batches, reads=reads):
          for x in batches:
            reads.append(('read', len(x[0])))
            yield x
          reads.append(('read', -1))

        ctx = dict(kind='rebatch', history=h, container=container, ncols=ncols, explicit_cols=explicit_cols)
        try:
          gen = iter_utils.rebatched_args(src(), batch_size=b, num_columns=ncols if explicit_cols else 0,
                                          pad=PADVAL if pad else None)
          got_raw = []
          for chunk in gen:
            reads.append(('yield',))
            got_raw.append(chunk)
          got = _tolist(got_raw) if container != 'ndarray2d' else _tolist_2d(got_raw, PADVAL)
          if got is None:
            chk.violation('rebatch:2d-column-shape', f'sizes={sizes} B={b} pad={pad} cols={ncols}: chunks of a (rows, 2) column came back with shapes '
                          f'{[[getattr(c, "shape", None) for c in ch] for ch in got_raw]}', ctx)
            continue
        except Exception as e:  # pylint: disable=broad-exception-caught
          sig = f'rebatch:exception:{type(e).__name__}'
          if not sizes and not explicit_cols:
            sig = 'rebatch:empty-stream-without-num-columns'
          chk.violation(sig, f'{e!r} sizes={sizes} B={b} pad={pad} {container} cols={ncols}', ctx)
          continue
        # the caller's batches are inputs: re-batching may not write into them (the same objects may be fed again)
        after = [[list(int(v) for v in np.asarray(col).reshape(len(col), -1)[:, 0]) if len(col) else [] for col in bt] for bt in batches]
        if after != pristine:
          chk.violation(f'rebatch:input-mutated:{container}', f'sizes={sizes} B={b} pad={pad} cols={ncols}: the input batches were {pristine}, after re-batching they are {after}', ctx)
          continue
        want = _expected(h['expect'], ncols, PADVAL)
        if got != want:
          kinds = []
          flat_g = [v for ch in got for v in ch[0] if v != PADVAL]
          flat_w = [v for ch in want for v in ch[0] if v != PADVAL]
          if flat_g != flat_w:
            kinds.append('rows')
          if [len(ch[0]) for ch in got] != [len(ch[0]) for ch in want]:
            kinds.append('chunk-sizes')
          if any(len({len(col) for col in ch}) > 1 or any(col[i] // 10 != ch[0][i] // 10 for col in ch for i in range(len(col)) if col[i] != PADVAL and ch[0][i] != PADVAL) for ch in got):
            kinds.append('alignment')
          if not kinds:
            kinds.append('padding')
          chk.violation('rebatch:' + '+'.join(kinds),
                        f'sizes={sizes} B={b} pad={pad} {container} cols={ncols}: got {got} want {want}',
                        dict(ctx, got=got, want=want))
          continue
        # container kind must be preserved
        for chunk in got_raw:
          for col in chunk:
            kind = 'list' if isinstance(col, list) else 'tuple' if isinstance(col, tuple) else 'ndarray'
            if kind != container.replace('2d', ''):
              chk.violation('rebatch:container-kind', f'{container} came back as {kind} (sizes={sizes} B={b})', ctx)
        # step pattern vs the carry-over machine (implementation-level conformance)
        if explicit_cols:
          pattern, cur = [], None
          for ev in reads:
            if ev[0] == 'read':
              if cur is not None:
                pattern.append(cur)
              cur = [ev[1], 0]
            else:
              cur[1] += 1
          pattern.append(cur)
          want_pattern = [[s['read'], len(s['emitted'])] for s in h['steps']]
          if pattern != want_pattern:
            drift += 1
  return drift


def _replay_pipeline(chk, h):
  """batch_size / fn_batch_size of TreeFn._iterate on top of rebatched_args."""
  from ml_metrics._src.chainables import transform
  sizes, b = h['sizes'], h['B']
  if h['pad']:
    return
  batches = [list(col[0]) for col in _mk_batches(sizes, 1, 'list')]
  want = [[v + 100 for v in ch[0]] for ch in _expected(h['expect'], 1, 0)]
  for fnb in (0, 2, 3):
    ctx = dict(kind='rebatch-pipeline', history=h, fn_batch_size=fnb)
    seen = []

    def fn(xs, seen=seen):
      seen.append(len(xs))
      return [x + 100 for x in xs]

    try:
      p = transform.TreeTransform.new(name='p').apply(fn=fn, fn_batch_size=fnb, batch_size=b)
      got = [list(x) for x in p.make().iterate(batches)]
    except Exception as e:  # pylint: disable=broad-exception-caught
      chk.violation(f'pipeline:exception:{type(e).__name__}', f'{e!r} sizes={sizes} B={b} fn_batch_size={fnb}', ctx)
      continue
    if got != want:
      chk.violation('pipeline:batch_size', f'sizes={sizes} B={b} fn_batch_size={fnb}: got {got} want {want}',
                    dict(ctx, got=got, want=want))
      continue
    if fnb:
      total = sum(sizes)
      want_seen = [fnb] * (total // fnb) + ([total % fnb] if total % fnb else [])
      if seen != want_seen:
        chk.violation('pipeline:fn_batch_size', f'fn saw batch sizes {seen}, want {want_seen} (sizes={sizes})',
                      dict(ctx, got=seen, want=want_seen))


def _replay_pipeline_two_outputs(chk, h):
  """A function with one input column and two output columns under batch_size / fn_batch_size: both output columns are
  re-batched together."""
  from ml_metrics._src.chainables import transform
  sizes, b = h['sizes'], h['B']
  if h['pad'] or not b or not sizes:
    return
  batches = [list(col[0]) for col in _mk_batches(sizes, 1, 'list')]
  rows = [v for bt in batches for v in bt]
  want = [(rows[i:i + b], [x + 1 for x in rows[i:i + b]]) for i in range(0, len(rows), b)]
  for fnb in sorted({0, 2, b}):
    ctx = dict(kind='rebatch-pipeline-two-outputs', history=h, fn_batch_size=fnb)
    try:
      p = transform.TreeTransform.new(name='p').apply(fn=lambda xs: ([x for x in xs], [x + 1 for x in xs]), output_keys=('u', 'v'), fn_batch_size=fnb, batch_size=b)
      out = list(p.make().iterate([list(bt) for bt in batches]))
    except Exception as e:  # pylint: disable=broad-exception-caught
      chk.violation(f'pipeline:two-outputs:exception:{type(e).__name__}', f'{e!r} sizes={sizes} B={b} fn_batch_size={fnb}', ctx)
      continue
    got = [(list(rec['u']), list(rec['v'])) for rec in out]
    if got != want:
      chk.violation('pipeline:two-outputs:batches', f'sizes={sizes} B={b} fn_batch_size={fnb}: got {got} want {want}', ctx)


def _replay_pipeline_assign(chk, h):
  """assign(..., batch_size=b): the assigned column stays aligned, row by row, with the columns it is added to."""
  from ml_metrics._src.chainables import transform
  sizes, b = h['sizes'], h['B']
  if h['pad'] or not b or not sizes:
    return
  batches = [{'a': list(col[0])} for col in _mk_batches(sizes, 1, 'list')]
  rows = [v for bt in batches for v in bt['a']]
  ctx = dict(kind='rebatch-pipeline-assign', history=h)
  same = all(s_ == b for s_ in sizes[:-1]) and sizes[-1] <= b
  tag = 'input-batches-of-that-size' if same else 'batch_size-differs-from-input'
  try:
    p = transform.TreeTransform.new(name='p').assign('b', fn=lambda xs: [x + 100 for x in xs], input_keys='a', batch_size=b)
    out = list(p.make().iterate([dict(bt) for bt in batches]))
  except Exception as e:  # pylint: disable=broad-exception-caught
    chk.violation(f'pipeline:assign:exception:{type(e).__name__}:{tag}', f'{e!r} sizes={sizes} B={b}', ctx)
    return
  torn = [rec for rec in out if len(rec['a']) != len(rec['b']) or any(y != x + 100 for x, y in zip(rec['a'], rec['b']))]
  got_rows = [v for rec in out for v in rec['a']]
  if torn:
    chk.violation(f'pipeline:assign:misaligned:{tag}', f'sizes={sizes} B={b}: records whose assigned column does not match their own rows: {torn[:2]}', ctx)
  elif got_rows != rows:
    chk.violation(f'pipeline:assign:rows:{tag}', f'sizes={sizes} B={b}: rows {got_rows}, input {rows}', ctx)


def _replay_pipeline_resizing(chk, h):
  """A function whose output has more / fewer rows than its input (explode, drop): batch_size still re-batches
  its OUTPUT stream - Rebatch.tla's declarative layer (Chunks) applied to the rows the function emits."""
  from ml_metrics._src.chainables import transform
  sizes, b = h['sizes'], h['B']
  if h['pad'] or not b:
    return
  batches = [list(col[0]) for col in _mk_batches(sizes, 1, 'list')]
  rows = [v for bt in batches for v in bt]

  def dup(xs):
    return [y for x in xs for y in (x, x + 1)]

  def drop(xs):
    return [x for x in xs if (x // 10) % 2 == 0]

  def split(xs):          # one input column, two output columns
    return [x for x in xs], [x + 1 for x in xs]

  for name, fn, out_rows in (('explode', dup, [y for x in rows for y in (x, x + 1)]),
                             ('drop', drop, [x for x in rows if (x // 10) % 2 == 0])):
    want = [out_rows[i:i + b] for i in range(0, len(out_rows), b)]          # Chunks(out_rows, B)
    for fnb in sorted({0, 2, b}):
      ctx = dict(kind='rebatch-pipeline', history=h, fn_batch_size=fnb, fn=name)
      try:
        p = transform.TreeTransform.new(name='p').apply(fn=fn, fn_batch_size=fnb, batch_size=b)
        got = [list(x) for x in p.make().iterate(batches)]
      except Exception as e:  # pylint: disable=broad-exception-caught
        chk.violation(f'pipeline:{name}:exception:{type(e).__name__}', f'{e!r} sizes={sizes} B={b} fn_batch_size={fnb}', ctx)
        continue
      got = [g for g in got if g] if not want else got
      if got != want:
        kind = 'rows' if [v for g in got for v in g] != out_rows else 'chunk-sizes'
        chk.violation(f'pipeline:{name}:batch_size:{kind}' + (':fn_batch_size=batch_size' if fnb == b else ''),
                      f'sizes={sizes} B={b} fn_batch_size={fnb} fn={name}: got {got} want {want}', dict(ctx, got=got, want=want))


def body(chk):
  consts = _bounds(chk.tier)
  chk.coverage['bounds'] = {k: (sorted(v) if isinstance(v, set) else v) for k, v in consts.items()}
  invs = ['PrefixOfExpected', 'Conservation', 'BufferSmall', 'FinalExact', 'AllButLastFull', 'LastNonEmpty']
  mc = tlc.run('source', 'Rebatch',
               tlc.cfg_text(constants=consts, invariants=invs, view='View', deadlock=False),
               coverage=True, timeout=1800)
  chk.add_tlc(mc, 'Rebatch/MC')
  if not mc.ok:
    chk.machinery_failure(f'Rebatch.tla violates {mc.error_kind} {mc.error_name}')
  if tlc.require_covered(mc, ['Step']):
    chk.machinery_failure('vacuous model: Step never taken')
  gen = tlc.run('source', 'Rebatch',
                tlc.cfg_text(constants=consts, invariants=['Emit'], deadlock=False), workers=1, timeout=1800)
  if not gen.ok:
    chk.machinery_failure(f'Rebatch export failed: {gen.error_kind} {gen.error_name}')
  hs = gen.histories
  if chk.tier == 'quick' and len(hs) > 2500:
    import random
    rnd = random.Random(chk.seed)
    keep = [h for h in hs if len(h['sizes']) <= 2]
    rest = [h for h in hs if len(h['sizes']) > 2]
    hs = keep + rnd.sample(rest, 2500 - len(keep)) if len(keep) < 2500 else keep
    chk.coverage['exhaustive'] = False
  else:
    chk.coverage['exhaustive'] = True
  chk.count('behaviours', len(hs))
  containers = ('list', 'tuple', 'ndarray', 'ndarray2d')
  drift = 0
  for h in hs:
    drift += _replay(chk, h, containers)
    _replay_pipeline(chk, h)
    _replay_pipeline_resizing(chk, h)
    _replay_pipeline_assign(chk, h)
    _replay_pipeline_two_outputs(chk, h)
    chk.replayed()
  chk.coverage['drift'] = drift
  if drift:
    print(f'MODEL-DRIFT property=C19: {drift} runs whose read/yield pattern differs from the carry-over machine')
  chk.add_samples([h for h in hs if len(h['sizes']) == 3 and h['pad']][5:7])
  chk.assumptions += ['rows are abstract ids; column c holds 10*row+c so misalignment is visible',
                      'containers: list, tuple, 1-D numpy int arrays']


if __name__ == '__main__':
  common.main('C19', body)
