"""C01 - Aggregates are invariant to how data is batched and sharded.
C11 - Merging is associative, order-insensitive and never damages its operands.

Both are decided by spec/algebra/MergeAlgebra.tla: TLC checks the algebra (conservation,
operand frame, neutrality of fresh states) and enumerates every bounded history of
new / add(batch) / merge / merge_states; each history is replayed on every shipped mergeable
aggregate (harness/aggadapters.py) over several case-analysis datasets.  After every step the
result of EVERY live accumulator is read twice and compared with one fresh accumulator fed the
same items in one batch.  C01 owns mismatches of the accumulator acted upon; C11 owns changes
of operands / bystanders, non-repeatable results and merge/neutral-element failures.
"""
from __future__ import annotations

import random
import os
import sys

from harness import algebra, common, tlc

common.setup_repo_path()

PROP = 'C01'


def bounds(tier):
  if tier == 'thorough':
    return dict(mc=dict(NAccs=3, NItems=4, MaxBatch=2, EmptyBatches=False, MaxMerges=3, MaxOps=99),
                gen=[dict(NAccs=3, NItems=4, MaxBatch=2, EmptyBatches=False, MaxMerges=3, MaxOps=7),
                     dict(NAccs=2, NItems=4, MaxBatch=4, EmptyBatches=True, MaxMerges=2, MaxOps=6)],
                sample=int(os.environ.get('VERIF_C01_SAMPLE', '25000')) or None)     # 0 = every enumerated history (about an hour)
  return dict(mc=dict(NAccs=3, NItems=4, MaxBatch=2, EmptyBatches=False, MaxMerges=2, MaxOps=99),
              gen=[dict(NAccs=3, NItems=4, MaxBatch=2, EmptyBatches=False, MaxMerges=2, MaxOps=6),
                   dict(NAccs=2, NItems=4, MaxBatch=4, EmptyBatches=True, MaxMerges=2, MaxOps=5)], sample=1500)


def body(chk, prop=PROP):
  b = bounds(chk.tier)
  chk.coverage['bounds'] = b
  mc = tlc.run('algebra', 'MergeAlgebra',
               tlc.cfg_text(constants=b['mc'], invariants=['Conservation', 'NotLiveIsEmpty'],
                            properties=['OperandFrame', 'FreshNeutral', 'FreshNeutralLeft'], view='View',
                            deadlock=False), coverage=True, timeout=3000)
  chk.add_tlc(mc, 'MergeAlgebra/MC')
  if not mc.ok:
    chk.machinery_failure(f'MergeAlgebra.tla violates {mc.error_kind} {mc.error_name}')
  missing = tlc.require_covered(mc, ['New', 'Add', 'Merge', 'MergeStates'])
  if missing:
    chk.machinery_failure(f'vacuous model: {missing}')
  hists = []
  for c in b['gen']:
    gen = tlc.run('algebra', 'MergeAlgebra',
                  tlc.cfg_text(constants=c, invariants=['Emit'], constraints=['HistBound'], deadlock=False),
                  workers=1, timeout=3000)
    if not gen.ok:
      chk.machinery_failure(f'MergeAlgebra export failed: {gen.error_kind} {gen.error_name}')
    hists += gen.histories
  total = len(hists)
  # histories without any merge say nothing beyond batching; keep all with merges, sample the rest
  if b['sample'] and total > b['sample']:
    rnd = random.Random(chk.seed)
    with_merge = [h for h in hists if sum(s['op'] in ('merge', 'merge_states') for s in h) >= 2]
    rest = [h for h in hists if h not in with_merge] if len(hists) < 20000 else [h for h in hists if sum(s['op'] in ('merge', 'merge_states') for s in h) < 2]
    keep = rnd.sample(with_merge, min(len(with_merge), b['sample'] * 2 // 3))
    keep += rnd.sample(rest, min(len(rest), b['sample'] - len(keep)))
    hists = keep
    chk.coverage['exhaustive'] = False
  else:
    chk.coverage['exhaustive'] = True
  chk.coverage['histories_enumerated'] = total
  chk.coverage['histories_replayed_per_metric'] = len(hists)
  results = algebra.run_all(hists)
  per_metric = {}
  for name, n, vs in results:
    per_metric[name] = n
    chk.replayed(n)
    for p, cls, msg, detail in vs:
      if p != prop or detail is None:
        continue
      chk.violation(cls, msg, detail)
  chk.coverage['replays_per_metric'] = per_metric
  chk.add_samples(hists[:2])
  chk.assumptions += [
      'concrete numbers come from fixed case-analysis datasets (4 rows each, several per metric), not from TLC',
      'floats compared with rel 1e-7 / abs 1e-9, NaN equals NaN, array shapes must match exactly',
      'the random reservoir sampler is compared on size, membership, distinctness and reviewed count only',
      'keras_metric_wrapper (needs Keras) and AggFnNested.merge_states (NotImplementedError upstream) are outside',
  ]


if __name__ == '__main__':
  common.main(PROP, body)
