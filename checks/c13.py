"""C13 - Parallel iteration yields the sequential multiset and releases its threads.

The IterQueue.tla specification extended with (a) pool workers drawing from ONE shared input
through _ThreadSafeIterator (piter_fn / pmap / MultiplexIterator with one source), (b) one
input per worker (piter_multiplex / MultiplexIterator with several sources) and (c) the
consumer side of MultiplexIterator: DequeueIterator(num_steps) handing out batches,
maybe_stop() on exhaustion / failure / early stop, and thread_pool.shutdown(wait).  TLC
checks safety, deadlock freedom and termination (DJoin = every worker finished); edge covers
of the state graphs are replayed on the real piter_fn / piter_multiplex / MultiplexIterator
under the deterministic scheduler (the executor is scheduler-managed), and the real code is
explored with bounded preemptions.  A second part compares piter / pmap / MultiplexIterator
outputs with the sequential evaluation over a configuration sweep under random schedules.
"""
from __future__ import annotations

import random

from harness import common, qprops

common.setup_repo_path()

P = dict
W2 = {'p1': (0, 0), 'p2': (0, 0)}
W3 = {'p1': (0, 0), 'p2': (0, 0), 'p3': (0, 0)}


def entries(tier):
  es = [
      P(name='shared 2 workers src2 cap1', cfg=P(prods=W2, cons={'c1': ('diter', -1)}, cap=1, shared=(2, 0)), graph=True),
      P(name='shared 2 workers src2 cap1 stop-after-1', cfg=P(prods=W2, cons={'c1': ('diter', 1)}, cap=1, shared=(2, 0)),
        graph=True),
      P(name='shared 2 workers src3 stop-at-0', cfg=P(prods=W2, cons={'c1': ('diter', 0)}, cap=1, shared=(2, 0)), graph=True),
      P(name='shared 2 workers src3 fail-2nd', cfg=P(prods=W2, cons={'c1': ('diter', -1)}, cap=1, shared=(3, 2)), graph=True),
      P(name='multiplex 2 inputs cap1', cfg=P(prods={'p1': (1, 0), 'p2': (1, 0)}, cons={'c1': ('diter', -1)}, cap=1),
        graph=True),
      P(name='multiplex 2 inputs stop-after-1', cfg=P(prods={'p1': (1, 0), 'p2': (1, 0)}, cons={'c1': ('diter', 1)}, cap=1),
        graph=True),
      P(name='multiplex 2 inputs fail', cfg=P(prods={'p1': (1, 1), 'p2': (2, 0)}, cons={'c1': ('diter', -1)}, cap=1),
        graph=True),
      P(name='multiplex 3 inputs pool1 cap1', cfg=P(prods={'p1': (1, 0), 'p2': (1, 0), 'p3': (1, 0)}, cons={'c1': ('diter', -1)},
                                                    cap=1, pool=1), graph=True),
      P(name='multiplex 2 inputs (2,2) cap1 stop-at-0', cfg=P(prods={'p1': (2, 0), 'p2': (2, 0)}, cons={'c1': ('diter', 0)}, cap=1),
        graph=True, budget_x=3),
      P(name='multiplex 3 inputs (2,1,1) cap1 stop-at-0', cfg=P(prods={'p1': (2, 0), 'p2': (1, 0), 'p3': (1, 0)},
                                                                cons={'c1': ('diter', 0)}, cap=1), graph=True, budget_x=2),
      P(name='shared 1 worker unbounded', cfg=P(prods={'p1': (0, 0)}, cons={'c1': ('diter', -1)}, cap=0, shared=(3, 0)),
        graph=True),
  ]
  if tier == 'thorough':
    es += [
        P(name='shared 3 workers src3 cap1', cfg=P(prods=W3, cons={'c1': ('diter', -1)}, cap=1, shared=(3, 0))),
        P(name='shared 2 workers src3 cap2 stop-after-2', cfg=P(prods=W2, cons={'c1': ('diter', 2)}, cap=2, shared=(3, 0))),
        P(name='shared 3 workers fail-1st', cfg=P(prods=W3, cons={'c1': ('diter', -1)}, cap=1, shared=(3, 1))),
        P(name='multiplex 3 inputs stop-after-2', cfg=P(prods={'p1': (1, 0), 'p2': (1, 0), 'p3': (1, 0)},
                                                        cons={'c1': ('diter', 2)}, cap=1)),
        P(name='multiplex 2 inputs (2,2) cap2', cfg=P(prods={'p1': (2, 0), 'p2': (2, 0)}, cons={'c1': ('diter', -1)}, cap=2),
          graph=True),
    ]
  return es


UNBOUNDED = 10 ** 9


def sweep(chk):
  """piter / pmap / MultiplexIterator vs the sequential evaluation under random schedules."""
  import collections
  from harness import qreplay, sched
  n_runs = 60 if chk.tier == 'quick' else 600
  rnd = random.Random(chk.seed + 13)
  bad = 0
  for i in range(n_runs):
    par = rnd.choice([1, 2, 3])
    n_inputs = rnd.choice([1, 1, 2, 3])
    buf = rnd.choice([0, 1, par * 3])
    lens = [rnd.choice([0, 1, 2, 4]) for _ in range(n_inputs)]
    api = rnd.choice(['piter', 'pmap', 'multiplex']) if n_inputs == 1 else rnd.choice(['piter', 'multiplex', 'pmux', 'pmux'])
    if api == 'pmux':
      par = rnd.choice([1, 2])        # pool size, possibly smaller than the number of inputs
    stop_after = rnd.choice([None, None, 0, 1, 2])
    fail_at = rnd.choice([None, None, None, 1, 2])
    seed = chk.seed * 7919 + i
    # inputs that never end by themselves: the helper threads only finish if stopping / failing the stream stops them
    will_fail = bool(fail_at and lens and fail_at <= lens[0])
    if rnd.random() < 0.4 and ((api == 'multiplex' and stop_after is not None) or (will_fail and n_inputs > 1)):
      lens = [n if (k == 0 and will_fail) else UNBOUNDED for k, n in enumerate(lens)]
    # the mapped function (second stage of a two-stage piter) fails at its k-th element
    fn_fail = rnd.choice([1, 2, 3]) if (api == 'piter' and rnd.random() < 0.35 and not will_fail and stop_after is None) else 0
    if fn_fail and n_inputs > 1 and rnd.random() < 0.6:
      lens = [UNBOUNDED for _ in lens]
    # every fourth run lets the helper threads go as far as they can before a call returns to the caller
    res = _run_api(api, par, lens, buf, stop_after, fail_at, seed, fn_fail=fn_fail, main_last=(i % 4 == 3))
    chk.replayed()
    if res:
      bad += 1
      chk.violation(res[0], res[1], dict(kind='piter-sweep', api=api, parallelism=par, lens=lens, buffer=buf,
                                         stop_after=stop_after, fail_at=fail_at, fn_fail=fn_fail, main_last=(i % 4 == 3), run_seed=seed))
  # a mapped function failing on its very first element, the helper threads running ahead of the caller
  for k in range(8):
    # parallelism 1 and 2 (one worker in the second stage is still a second stage), failing at the 1st / 2nd element
    res = _run_api('piter', 1 + k % 2, [UNBOUNDED, UNBOUNDED], 1 + (k // 2) % 2, None, None, chk.seed * 31 + k, fn_fail=1 + k // 4, main_last=(k % 3 != 2))
    chk.replayed()
    if res:
      chk.violation(res[0] + ':first-element', res[1], dict(kind='piter-sweep', api='piter', parallelism=1 + k % 2, lens=[UNBOUNDED, UNBOUNDED], buffer=1 + (k // 2) % 2,
                                                           stop_after=None, fail_at=None, fn_fail=1 + k // 4, main_last=(k % 3 != 2), run_seed=chk.seed * 31 + k))
  # a pool that is not larger than the number of inputs of a two-stage piter: the per-input readers take every thread
  for k, (n_in, size) in enumerate(((2, 2), (3, 3), (3, 2))):
    res = _run_api('piter', 1, [4] * n_in, 1, None, None, chk.seed * 37 + k, pool_size=size)
    chk.replayed()
    if res:
      sig = res[0].replace(':plain', ':pool-not-larger-than-inputs')
      chk.violation(sig, res[1] + f' pool of {size} threads', dict(kind='piter-sweep', api='piter', parallelism=1, lens=[4] * n_in, buffer=1, pool_size=size,
                                                                    run_seed=chk.seed * 37 + k))
  chk.coverage['sweep_runs'] = n_runs + 11


class _MainLast:
  """Schedules the calling thread only when nobody else can run: whatever the helper threads can do before a call
  returns to its caller, they do."""

  def __init__(self, rnd):
    self.rnd = rnd

  def choose(self, enabled, sch):
    others = [t for t in enabled if getattr(t, 'name', t) != 'main']
    return self.rnd.choice(others or enabled)


def _run_api(api, par, lens, buf, stop_after, fail_at, seed, fn_fail=0, main_last=False, pool_size=None):
  import collections
  from harness import qreplay, sched
  with qreplay.installed() as iter_utils:
    policy = _MainLast(random.Random(seed)) if main_last else sched.Random(random.Random(seed), stickiness=0.3)
    sch = sched.Scheduler(policy, max_steps=20000)
    sched.set_active(sch)
    out = dict(values=[], end=None, alive=None)
    try:
      # the inputs of the two-stage API return their names: every generator's return value is collected (once)
      inputs = [qreplay.ItemIter(f'i{k}', n, fail_at if (fail_at and k == 0 and fail_at <= n) else 0, returns=(api == 'piter'))
                for k, n in enumerate(lens)]
      expect_fail = bool(fail_at and lens and fail_at <= lens[0])

      def fn(x):
        return (x[0], x[1] * 10)

      def body():
        pool = iter_utils.futures.ThreadPoolExecutor(max_workers=max(par, len(inputs)) + 1, thread_name_prefix='w#')
        if api == 'pmux':
          pool = iter_utils.futures.ThreadPoolExecutor(max_workers=par, thread_name_prefix='w#')
        if pool_size:
          pool = iter_utils.futures.ThreadPoolExecutor(max_workers=pool_size, thread_name_prefix='w#')
        # a submitted task may run (and fail) before submit() returns to the caller
        real_submit = pool.submit

        def submit(*a, **k):
          f = real_submit(*a, **k)
          sched.yield_point('after-submit')
          return f
        pool.submit = submit
        try:
          if api == 'pmux':
            it = iter(iter_utils.piter_multiplex([map(fn, x) for x in inputs], pool, buffer_size=buf))
            mi = None
          elif api == 'pmap':
            it = iter_utils.pmap(fn, inputs[0], max_parallism=par, buffer_size=buf, thread_pool=pool)
            it = iter(it)
            mi = None
          elif api == 'piter':
            def mapped(xs):
              if not fn_fail:
                return map(fn, xs)
              def gen():
                for k, x in enumerate(xs, 1):
                  if k == fn_fail:
                    raise qreplay.ProducerError(f'mapped function fails at its element {k}')
                  yield fn(x)
              return gen()
            out['queue'] = iter_utils.piter(mapped, input_iterators=inputs, max_parallism=par, buffer_size=buf, thread_pool=pool)
            it = iter(out['queue'])
            mi = None
          else:
            mi = iter_utils.MultiplexIterator(data_sources=inputs, iter_fn=lambda xs: map(fn, xs), parallism=par)
            it = mi
            pool = mi._thread_pool
          k = 0
          while True:
            if stop_after is not None and k == stop_after:
              if hasattr(it, 'maybe_stop'):
                it.maybe_stop()
              out['end'] = 'stopped'
              break
            out['values'].append(next(it))
            k += 1
        except StopIteration:
          out['end'] = 'exhausted'
        except sched.Aborted:
          raise
        except BaseException as e:  # pylint: disable=broad-exception-caught
          out['end'] = f'raised:{type(e).__name__}'
        if mi is not None:
          out['alive'] = pool.workers_alive()
        else:
          # plain piter/pmap return the queue: the caller owns the pool
          pool.shutdown(wait=(out['end'] != 'stopped' or hasattr(it, 'maybe_stop')))
          out['alive'] = pool.workers_alive()

      sch.spawn('main', body)
      failure = sch.run(timeout=30)
    finally:
      sched.set_active(None)
  cfg = f'{api}:par{par}:inputs{len(lens)}'
  if failure is not None:
    how = 'early-stop' if stop_after is not None else ('failure' if expect_fail else 'function-failure' if fn_fail else 'plain')
    stage = 'two-stage' if (api == 'piter' and len(lens) > 1) else 'one-stage'
    how += ':unbounded-inputs' if UNBOUNDED in lens else ''
    return (f'sweep:{type(failure).__name__}:{api}:{stage}:{how}',
            f'{failure} [{cfg} lens={lens} buf={buf} stop_after={stop_after} fail_at={fail_at}]')
  got = collections.Counter(out['values'])
  if UNBOUNDED not in lens:
    want = collections.Counter((f'i{k}', (j + 1) * 10) for k, n in enumerate(lens) for j in range(n))
    if out['end'] == 'exhausted' and not expect_fail and got != want:
      return (f'sweep:multiset:{api}', f'got {sorted(got.elements())} want {sorted(want.elements())} [{cfg} lens={lens} buf={buf}]')
  phantom = [v for v, c in got.items() if c > 1 or not (isinstance(v, tuple) and len(v) == 2 and v[0] in {f'i{k}' for k in range(len(lens))}
                                                       and v[1] % 10 == 0 and 1 <= v[1] // 10 <= lens[int(v[0][1:])])]
  if phantom:
    return (f'sweep:phantom-or-duplicate:{api}', f'{sorted(phantom)} [{cfg} lens={lens}]')
  if api == 'piter' and out['end'] == 'exhausted' and not expect_fail and not fn_fail and UNBOUNDED not in lens and out.get('queue') is not None:
    rets = collections.Counter(out['queue'].returned)
    want_rets = collections.Counter(f'i{k}' for k in range(len(lens)))
    if rets != want_rets:
      what = 'duplicated' if all(rets[k] >= v for k, v in want_rets.items()) else 'lost'
      return (f'sweep:return-values-{what}:piter', f'the inputs return {sorted(want_rets)}; the queue collected {sorted(rets.elements())} [{cfg} lens={lens} buf={buf}]')
  if expect_fail and out['end'] == 'exhausted':
    return (f'sweep:failure-swallowed:{api}', f'input 0 fails at {fail_at} but iteration ended cleanly [{cfg} lens={lens}]')
  if out['alive']:
    return (f'sweep:threads-alive:{api}', f'{out["alive"]} alive after {out["end"]} [{cfg} lens={lens} buf={buf} stop_after={stop_after}]')
  return None


def body(chk):
  from harness import qconfig
  qprops.run(chk, entries(chk.tier), budget_graph=5.0, explore_runs=150, random_runs=60,
             negative=[('multiplex 3 inputs pool1, max_enqueuer declared as the pool size',
                        P(prods={'p1': (1, 0), 'p2': (1, 0), 'p3': (1, 0)}, cons={'c1': ('diter', -1)}, cap=1, pool=1, declared=1,
                          neg_fixes=set(qconfig.ALL_FIXES)), 'invariant')])
  sweep(chk)
  chk.assumptions += [
      'the executor is scheduler-managed (honours max_workers, shutdown(wait) blocks until its workers finished)',
      'inputs are harness iterators that detect re-entrant next() like a generator does',
      'same atomicity assumptions as C04',
  ]


if __name__ == '__main__':
  common.main('C13', body)
