"""C06 - Distributed runs survive worker timeouts and deaths: no lost or doubled work.

spec/dist/Sched.tla models the retrying control loop of WorkerPool.iterate together with
the per-task client coroutine and transport faults; TLC checks exactly-once forwarding of
every shard's aggregation state, at-least-once delivery of output batches, error surfacing
and termination.  Binding: the fault assignments TLC explores are executed as fault plans
on the real WorkerPool / PrefetchedCourierServer / orchestrate code over the in-process
transport (outcome of the i-th call of each worker = ok | deadline | response lost | die |
application error) and the observable outcome is judged: final aggregate equal to the
in-process run, every output at least once, no state twice, errors surface, workers
released.  The one interleaving of the design that TLC rejects (state forwarded, worker
declared dead before the coroutine completes) is forced on the real code through an
ordering constraint in the harness's state queue.
"""
from __future__ import annotations

import collections
import queue
import random
import threading
import time

from harness import common, dist, fakecourier, lib, tlc

common.setup_repo_path()


def in_process(n):
  it = lib.define_pipeline(n).make().iterate()
  outs = list(it)
  return sorted(outs), list(it.agg_result)


def run_plan(n, shards, workers, plan, *, call_timeout=20.0, threshold=90.0, retry_threshold=50, fail_on=(), kill=None,
             deadline=25.0, rejoin_after=None):
  """Runs sharded_pipelines_as_iterator under a fault plan; returns an outcome dict."""
  with dist.cluster(workers, call_timeout=call_timeout, heartbeat_threshold=threshold) as c:
    for (w, i), outcome in plan.items():
      c.plan(w, i, outcome)
    rq = queue.SimpleQueue()
    outs = []
    if rejoin_after is not None:
      def rejoin():
        t0 = time.time()
        while time.time() - t0 < deadline:
          with fakecourier.BOARD.lock:
            dead = [i for i, nm in enumerate(c.names) if nm in fakecourier.BOARD.dead]
          if dead:
            time.sleep(rejoin_after)
            for i in dead:
              c.restart(i)
            return
          time.sleep(0.002)
      threading.Thread(target=rejoin, daemon=True).start()

    def run():
      for x in c.mods.orchestrate.sharded_pipelines_as_iterator(
          c.pool, lib.define_pipeline, n, result_queue=rq, num_shards=shards, retry_threshold=retry_threshold,
          **({'fail_on': tuple(fail_on)} if fail_on else {})):
        outs.append(x)
      return True

    status, val = dist.run_with_deadline(run, deadline)
    result = None
    if status == 'ok':
      try:
        result = rq.get(timeout=5)
      except queue.Empty:
        result = 'no-result'
    acquired = [w.address for w in c.pool.acquired_workers]
    log = list(fakecourier.BOARD.log)
    return dict(status=status, error=(f'{type(val).__name__}: {val}' if status == 'raised' else None),
                error_type=type(val).__name__ if status == 'raised' else None,
                outputs=list(outs), result=result, acquired=acquired, calls=len(log))


def judge(chk, name, n, out, plan, *, expect_error=None, ctx=None):
  ref_outs, ref_agg = in_process(n)
  ctx = dict(kind='dist', scenario=name, plan={f'{w}:{i}': str(o) for (w, i), o in plan.items()}, **(ctx or {}))
  if out['status'] == 'hung':
    chk.violation(f'hung:{name.split()[0]}', f'[{name}] no result within the deadline; outputs so far {sorted(out["outputs"])}', ctx)
    return
  if expect_error:
    if out['status'] != 'raised':
      chk.violation(f'error-swallowed:{name.split()[0]}', f'[{name}] expected {expect_error}, the run ended normally with '
                    f'{sorted(out["outputs"])}', ctx)
    elif out['error_type'] not in expect_error:
      chk.violation(f'wrong-error:{name.split()[0]}:{out["error_type"]}', f'[{name}] {out["error"]}', ctx)
  else:
    if out['status'] == 'raised':
      chk.violation(f'unexpected-error:{name.split()[0]}:{out["error_type"]}', f'[{name}] {out["error"]}', ctx)
      return
    got = collections.Counter(out['outputs'])
    missing = [x for x in ref_outs if got[x] < 1]
    extra = [x for x in got if x not in ref_outs]
    if missing or extra:
      chk.violation(f'outputs:{name.split()[0]}', f'[{name}] missing {missing} unknown {extra}', ctx)
    r = out['result']
    if r == 'no-result' or r is None:
      chk.violation(f'no-final-aggregate:{name.split()[0]}', f'[{name}] no AggregateResult delivered', ctx)
    else:
      agg = r.agg_result if isinstance(r.agg_result, list) else list(r.agg_result.values())[0]
      if sorted(agg) != sorted(ref_agg):
        dup = [x for x, k in collections.Counter(agg).items() if k > 1]
        kind = 'state-merged-twice' if dup else 'state-lost'
        chk.violation(f'aggregate:{kind}:{name.split()[0]}', f'[{name}] aggregate {sorted(agg)} != in-process {sorted(ref_agg)}', ctx)
  if out['acquired']:
    chk.violation(f'workers-left-acquired:{name.split()[0]}', f'[{name}] {out["acquired"]}', ctx)


def forced_window(chk):
  """State forwarded, then the worker is declared dead before the coroutine completes (TLC counter-example)."""
  n, shards = 4, 2
  with dist.cluster(2, call_timeout=20.0, heartbeat_threshold=90.0) as c:
    polled = threading.Event()
    hit = {'n': 0}
    orig_is_alive = c.mods.courier_worker.Worker.is_alive

    class HoldQueue(queue.SimpleQueue):
      def put(self, item, *a, **k):   # called by async_iterate right after the end marker arrived
        super().put(item, *a, **k)
        from ml_metrics._src.chainables import transform
        if isinstance(item, transform.AggregateResult) and hit['n'] == 0:
          hit['n'] = 1
          # the worker that ran this task stops answering and its heartbeat goes stale ...
          dist.ScaledTime.jump(500.0)
          polled.clear()
          # ... and the control loop gets to look at the task before this coroutine returns
          polled.wait(2.0)

    states_q = HoldQueue()

    def is_alive(self):
      v = orig_is_alive.fget(self)
      if hit['n'] == 1 and not v:
        polled.set()
      return v

    c.mods.courier_worker.Worker.is_alive = property(is_alive)
    try:
      tasks = (lib_trace(n, i, shards) for i in range(shards))
      outs = []

      def run():
        for x in c.pool.iterate(tasks, generator_result_queue=states_q, retry_threshold=50, total_tasks=shards):
          outs.append(x)
        return True

      status, val = dist.run_with_deadline(run, 25)
    finally:
      c.mods.courier_worker.Worker.is_alive = orig_is_alive
    got_states = []
    while not states_q.empty():
      s = states_q.get()
      if hasattr(s, 'agg_state'):
        got_states.append(s)
    chk.replayed()
    ctx = dict(kind='dist', scenario='forced window: state forwarded, worker declared dead before the coroutine completes')
    if status != 'ok':
      chk.violation('forced-window:did-not-finish', f'{status} {val}', ctx)
    elif len(got_states) != shards:
      chk.violation('state-forwarded-twice:declared-dead-between-put-and-completion',
                    f'{len(got_states)} aggregation states forwarded for {shards} shards (outputs {sorted(outs)})', ctx)
    chk.coverage['forced_window_states'] = len(got_states)


def death_after_completion(chk):
  """A worker dies after its shard completed but before the control loop looks at the task again.

  The loop is a generator: while the consumer does not pull it is suspended, so the order
  `shard complete -> worker declared dead -> loop inspects the task` is forced, not raced."""
  n, shards = 6, 2
  ref_outs, ref_agg = in_process(n)
  with dist.cluster(2, call_timeout=20.0, heartbeat_threshold=90.0) as c:
    states_q = queue.SimpleQueue()
    tasks = (lib_trace(n, i, shards) for i in range(shards))
    outs = []

    def run():
      it = c.pool.iterate(tasks, generator_result_queue=states_q, retry_threshold=50, total_tasks=shards)
      outs.append(next(it))
      # wait until both shards were served completely and their coroutines are long finished
      t0 = time.time()
      while states_q.qsize() < shards and time.time() - t0 < 10:
        time.sleep(0.01)
      time.sleep(0.2)
      c.kill(1)                      # the worker stops answering ...
      dist.ScaledTime.jump(500.0)    # ... and its heartbeat is stale
      for x in it:
        outs.append(x)
      return True

    status, val = dist.run_with_deadline(run, 40)
    got_states = []
    while not states_q.empty():
      s = states_q.get()
      if hasattr(s, 'agg_state'):
        got_states.append(s)
  chk.replayed()
  ctx = dict(kind='dist', scenario='worker dies after its shard completed, before the loop inspects the finished task')
  if status != 'ok':
    chk.violation(f'death-after-completion:{status}', f'{val!r}', ctx)
    return
  if len(got_states) != shards:
    chk.violation('death-after-completion:state-count', f'{len(got_states)} aggregation states forwarded for {shards} completed shards', ctx)
  extra = collections.Counter(outs) - collections.Counter(ref_outs)
  if extra:
    chk.violation('death-after-completion:outputs-redelivered', f'a completed shard was run again: extra outputs {sorted(extra.elements())}', ctx)


def as_completed_plans(chk, rnd):
  """orchestrate.as_completed: one-shot tasks retried on timeouts and disconnects."""
  from ml_metrics._src.chainables import lazy_fns
  n_tasks = 4
  want = collections.Counter(lib.add100(10 * i) for i in range(n_tasks))
  plans = [('fault-free', {}, {})]
  for i in (1, 2, 3, 4):
    plans.append((f'deadline call {i} of worker 1', {(0, i): 'deadline'}, {}))
    plans.append((f'response-lost call {i} of worker 2', {(1, i): 'response_lost'}, {}))
  plans.append(('die at call 2 of worker 2', {(1, 2): 'die'}, dict(call_timeout=0.0, threshold=70.0)))
  # the same death, announced (the worker's death notice reaches the registry at once): no staleness threshold is
  # involved, so the healthy worker can never look stale and the run must simply finish on it
  plans.append(('announced death at call 2 of worker 2', {(1, 2): 'die'}, dict(call_timeout=0.0, threshold=1e7, announce=True)))
  plans.append(('announced death at call 1 of worker 1', {(0, 1): 'die'}, dict(call_timeout=0.0, threshold=1e7, announce=True)))
  for j in range(4 if chk.tier == 'quick' else 40):
    p = {(rnd.choice([0, 1]), rnd.randint(1, 6)): rnd.choice(['deadline', 'response_lost']) for _ in range(rnd.choice([1, 2]))}
    plans.append((f'random #{j}', p, {}))
  for name, plan, opts in plans:
    with dist.cluster(2, call_timeout=opts.get('call_timeout', 20.0), heartbeat_threshold=opts.get('threshold', 90.0)) as c:
      for (w, i), outcome in plan.items():
        c.plan(w, i, outcome)
      got = []
      n_run = 8 if opts.get('announce') else n_tasks       # enough work left for the dead worker to be considered again
      want = collections.Counter(lib.add100(10 * i) for i in range(n_run))
      if opts.get('announce'):
        def announcer():
          t0 = time.time()
          while time.time() - t0 < 20:
            dead = [e[0] for e in list(fakecourier.BOARD.log) if e[3] == 'die']
            if dead:
              c.mods.courier_utils._worker_registry.unregister(dead[0])      # what the death notice does on arrival
              return
            time.sleep(0.002)
        threading.Thread(target=announcer, daemon=True).start()

      def run():
        tasks = (lazy_fns.trace(lib.add100)(10 * i) for i in range(n_run))
        c.pool.wait_until_alive(deadline_secs=600, minimum_num_workers=2)    # as the documented use does
        for x in c.mods.orchestrate.as_completed(c.pool, tasks):
          got.append(x)
        return True

      status, val = dist.run_with_deadline(run, 25)
      acquired = [w.address for w in c.pool.acquired_workers]
      calls = len(fakecourier.BOARD.log)
    chk.replayed()
    ctx = dict(kind='dist', scenario=f'as_completed {name}', plan={f'{w}:{i}': str(o) for (w, i), o in plan.items()})
    if status == 'hung':
      chk.violation('as_completed:hung', f'[{name}] no end within the deadline after {calls} calls; results so far {sorted(got)}', ctx)
      continue
    if status == 'raised':
      if isinstance(val, TimeoutError) and 'die' in plan.values() and not opts.get('announce'):
        # staleness is detected by (scaled) wall-clock time: under load the healthy worker may look stale for an
        # instant too and as_completed then gives up with an explicit TimeoutError - loud, not lost or doubled work
        chk.count('explicit_timeouts_in_death_scenarios')
        continue
      chk.violation(f'as_completed:unexpected-error:{type(val).__name__}', f'[{name}] {val!r}', ctx)
      continue
    if collections.Counter(got) != want:
      chk.violation('as_completed:results', f'[{name}] results {sorted(got)} != {sorted(want.elements())}', ctx)
    if acquired:
      chk.violation('as_completed:workers-left-acquired', f'[{name}] {acquired}', ctx)


def as_completed_model(chk, rnd):
  """spec/dist/AsCompleted.tla: the round structure of orchestrate.as_completed with its bookkeeping of preferred /
  reserved / released workers.  TLC checks exactly-once delivery, release of every worker, termination and that the
  loop never dies, for pool sizes below, equal to and above the number of tasks; the pinned reservation rule
  (Clamp = FALSE) must be rejected.  Every behaviour is then projected to its task-level schedule (submissions,
  exhaustion of the iterator, completions with outcome) and the REAL as_completed is driven along it: attempt k of
  task t answers when the harness opens its gate."""
  import time as real_time
  from ml_metrics._src.chainables import lazy_fns
  # (workers, tasks, time-outs, application errors)
  sizes = [(3, 2, 1, 0), (2, 3, 1, 1), (4, 3, 0, 0)] if chk.tier == 'quick' else [(3, 2, 2, 1), (2, 3, 2, 1), (4, 3, 1, 1), (3, 3, 1, 1), (4, 2, 2, 0)]
  invs = ['NoCrash', 'AtMostOnce', 'ExactlyOnceAtEnd', 'ErrorSurfaces', 'RunningAreHeld', 'AllReleased']
  hs = []
  for nw, nt, nto, nerr in sizes:
    consts = dict(Workers={f'w{i + 1}' for i in range(nw)}, NTasks=nt, MaxTimeouts=nto, Clamp=True, MaxErrors=nerr, ReleaseOnError=True)
    mc = tlc.run('dist', 'AsCompleted', tlc.cfg_text(spec='Fair', constants=consts, invariants=invs, properties=['Terminates'], view='View',
                                                     deadlock=False), coverage=True, timeout=1800)
    chk.add_tlc(mc, f'AsCompleted/{nw} workers {nt} tasks')
    if not mc.ok:
      chk.machinery_failure(f'AsCompleted.tla ({nw} workers, {nt} tasks) violates {mc.error_kind} {mc.error_name}')
    missing = tlc.require_covered(mc, ['Submit', 'EndSubmit', 'Finish', 'Check', 'Release', 'Final'])
    if missing:
      chk.machinery_failure(f'vacuous AsCompleted model: {missing}')
    gen = tlc.run('dist', 'AsCompleted', tlc.cfg_text(constants=consts, invariants=['Emit'], deadlock=False), workers=1, timeout=1800)
    if not gen.ok:
      chk.machinery_failure(f'AsCompleted export failed: {gen.error_kind} {gen.error_name}')
    hs += gen.histories
  neg = tlc.run('dist', 'AsCompleted', tlc.cfg_text(constants=dict(Workers={'w1', 'w2', 'w3'}, NTasks=2, MaxTimeouts=0, Clamp=False, MaxErrors=0, ReleaseOnError=True),
                                                    invariants=['NoCrash'], view='View', deadlock=False), timeout=600)
  neg2 = tlc.run('dist', 'AsCompleted', tlc.cfg_text(constants=dict(Workers={'w1', 'w2'}, NTasks=2, MaxTimeouts=0, Clamp=True, MaxErrors=1, ReleaseOnError=False),
                                                     invariants=['AllReleased'], view='View', deadlock=False), timeout=600)
  chk.coverage['error_path_without_release_rejected_by_tlc'] = (neg2.error_name == 'AllReleased')
  if neg2.ok:
    chk.machinery_failure('AsCompleted.tla accepts an error path that keeps the workers acquired: AllReleased is vacuous there')
  chk.coverage['pinned_reservation_rule_rejected_by_tlc'] = (neg.error_name == 'NoCrash')
  if neg.ok:
    chk.machinery_failure('AsCompleted.tla accepts the pinned reservation rule: NoCrash is vacuous')
  # distinct task-level schedules
  seen, scheds = set(), []
  for h in hs:
    key = (h['workers'], h['tasks'], tuple((e['ev'], e['t'], e['again']) for e in h['events']))
    if key not in seen:
      seen.add(key)
      scheds.append(h)
  rnd.shuffle(scheds)
  budget = 60 if chk.tier == 'quick' else 1500
  chk.count('as_completed_schedules_enumerated', len(scheds))
  big = [h for h in scheds if h['workers'] > h['tasks']]        # pools larger than the task list: two thirds of the budget
  small = [h for h in scheds if h['workers'] <= h['tasks']]
  scheds = big[:budget * 2 // 3] + small[:budget - min(len(big), budget * 2 // 3)]
  chk.count('as_completed_schedules_replayed', len(scheds))
  drift = 0
  for h in scheds:
    nw, nt = h['workers'], h['tasks']
    lib.gates_reset()
    exhausted = threading.Event()
    got = []

    def tasks():
      for t in range(1, nt + 1):
        yield lazy_fns.trace(lib.scheduled_task)(t)
      exhausted.set()

    # no death is part of these schedules: a staleness threshold far beyond the (scaled) duration of a replay keeps
    # a loaded machine from turning a slow step into 'All workers timeout'
    with dist.cluster(nw, call_timeout=20.0, heartbeat_threshold=1e7) as c:
      def run():
        c.pool.wait_until_alive(deadline_secs=600, minimum_num_workers=nw)
        for x in c.mods.orchestrate.as_completed(c.pool, tasks()):
          got.append(x)
        return True

      box = {}
      th = threading.Thread(target=lambda: box.setdefault('v', dist.run_with_deadline(run, 20)), daemon=True)
      th.start()
      attempt = {}
      injected = []          # failing tasks whose error was actually injected (the schedule was followed that far)
      followed = True
      for e in h['events']:
        t = e['t']
        if not followed:
          break
        if e['ev'] == 'submit':
          attempt[t] = attempt.get(t, 0) + 1
          followed = lib.started(t, attempt[t]).wait(1.5)
        elif e['ev'] == 'exhausted':
          followed = exhausted.wait(1.5)
        else:
          k = attempt.get(t, 1)
          lib.OUTCOMES[(t, k)] = 'error' if e['ev'] == 'fail' else 'timeout' if e['again'] else 'ok'
          lib.gate(t, k).set()
          if e['ev'] == 'fail':
            injected.append(t)
            t0 = real_time.time()
            while 'v' not in box and real_time.time() - t0 < 1.5:
              real_time.sleep(0.001)
            followed = 'v' in box
          elif not e['again']:
            t0 = real_time.time()
            while 100 + t not in got and real_time.time() - t0 < 1.5 and 'v' not in box:
              real_time.sleep(0.001)
            followed = (100 + t) in got
      if not followed:
        drift += 1
      # let whatever is still gated answer, then collect the end of the run
      for _ in range(400):
        if 'v' in box:
          break
        with lib._GLOCK:
          evs = list(lib.GATES.values()) + [lib.GATES.setdefault((t, k), threading.Event()) for t in range(1, nt + 1) for k in (1, 2, 3, 4)]
        for ev in evs:
          ev.set()
        real_time.sleep(0.01)
      th.join(25)
      status, val = box.get('v', ('hung', None))
      acquired = [w.address for w in c.pool.acquired_workers]
    chk.replayed()
    sched_txt = ' '.join(('S' if e['ev'] == 'submit' else 'X' if e['ev'] == 'exhausted' else 'E' if e['ev'] == 'fail' else ('T' if e['again'] else 'F')) + (str(e['t']) if e['t'] else '')
                         for e in h['events'])
    failing = list(injected)
    ctx = dict(kind='dist', scenario=f'as_completed model schedule {nw} workers {nt} tasks: {sched_txt}', history=h)
    shape = 'more-workers-than-tasks' if nw > nt else 'tasks>=workers'
    if status == 'hung':
      chk.violation(f'as_completed:model:hung:{shape}', f'[{nw} workers, {nt} tasks, {sched_txt}] no end; results so far {sorted(got)}', ctx)
    elif failing:
      # a non-retriable error: it must reach the caller, no result may be delivered twice, every worker is released
      if status != 'raised' or 'application error' not in repr(val):
        chk.violation(f'as_completed:model:error-not-surfaced:{shape}',
                      f'[{nw} workers, {nt} tasks, schedule {sched_txt}] task {failing} raises a non-retriable error; as_completed ended with {status} {val!r}, results {sorted(got)}', ctx)
      elif len(set(got)) != len(got):
        chk.violation(f'as_completed:model:results:{shape}', f'[{nw} workers, {nt} tasks, {sched_txt}] results {sorted(got)}', ctx)
      elif acquired:
        chk.violation(f'as_completed:model:workers-left-acquired:after-error:{shape}',
                      f'[{nw} workers, {nt} tasks, schedule {sched_txt}] the error surfaced but the pool still holds {acquired}', ctx)
    elif status == 'raised':
      chk.violation(f'as_completed:model:died:{type(val).__name__}:{shape}',
                    f'[{nw} workers, {nt} tasks, schedule {sched_txt}] as_completed raised {val!r}; the specification ends with every result delivered once', ctx)
    elif sorted(got) != [100 + t for t in range(1, nt + 1)]:
      chk.violation(f'as_completed:model:results:{shape}', f'[{nw} workers, {nt} tasks, {sched_txt}] results {sorted(got)}', ctx)
    elif acquired:
      chk.violation(f'as_completed:model:workers-left-acquired:{shape}', f'[{nw} workers, {nt} tasks, {sched_txt}] {acquired}', ctx)
  lib.gates_reset()
  chk.coverage['as_completed_schedules_not_followed'] = drift
  # the loop runs free: whether a check phase falls between two completions is a matter of timing, so some orders of the
  # specification are not taken step by step (those runs are still judged by their results); most must be
  if drift * 2 > len(scheds):
    print(f'MODEL-DRIFT property=C06 as_completed: {drift} of {len(scheds)} task-level schedules of AsCompleted.tla could not be followed step by step')


LIFE_SCRIPTS = {
    # disciplined use: what stop() returned is joined before the server is started again (a worker that rejoins)
    'join-then-start': (dict(a=['start', 'stop', 'join', 'start']), True),
    'twice': (dict(a=['start', 'stop', 'join', 'start', 'stop', 'join']), True),
    # start() while a requested shutdown is still being carried out
    'restart-no-join': (dict(a=['start', 'stop', 'start']), False),
    'concurrent': (dict(a=['start', 'stop'], b=['start']), False),
}


def server_life(chk, rnd):
  """spec/dist/ServerLife.tla: start() / stop() / the serving thread of one CourierServer object.  TLC: with the
  discipline built into start() (JoinFirst) every script settles correctly; the code as it is settles correctly for the
  disciplined scripts and loses a start() issued during a pending shutdown (an observation outside the listed
  properties, see DESIGN).  The real server runs the scripts under the deterministic scheduler: every settled outcome
  must be one the as-implemented specification reaches, and the disciplined scripts (a worker that rejoins, C06) must
  end with a started, announced server and exactly one serving thread."""
  from harness import qcheck, sched, serverlife
  laws = ['OneServingThread', 'Settled', 'StartIsNotLost']

  def tla(ops):
    return '[' + ', '.join(f'{c} |-> <<' + ', '.join(f'"{o}"' for o in v) + '>>' for c, v in sorted(ops.items())) + ']'

  lost = 0
  for name, (ops, disciplined) in LIFE_SCRIPTS.items():
    consts = dict(Scripts='<- mc_Scripts', MaxThreads=3, Foreground=False, StopNeedsThread=True)
    good = tlc.run('dist', 'ServerLife', tlc.cfg_text(constants=dict(consts, JoinFirst=True), invariants=laws, deadlock=False),
                   mc_defs=dict(mc_Scripts=tla(ops)), coverage=True, timeout=600)
    chk.add_tlc(good, f'ServerLife/{name}/JoinFirst')
    if not good.ok:
      chk.machinery_failure(f'ServerLife.tla [{name}, JoinFirst] violates {good.error_name}')
    asis = tlc.run('dist', 'ServerLife', tlc.cfg_text(constants=dict(consts, JoinFirst=False), invariants=laws, deadlock=False),
                   mc_defs=dict(mc_Scripts=tla(ops)), timeout=600)
    chk.coverage.setdefault('server_life_as_implemented', {})[name] = asis.error_name or 'ok'
    if disciplined and not asis.ok:
      chk.machinery_failure(f'ServerLife.tla [{name}] as implemented violates {asis.error_name}: the disciplined scripts are expected to hold')
    if not disciplined and asis.ok:
      chk.machinery_failure(f'ServerLife.tla [{name}] as implemented satisfies every law: the model no longer shows the lost start')
    gen = tlc.run('dist', 'ServerLife', tlc.cfg_text(constants=dict(consts, JoinFirst=False), invariants=['Emit'], deadlock=False),
                  mc_defs=dict(mc_Scripts=tla(ops)), workers=1, timeout=600)
    allowed = {(h['started'], h['serving'], h['threads'], h['last'], h['req']) for h in gen.histories}
    if not allowed:
      chk.machinery_failure(f'ServerLife.tla [{name}] exports no settled outcome')
    runs = [serverlife.run_script(ops, sched.Random(random.Random(chk.seed * 1009 + i), stickiness=rnd.choice([0.0, 0.5, 0.8])))
            for i in range(25 if chk.tier == 'quick' else 400)]
    runs += [o for o, _ in qcheck.explore(None, bound=2, max_runs=60 if chk.tier == 'quick' else 1500, rnd=rnd,
                                         run=lambda pol, ops=ops: serverlife.run_script(ops, pol))]
    drift = 0
    for o in runs:
      chk.replayed()
      ctx = dict(kind='server-life', script=ops, schedule=o['schedule'], outcome={k: o[k] for k in ('started', 'serving', 'threads', 'last', 'req', 'errors')})
      if o['failure'] or o['callers_left'] or o['stuck'] or o['errors']:
        chk.violation(f'rejoin:server-life:{name}:stuck-or-error',
                      f'[{ops}] callers left {o["callers_left"]}, threads stuck {o["stuck"]}, errors {o["errors"]}, {o["failure"]}', ctx)
        break
      got = (o['started'], o['serving'], o['threads'], o['last'], o['req'])
      if got not in allowed:
        drift += 1
      ok = o['started'] and o['serving'] == 1 and o['last'] == 'alive' if ops['a'][-1] == 'start' and len(ops) == 1 else \
          (not o['started'] and o['serving'] == 0 and o['last'] == 'dead') if len(ops) == 1 else True
      if disciplined and not ok:
        chk.violation(f'rejoin:server-life:{name}:not-settled',
                      f'[{ops}] settles with started={o["started"]} serving threads={o["serving"]} last notice={o["last"]}', ctx)
        break
      if not disciplined and not (o['started'] and o['serving'] == 1):
        lost += 1
    if drift:
      print(f'MODEL-DRIFT property=C06 server life [{name}]: {drift} of {len(runs)} settled outcomes of the real server are not reached by ServerLife.tla')
  chk.coverage['server_life_lost_starts_observed'] = lost


def record_iterate(n, shards, workers, plan, *, retry_threshold=50, call_timeout=20.0, threshold=90.0, deadline=25.0):
  """Runs WorkerPool.iterate under a fault plan and records the events of Trace_Sched.tla."""
  import re
  from ml_metrics._src.chainables import lazy_fns, transform
  events = []
  elock = threading.Lock()

  def log(**ev):
    with elock:
      events.append(dict(dict(ev='', t='', w='', kind=''), **ev))

  with dist.cluster(workers, call_timeout=call_timeout, heartbeat_threshold=threshold) as c:
    wid = {addr: f'w{i + 1}' for i, addr in enumerate(c.names)}
    for (w, i), outcome in plan.items():
      c.plan(w, i, outcome)
    cu = c.mods.courier_utils
    orig = cu.CourierClient.async_iterate

    class StateProxy:
      def __init__(self, q, t):
        self.q, self.t = q, t

      def put(self, item, *a, **k):
        if isinstance(item, transform.AggregateResult):
          log(ev='State', t=self.t)
        return self.q.put(item, *a, **k)

    def traced(self, task, *, generator_result_queue):
      m = re.search(r"shard_index['\"]?[=:,]\s*(\d+)", repr(task.args[0]))
      t = f't{int(m.group(1)) + 1}' if m else 't?'
      log(ev='Submit', t=t, w=wid.get(self.address, self.address))
      return orig(self, task, generator_result_queue=StateProxy(generator_result_queue, t))

    def on_done(address, method, outcome, payload):
      w = wid.get(address)
      if w is None or method not in ('init_generator', 'next_batch_from_generator'):
        return
      if payload == 'die':
        log(ev='Die', w=w)
        return
      if isinstance(payload, BaseException):
        log(ev='Done', w=w, kind='deadline' if getattr(payload, 'code', 0) == 4 or isinstance(payload, TimeoutError) else 'error')
        return
      if method == 'init_generator':
        log(ev='Done', w=w, kind='init' if payload is None else ('deadline' if isinstance(payload, TimeoutError) else 'error'))
        return
      batch = lazy_fns.maybe_make(payload)
      for x in batch:
        if isinstance(x, StopIteration):
          log(ev='Done', w=w, kind='end')
        elif isinstance(x, Exception):
          log(ev='Done', w=w, kind='deadline' if isinstance(x, TimeoutError) else 'error')
        else:
          log(ev='Done', w=w, kind='elem')

    fakecourier.BOARD.on_done = on_done
    cu.CourierClient.async_iterate = traced
    states_q = queue.SimpleQueue()
    outs = []
    try:
      tasks = (lib_trace(n, i, shards) for i in range(shards))

      def run():
        for x in c.pool.iterate(tasks, generator_result_queue=states_q, retry_threshold=retry_threshold, total_tasks=shards):
          outs.append(x)
        return True

      status, val = dist.run_with_deadline(run, deadline)
    finally:
      cu.CourierClient.async_iterate = orig
      fakecourier.BOARD.on_done = None
    if status == 'ok':
      log(ev='End', kind='ok')
    elif status == 'raised' and isinstance(val, TimeoutError):
      log(ev='End', kind='too-many-timeouts')
    elif status == 'raised':
      log(ev='End', kind='task-failed')
  return events, status, outs


def sched_traces(chk, rnd):
  """code -> spec: recorded executions of WorkerPool.iterate must be behaviours of Sched.tla."""
  from harness import tracecheck
  n, shards, workers = 6, 3, 2
  plans = [{}, {(1, 2): 'deadline'}, {(1, 3): 'response_lost'}, {(0, 4): 'deadline', (1, 2): 'deadline'}, {(1, 4): 'deadline'}]
  for _ in range(4 if chk.tier == 'quick' else 40):
    plans.append({(rnd.choice([0, 1]), rnd.randint(1, 9)): rnd.choice(['deadline', 'response_lost']) for _ in range(rnd.choice([1, 2]))})
  traces, meta = [], []
  for plan in plans:
    ev, status, outs = record_iterate(n, shards, workers, plan)
    chk.replayed()
    if status == 'hung':
      chk.violation('sched-trace:hung', f'plan {plan}: no end within the deadline', dict(kind='sched-trace', plan=str(plan), events=ev))
      continue
    traces.append(ev)
    meta.append(plan)
  consts = dict(Tasks={'t1', 't2', 't3'}, Workers={'w1', 'w2'}, L=n // shards, Budget=9, Threshold=50, UsableWorker='w0', RecheckDone=False)
  invs = ['StateExactlyOnce', 'OutputsAtLeastOnce']
  accepted, rejected, res = tracecheck.validate('dist', 'Trace_Sched', traces, consts, invariants=invs, explain=4)
  chk.add_tlc(res, 'Trace_Sched')
  chk.coverage['sched_traces'] = dict(recorded=len(traces), accepted=len(accepted))
  for i, info in rejected.items():
    e = info.get('event') or {}
    chk.violation(f"sched-trace-rejected:{e.get('ev')}:{e.get('kind') or e.get('op')}",
                  f'plan {meta[i - 1]}: no behaviour of Sched.tla explains event {info.get("line")}: {e}; before it: {info.get("prefix")}',
                  dict(kind='sched-trace', plan=str(meta[i - 1]), events=traces[i - 1], line=info.get('line')))
  if traces:
    # binding demonstration: a trace with one answer removed must be rejected
    bad = [e for e in traces[0]]
    k = next((j for j, e in enumerate(bad) if e['ev'] == 'Done' and e['kind'] == 'elem'), None)
    if k is not None:
      acc2, _, _ = tracecheck.validate('dist', 'Trace_Sched', [bad[:k] + bad[k + 1:]], consts, explain=0)
      chk.coverage['sched_corrupted_trace_rejected'] = not acc2
      if acc2:
        chk.machinery_failure('Trace_Sched accepted a trace with a removed answer: the binding is vacuous')


def answer_races_death(chk):
  """as_completed: the answer of a call arrives in the instant the loop decides its worker is dead.

  Forced, not raced: the task's evaluation is held behind a gate; when the loop asks whether the task's worker is
  alive (it only does so after it found the call not done), the gate opens, the call completes, and the
  worker is reported dead.  The result must be delivered once (or the task retried), never a crash."""
  from ml_metrics._src.chainables import lazy_fns
  lib.GATE.clear()
  with dist.cluster(2, call_timeout=20.0, heartbeat_threshold=90.0) as c:
    cu = c.mods.courier_utils
    orig = cu.Task.is_alive
    fired = {'n': 0}

    def is_alive(self):
      st = self.state
      if fired['n'] == 0 and st is not None and not st.done() and 'gated_add100' in repr(self.args):
        fired['n'] = 1
        lib.GATE.set()
        t0 = time.time()
        while not st.done() and time.time() - t0 < 5:
          time.sleep(0.001)
        return False
      return orig.fget(self)

    cu.Task.is_alive = property(is_alive)
    got = []
    try:
      def run():
        c.pool.wait_until_alive(deadline_secs=600, minimum_num_workers=2)
        tasks = iter([lazy_fns.trace(lib.gated_add100)(1), lazy_fns.trace(lib.add100)(2)])
        for x in c.mods.orchestrate.as_completed(c.pool, tasks):
          got.append(x)
        return True

      status, val = dist.run_with_deadline(run, 25)
    finally:
      cu.Task.is_alive = orig
      lib.GATE.set()
  chk.replayed()
  ctx = dict(kind='dist', scenario='as_completed: answer arrives while the loop declares the worker dead')
  chk.coverage['answer_races_death_forced'] = bool(fired['n'])
  if status == 'hung':
    chk.violation('answer-races-death:hung', f'results so far {got}', ctx)
  elif status == 'raised':
    chk.violation(f'answer-races-death:crash:{type(val).__name__}', f'as_completed ended with {val!r} after delivering {got}', ctx)
  elif sorted(got) != [101, 102]:
    chk.violation('answer-races-death:results', f'results {sorted(got)} != [101, 102]', ctx)


def graceful_rejoin(chk, same_object=False):
  """A worker announces its death, restarts under the same address and announces itself alive again: it has to be
  usable again (the other worker then dies for good, so the run can only finish on the rejoined one).
  same_object: stop() and start() on the same CourierServer object instead of a new one."""
  from ml_metrics._src.chainables import lazy_fns
  n_tasks = 8
  with dist.cluster(2, master=True, call_timeout=20.0, heartbeat_threshold=90.0) as c:
    got, notes = [], {}

    def run():
      c.pool.wait_until_alive(deadline_secs=600, minimum_num_workers=2)
      tasks = (lazy_fns.trace(lib.add100)(10 * i) for i in range(n_tasks))
      for x in c.mods.orchestrate.as_completed(c.pool, tasks):
        got.append(x)
        if len(got) == 2:
          c.graceful_stop(0)
          w0 = c.pool.all_workers[0]
          notes['dead_after_notice'] = not w0.is_alive
          c.restart(0, same_object=same_object)
          t0 = time.time()
          while not w0.is_alive and time.time() - t0 < 5:
            time.sleep(0.005)
          notes['alive_after_rejoin'] = w0.is_alive
          c.kill(1)
          dist.ScaledTime.jump(0.0)
      return True

    status, val = dist.run_with_deadline(run, 40)
    acquired = [w.address for w in c.pool.acquired_workers]
  chk.replayed()
  how = 'same-object' if same_object else 'new-server'
  ctx = dict(kind='dist', scenario=f'graceful death notice, restart under the same address ({how}), alive notice', notes=notes)
  chk.coverage[f'graceful_rejoin_{how}'] = notes
  if notes.get('alive_after_rejoin') is False:
    chk.violation(f'rejoin:restarted-worker-stays-dead:{how}', 'the restarted worker is up but never announces itself / is still reported dead', ctx)
    return
  if status == 'hung':
    chk.violation(f'rejoin:hung:{how}', f'results so far {sorted(got)}', ctx)
  elif status == 'raised':
    chk.violation(f'rejoin:error:{how}:{type(val).__name__}', f'{val!r} after results {sorted(got)}', ctx)
  elif sorted(got) != sorted(lib.add100(10 * i) for i in range(n_tasks)):
    chk.violation(f'rejoin:results:{how}', f'{sorted(got)}', ctx)


def lib_trace(n, i, shards):
  from ml_metrics._src.chainables import lazy_fns
  return (lazy_fns.trace(lib.define_pipeline)(n, shard_index=i, num_shards=shards).make()
          .iterate(with_result=True, with_agg_state=True, with_agg_result=False))


def body(chk):
  # 1. design level
  for recheck, label in ((False, 'as implemented'), (True, 'with re-check (hypothetical repair)')):
    consts = dict(Tasks={'t1', 't2'}, Workers={'w1', 'w2'}, L=2, Budget=2, Threshold=2, UsableWorker='w1', RecheckDone=recheck)
    mc = tlc.run('dist', 'Sched', tlc.cfg_text(constants=consts, invariants=['StateExactlyOnce', 'StateAtMostOnce', 'OutputsAtLeastOnce'],
                                               properties=['ErrorSurfaces', 'Termination']), timeout=1800, coverage=True)
    chk.add_tlc(mc, f'Sched/{label}')
    chk.coverage.setdefault('sched_tlc', {})[label] = mc.error_name or 'ok'
    if recheck and not mc.ok:
      chk.machinery_failure(f'Sched.tla with the re-check fails {mc.error_name}')
    if not recheck and mc.ok:
      chk.machinery_failure('Sched.tla as implemented no longer exhibits the recorded double-forward: re-align spec and known_findings')
  if chk.tier == 'thorough':
    for consts in (dict(Tasks={'t1', 't2', 't3'}, Workers={'w1', 'w2'}, L=2, Budget=3, Threshold=3, UsableWorker='w1', RecheckDone=True),
                   dict(Tasks={'t1', 't2'}, Workers={'w1', 'w2', 'w3'}, L=2, Budget=3, Threshold=2, UsableWorker='w1', RecheckDone=True),
                   dict(Tasks={'t1', 't2', 't3'}, Workers={'w1', 'w2', 'w3'}, L=1, Budget=4, Threshold=1, UsableWorker='w2', RecheckDone=True)):
      mc = tlc.run('dist', 'Sched', tlc.cfg_text(constants=consts, invariants=['StateExactlyOnce', 'StateAtMostOnce', 'OutputsAtLeastOnce'],
                                                 properties=['ErrorSurfaces', 'Termination']), timeout=3000)
      chk.add_tlc(mc, f"Sched/thorough/{len(consts['Tasks'])} tasks {len(consts['Workers'])} workers budget {consts['Budget']}")
      if not mc.ok:
        chk.machinery_failure(f'Sched.tla with the re-check fails {mc.error_name} for {consts}')
  # the design counter-example is decided on the real code
  forced_window(chk)
  death_after_completion(chk)
  # 2. fault plans on the real code
  rnd = random.Random(chk.seed)
  n, shards, workers = 6, 3, 2
  plans = [('fault-free', {}, None)]
  for i in (1, 2, 3, 4):
    plans.append((f'deadline call {i} of worker 2', {(1, i): 'deadline'}, None))
    plans.append((f'response-lost call {i} of worker 2', {(1, i): 'response_lost'}, None))
  plans.append(('deadline twice', {(1, 2): 'deadline', (1, 5): 'deadline'}, None))
  plans.append(('deadline on both workers', {(0, 3): 'deadline', (1, 2): 'response_lost'}, None))
  extra = 6 if chk.tier == 'quick' else 60
  for j in range(extra):
    p = {}
    for _ in range(rnd.choice([1, 2, 3])):
      p[(rnd.choice([0, 1]), rnd.randint(1, 8))] = rnd.choice(['deadline', 'response_lost'])
    plans.append((f'random-deadlines #{j}', p, None))
  for name, plan, err in plans:
    out = run_plan(n, shards, workers, plan)
    chk.replayed()
    judge(chk, name, n, out, plan, expect_error=err)
  # worker death: the dead worker's calls never answer; heartbeats stop
  for i in (2, 3):
    name = f'die at call {i} of worker 2'
    out = run_plan(n, shards, workers, {(1, i): 'die'}, call_timeout=0.0, threshold=70.0)
    chk.replayed()
    if out['status'] == 'raised' and out['error_type'] == 'TimeoutError':
      chk.count('explicit_timeouts_in_death_scenarios')      # see as_completed_plans: loud, timing dependent
      continue
    judge(chk, name, n, out, {(1, i): 'die'})
  # worker death followed by a rejoin: a new, empty server under the same address
  for i, delay in ((2, 0.0), (3, 0.05), (2, 0.4)):
    name = f'die at call {i} of worker 2, rejoin after {delay}s'
    out = run_plan(n, shards, workers, {(1, i): 'die'}, call_timeout=0.0, threshold=70.0, rejoin_after=delay)
    chk.replayed()
    if out['status'] == 'raised' and out['error_type'] == 'TimeoutError':
      chk.count('explicit_timeouts_in_death_scenarios')
      continue
    judge(chk, name.replace('die at', 'rejoin after death at'), n, out, {(1, i): 'die'})
  # retry budget exhausted -> TimeoutError, never a silently shorter result
  plan = {(w, i): 'deadline' for w in (0, 1) for i in range(1, 40)}
  out = run_plan(n, shards, workers, plan, retry_threshold=3)
  chk.replayed()
  judge(chk, 'budget-exhausted all calls time out', n, out, {}, expect_error=('TimeoutError',))
  # non-retriable application error
  out = run_plan(n, shards, workers, {}, fail_on=(3,))
  chk.replayed()
  judge(chk, 'app-error element 3 raises', n, out, {}, expect_error=('RuntimeError', 'ValueError', 'ExceptionGroup'))
  as_completed_plans(chk, rnd)
  as_completed_model(chk, rnd)
  server_life(chk, rnd)
  answer_races_death(chk)
  graceful_rejoin(chk)
  graceful_rejoin(chk, same_object=True)
  sched_traces(chk, rnd)
  # one-shot tasks (as_completed, run) are the L = 0 instance of the same retry loop
  consts0 = dict(Tasks={'t1', 't2', 't3'}, Workers={'w1', 'w2'}, L=0, Budget=2, Threshold=2, UsableWorker='w1', RecheckDone=True)
  mc0 = tlc.run('dist', 'Sched', tlc.cfg_text(constants=consts0, invariants=['StateExactlyOnce', 'StateAtMostOnce'],
                                               properties=['ErrorSurfaces', 'Termination']), timeout=1800)
  chk.add_tlc(mc0, 'Sched/one-shot tasks')
  if not mc0.ok:
    chk.machinery_failure(f'Sched.tla with L=0 fails {mc0.error_name}')
  chk.add_samples([dict(plan=str(plans[3][1]), scenario=plans[3][0])])
  chk.coverage['fault_plans'] = len(plans) + 4
  chk.assumptions += [
      'in-process transport (harness/fakecourier.py): calls are delivered, lost (deadline), answered-but-lost, or the server vanishes',
      'time is scaled x200 so that heartbeat thresholds elapse in fractions of a second; runs use real threads',
      'one worker stays usable unless the scenario is about exhausting the retry budget',
  ]


if __name__ == '__main__':
  common.main('C06', body)
