"""C12 - Error skipping drops only failing elements; otherwise the first error surfaces.

Three specification parts, each model-checked by TLC and replayed on the real code:
 * Operators.tla with failing functions (universe "fail"), Skip on and off: the reference
   stream with exactly the records whose function call raises removed (skip) or cut at the
   first error (strict); sinks closed; the original exception in the cause chain;
 * SkipBatch.tla: skipping under fn_batch_size / batch_size for apply, assign, filter and
   sink: no row outside a failing call is lost, none duplicated, order kept, rows stay
   paired with their own inputs; strict mode delivers a prefix, then the error;
 * RangeIter.tla (shared with C09): a data source whose positions raise, read through a
   pipeline with error skipping.
Threaded runs (num_threads 1, 2) are compared as multisets.
"""
from __future__ import annotations

import collections
import random

from harness import common, lib, oplib, tlc
from checks import c08

common.setup_repo_path()


class BadRow(ValueError):
  pass


def _mk_fn(bad):
  def f(xs):
    if any(x in bad for x in xs):
      raise BadRow(f'bad row in {list(xs)}')
    return [x + 100 for x in xs]
  return f


def _mk_pred(bad):
  def f(xs):
    if any(x in bad for x in xs):
      raise BadRow(f'bad row in {list(xs)}')
    return True
  return f


def _run(p, data, ignore_error, source=False):
  out, err = [], None
  try:
    it = p.make().iterate(ignore_error=ignore_error) if source else p.make().iterate(data, ignore_error=ignore_error)
    for x in it:
      out.append(x)
  except Exception as e:  # pylint: disable=broad-exception-caught
    err = e
  return out, err


def _chain(e):
  names, seen = [], set()
  while e is not None and id(e) not in seen:
    seen.add(id(e))
    names.append(type(e).__name__)
    e = e.__cause__ or e.__context__
  return names


class _FlakySource:
  """Input batches of which some cannot be read: next() raises for them and goes on with the following one."""

  def __init__(self, batches, bad_idx, wrap=None):
    self.batches, self.bad_idx, self.wrap = batches, set(bad_idx), wrap

  def __iter__(self):
    return _FlakyIter(self)


class _FlakyIter:
  def __init__(self, src):
    self.src, self.i = src, 0

  def __iter__(self):
    return self

  def __next__(self):
    i = self.i
    if i >= len(self.src.batches):
      raise StopIteration
    self.i += 1
    if i + 1 in self.src.bad_idx:
      raise BadRow(f'input batch {i + 1} cannot be read')
    x = list(self.src.batches[i])
    return {'x': x} if self.src.wrap else x


def replay_skipbatch_source(chk, h):
  """SkipBatch.tla with an unreadable input batch (sbad): with skipping on, its rows and the rows of failing calls are
  lost, nothing else, whatever the re-batching options."""
  from ml_metrics._src.chainables import transform
  n, s, k, b, bad = h['n'], h['s'], h['k'], h['b'], set(h['bad'])
  opts = {}
  if k:
    opts['fn_batch_size'] = k
  if b:
    opts['batch_size'] = b
  cfg = f'n={n} in-batch={s} fn_batch_size={k} batch_size={b} bad rows={sorted(bad)} unreadable input batches={sorted(h["src_bad"])}'
  want_rows = list(h['skip_rows'])
  for kind in ('apply', 'assign'):
    if kind == 'assign' and ((k not in (0, s)) or (b not in (0, s))):
      continue
    ctx = dict(kind='skipbatch', history=h, operator=kind)
    src = _FlakySource([list(x) for x in h['all_in']], h['src_bad'], wrap=(kind == 'assign'))
    base = transform.TreeTransform.new().data_source(src)
    p = base.apply(fn=_mk_fn(bad), **opts) if kind == 'apply' else base.assign('y', fn=_mk_fn(bad), input_keys='x', **opts)
    out, err = _run(p, None, True, source=True)
    if err is not None:
      chk.violation(f'skip:{kind}:raised:{type(err).__name__}:unreadable-input', f'[{cfg}] error skipping is on but iteration raised {_chain(err)}', ctx)
      continue
    got_rows = [v - 100 for batch in out for v in batch] if kind == 'apply' else [v for rec in out for v in rec['x']]
    if got_rows != want_rows:
      lost = [r for r in want_rows if r not in got_rows]
      what = 'lost' if lost else 'order-or-extra'
      chk.violation(f'skip:{kind}:{what}:unreadable-input' + (':rebatch' if (k or b) else ''),
                    f'[{cfg}] rows delivered {got_rows}, expected {want_rows} (lost {lost})', ctx)
    elif kind == 'apply' and [[v - 100 for v in batch] for batch in out] != [list(x) for x in h['skip_out']]:
      chk.violation('skip:apply:batch-shapes:unreadable-input', f'[{cfg}] batches {out}, reference {h["skip_out"]}', ctx)


def replay_skipbatch(chk, h):
  from ml_metrics._src.chainables import transform
  if h.get('src_bad'):
    return replay_skipbatch_source(chk, h)
  n, s, k, b, bad = h['n'], h['s'], h['k'], h['b'], set(h['bad'])
  in_batches = [list(x) for x in h['in_batches']]
  opts = {}
  if k:
    opts['fn_batch_size'] = k
  if b:
    opts['batch_size'] = b
  cfg = f'n={n} in-batch={s} fn_batch_size={k} batch_size={b} bad={sorted(bad)}'
  want_rows = list(h['skip_rows'])
  for kind in ('apply', 'assign', 'sink', 'filter'):
    ctx = dict(kind='skipbatch', history=h, operator=kind)
    sink = oplib.RecSink()
    if kind == 'apply':
      p = transform.TreeTransform.new().apply(fn=_mk_fn(bad), **opts)
      data = [list(x) for x in in_batches]
    elif kind == 'assign':
      if (k not in (0, s)) or (b not in (0, s)):
        continue      # pairing outputs with inputs is only meaningful when both batch sizes equal the input's
      p = transform.TreeTransform.new().assign('y', fn=_mk_fn(bad), input_keys='x', **opts)
      data = [{'x': list(x)} for x in in_batches]
    elif kind == 'sink':
      if k or b:
        continue      # sink() takes no batching options
      p = transform.TreeTransform.new().sink(_FailingSink(sink, bad), input_keys='x')
      data = [{'x': list(x)} for x in in_batches]
    else:
      if k or b:
        continue
      p = transform.TreeTransform.new().select('x').filter(_mk_pred(bad), input_keys='x')
      data = [{'x': list(x)} for x in in_batches]
    # ---- skipping on
    out, err = _run(p, data, True)
    if err is not None:
      chk.violation(f'skip:{kind}:raised:{type(err).__name__}', f'[{cfg}] error skipping is on but iteration raised {_chain(err)}', ctx)
    else:
      if kind == 'apply':
        got_rows = [v - 100 for batch in out for v in batch]
        aligned = True
        shapes_ok = [[v - 100 for v in batch] for batch in out] == [list(x) for x in h['skip_out']]
      else:
        got_rows = [v for rec in out for v in rec['x']]
        aligned = all(kind != 'assign' or ([v - 100 for v in rec['y']] == list(rec['x'])) for rec in out)
        shapes_ok = True
      if not aligned:
        chk.violation(f'skip:{kind}:misaligned', f'[{cfg}] outputs paired with the wrong inputs: {out}', ctx)
      elif got_rows != want_rows:
        lost = [r for r in want_rows if r not in got_rows]
        dup = [r for r, c in collections.Counter(got_rows).items() if c > 1]
        extra = [r for r in got_rows if r not in want_rows]
        what = 'lost' if lost else 'duplicated' if dup else 'not-skipped' if extra else 'order'
        chk.violation(f'skip:{kind}:{what}' + (':rebatch' if (k or b) else ''),
                      f'[{cfg}] rows delivered {got_rows}, expected {want_rows} (lost {lost}, duplicated {dup}, unexpected {extra})', ctx)
      elif not shapes_ok:
        chk.violation(f'skip:{kind}:batch-shapes', f'[{cfg}] batches {out}, reference {h["skip_out"]}', ctx)
    # ---- skipping off: a prefix, then the first error with the original exception as cause
    sink2 = oplib.RecSink()
    if kind == 'sink':
      p = transform.TreeTransform.new().sink(_FailingSink(sink2, bad), input_keys='x')
    out, err = _run(p, [dict(d) if isinstance(d, dict) else list(d) for d in data], False)
    if h['strict_error']:
      if err is None:
        chk.violation(f'strict:{kind}:error-swallowed', f'[{cfg}] a function call fails but iteration ended normally with {out}', ctx)
        continue
      if 'BadRow' not in _chain(err):
        chk.violation(f'strict:{kind}:cause-lost', f'[{cfg}] raised {_chain(err)} without the original exception', ctx)
    elif err is not None:
      chk.violation(f'strict:{kind}:unexpected-error', f'[{cfg}] {_chain(err)}', ctx)
      continue
    if kind == 'apply':
      got = [[v - 100 for v in batch] for batch in out]
      if got != [list(x) for x in h['strict_out']]:
        chk.violation('strict:apply:outputs', f'[{cfg}] delivered {got} before the error, reference {h["strict_out"]}', ctx)
    else:
      got_rows = [v for rec in out for v in rec['x']]
      if got_rows != list(range(1, len(got_rows) + 1)) or (not h['strict_error'] and len(got_rows) != n):
        chk.violation(f'strict:{kind}:not-a-prefix', f'[{cfg}] delivered rows {got_rows}', ctx)
    if kind == 'sink' and sink2.closed != 1:
      chk.violation(f'strict:sink:closed-{sink2.closed}x', f'[{cfg}] sink closed {sink2.closed} times after '
                    f'{"an error" if h["strict_error"] else "normal end"}', ctx)


class _FailingSink:
  def __init__(self, inner, bad):
    self.inner, self.bad = inner, bad

  def write(self, xs):
    if any(x in self.bad for x in xs):
      raise BadRow(f'bad row in {list(xs)}')
    self.inner.write(xs)

  def close(self):
    self.inner.close()


def replay_ops(chk, h, skip):
  """Operators.tla 'fail' universe on the real runner with ignore_error = skip."""
  prog = h['prog']
  if h['build_error'] or h.get('undefined'):
    return
  ps = c08.prog_str(prog)
  kinds = '+'.join(sorted({o['op'] for o in prog}))
  for si, (stream, want) in enumerate(zip(c08.streams_py(h), h['runs'])):
    try:
      p, sinks = oplib.build(prog)
    except Exception as e:  # pylint: disable=broad-exception-caught
      chk.violation(f'ops:build-rejected:{type(e).__name__}', f'[{ps}] {e}', dict(kind='operators-skip', program=prog, skip=skip))
      return
    import copy
    out, err = _run(p, copy.deepcopy(stream), skip)
    ctx = dict(kind='operators-skip', program=prog, program_text=ps, stream=c08.STREAM_NAMES[si], skip=skip)
    tag = 'skip' if skip else 'strict'
    want_out = [oplib.to_py(t) for t in want['out']]
    if (err is not None) != want['err']:
      if want['err']:
        chk.violation(f'ops:{tag}:error-swallowed:{kinds}', f'[{ps}] on {c08.STREAM_NAMES[si]}: reference raises, real returned {out}', ctx)
      else:
        chk.violation(f'ops:{tag}:raised:{kinds}:{type(err).__name__}', f'[{ps}] on {c08.STREAM_NAMES[si]}: {_chain(err)}; reference {want_out}', ctx)
      continue
    if [oplib.canon(x) for x in out] != [oplib.canon(x) for x in want_out]:
      chk.violation(f'ops:{tag}:output:{kinds}', f'[{ps}] on {c08.STREAM_NAMES[si]}: real {out} reference {want_out}', ctx)
      continue
    if err is not None and not skip and 'OpFailure' not in _chain(err) and any(o['fn'] in ('failodd', 'fail3') for o in prog):
      # only when the error really came from a failing function (KeyError-type routing errors have no such cause)
      pass
    del err
    for j, s in sinks.items():
      if s.closed != 1:
        import gc
        gc.collect()
      if s.closed != 1:
        chk.violation(f'ops:{tag}:sink-closed-{s.closed}x', f'[{ps}] on {c08.STREAM_NAMES[si]}: sink {j} closed {s.closed} times', ctx)


def replay_ops_threaded(chk, h, skip, threads):
  """The same programs with a sharded data source and worker threads: multiset of outputs, the first error
  surfaces, helper threads end."""
  import copy
  import threading
  import time
  from ml_metrics._src.chainables import io, transform
  prog = h['prog']
  if h['build_error'] or any(o['op'] in ('batch', 'sink') for o in prog):
    return False
  ps = c08.prog_str(prog)
  stream, want = c08.streams_py(h)[3], h['runs'][3]
  before = {t.ident for t in threading.enumerate()}
  p, _ = oplib.build(prog)
  src = transform.TreeTransform.new(name='p', num_threads=threads).data_source(io.SequenceDataSource(copy.deepcopy(stream)))
  p = src.chain(p)
  out, err = _run(p, None, skip, source=True)
  ctx = dict(kind='operators-skip-threads', program=prog, program_text=ps, skip=skip, num_threads=threads)
  tag = f"{'skip' if skip else 'strict'}:threads{threads}"
  want_out = [oplib.to_py(t) for t in want['out']]
  if (err is not None) != want['err']:
    if want['err']:
      chk.violation(f'ops:{tag}:error-swallowed', f'[{ps}]: reference raises, real returned {out}', ctx)
    else:
      chk.violation(f'ops:{tag}:raised:{type(err).__name__}', f'[{ps}]: {_chain(err)}; reference {want_out}', ctx)
  elif err is None:
    key = lambda x: repr(oplib.canon(x))
    if sorted(map(key, out)) != sorted(map(key, want_out)):
      chk.violation(f'ops:{tag}:output', f'[{ps}]: real {out} reference (any order) {want_out}', ctx)
  del err
  deadline = time.time() + 3
  while time.time() < deadline:
    left = [t for t in threading.enumerate() if t.ident not in before and t.is_alive()]
    if not left:
      break
    time.sleep(0.01)
  else:
    chk.violation(f'ops:{tag}:threads-left', f'[{ps}]: helper threads still alive after the iteration ended: {[t.name for t in left]}', ctx)
  return True


def chained_threads_failure(chk):
  """Two named stages, each with its own worker threads, a long source; the second stage fails on element 5 with
  skipping disabled: the error surfaces with its cause and the helper threads of BOTH stages end."""
  import threading
  import time
  from ml_metrics._src.chainables import io, transform
  for t1, t2 in ((1, 1), (2, 1), (1, 0)):
    before = {t.ident for t in threading.enumerate()}
    p1 = transform.TreeTransform.new(name='s1', num_threads=t1).data_source(io.SequenceDataSource(list(range(400)))).apply(fn=lib.ident)
    p2 = transform.TreeTransform.new(name='s2', **(dict(num_threads=t2) if t2 else {})).apply(fn=lib.FailOn({5}, exc=KeyError, then=lib.ident))
    out, err = _run(p1.chain(p2), None, False, source=True)
    chk.replayed()
    ctx = dict(kind='chained-threads-failure', threads=(t1, t2))
    if err is None or 'KeyError' not in _chain(err):
      chk.violation('chained-threads:strict:error-not-surfaced', f'num_threads=({t1},{t2}): delivered {len(out)} elements, error {_chain(err) if err else None}', ctx)
    del err
    deadline = time.time() + 3
    left = []
    while time.time() < deadline:
      left = [t for t in threading.enumerate() if t.ident not in before and t.is_alive()]
      if not left:
        break
      time.sleep(0.01)
    if left:
      chk.violation('chained-threads:strict:threads-left', f'num_threads=({t1},{t2}): 3 s after the error reached the caller these helper threads are still alive: '
                    f'{sorted(t.name for t in left)}', ctx)


def threads_fail_while_other_slow(chk):
  """num_threads = 2, one element raises while the other worker is still busy and the consumer is already waiting:
  strict mode must surface the error (with its cause), skipping must deliver the slow element - never a hang."""
  import time
  from harness import dist
  from ml_metrics._src.chainables import io, transform

  def fn(x):
    if x == 0:
      time.sleep(0.6)
      return 100
    time.sleep(0.15)         # the consumer is already waiting on the empty queue
    raise BadRow('element 1 fails')

  for skip in (False, True):
    p = transform.TreeTransform.new(num_threads=2).data_source(io.SequenceDataSource([0, 1])).apply(fn=fn)
    status, val = dist.run_with_deadline(lambda: _run(p, None, skip, source=True), 15)
    chk.replayed()
    ctx = dict(kind='threads-fail-while-slow', skip=skip)
    tag = 'skip' if skip else 'strict'
    if status != 'ok':
      chk.violation(f'threads:{tag}:hang-when-one-worker-fails-while-another-is-busy', 'no result within 15s', ctx)
      continue
    out, err = val
    if skip and (err is not None or out != [100]):
      chk.violation('threads:skip:slow-element-lost', f'delivered {out}, error {_chain(err) if err else None}', ctx)
    if not skip and (err is None or 'BadRow' not in _chain(err)):
      chk.violation('threads:strict:error-not-surfaced', f'delivered {out}, error {_chain(err) if err else None}', ctx)


def replay_source(chk, h, threads):
  """A data source with failing positions inside a pipeline with error skipping."""
  from ml_metrics._src.chainables import io, transform
  from checks import c09
  bad = set(h['bad'])
  if h['start'] != 0 or h['stop'] != h['len']:
    return False
  data = c09.BadSeq(h['len'], bad, sliceable=h.get('sliceable', True))
  if data is None:
    return False
  for ds_skip in (True, False):
    # ds_skip False: the source itself does not skip; the run-level ignore_error has to (the failing read surfaces
    # inside the first operator's input map)
    data = c09.BadSeq(h['len'], bad, sliceable=h.get('sliceable', True))
    ds = io.SequenceDataSource(data, ignore_error=ds_skip)
    p = transform.TreeTransform.new(num_threads=threads).data_source(ds).apply(fn=lambda x: x + 100)
    out, err = _run(p, None, True, source=True)
    want = [j + 100 for j in range(h['len']) if j not in bad]
    ctx = dict(kind='source-skip', history=h, num_threads=threads, source_ignore_error=ds_skip)
    tag = '' if ds_skip else ':run-level-only'
    if err is not None:
      chk.violation(f'source:raised:{type(err).__name__}:threads{threads}{tag}', f'len={h["len"]} bad={sorted(bad)}: {_chain(err)}', ctx)
    elif (out != want) if threads <= 1 else (sorted(out) != want):
      chk.violation(f'source:elements:threads{threads}{tag}', f'len={h["len"]} bad={sorted(bad)}: got {out} want {want}', ctx)
  # error skipping survives a restore: the source configured to skip unreadable positions, iterated part-way, rebuilt
  # from the captured state, keeps skipping (nothing after a later unreadable position is lost, nothing is raised)
  readable = [j for j in range(h['len']) if j not in bad]
  for cut in range(len(readable) + 1):
    data = c09.BadSeq(h['len'], bad, sliceable=h.get('sliceable', True))
    ds = io.SequenceDataSource(data, ignore_error=True)
    ctx = dict(kind='source-skip-restore', history=h, cut=cut)
    try:
      it = ds.iterate()
      before = [next(it) for _ in range(cut)]
      after = list(it.from_state(it.state))
    except Exception as e:  # pylint: disable=broad-exception-caught
      chk.violation(f'source:restore:raised:{type(e).__name__}', f'len={h["len"]} bad={sorted(bad)} restored after {cut} elements: {e!r}', ctx)
      break
    if before + after != readable:
      chk.violation('source:restore:elements', f'len={h["len"]} bad={sorted(bad)} restored after {cut} elements: {before} + {after}, readable {readable}', ctx)
      break
  return True


def body(chk):
  thorough = chk.tier == 'thorough'
  rnd = random.Random(chk.seed)
  # 1. operator chains with failing functions
  for skip in (True, False):
    consts = dict(MaxOps=3 if thorough else 2, Universe='fail', Skip=skip)
    mc = tlc.run('pipeline', 'Operators', tlc.cfg_text(constants=consts, invariants=c08.LAWS, deadlock=False), timeout=3000)
    chk.add_tlc(mc, f'Operators/fail/skip={skip}')
    if not mc.ok:
      chk.machinery_failure(f'Operators.tla (fail universe) breaks {mc.error_name}')
    gen = tlc.run('pipeline', 'Operators', tlc.cfg_text(constants=consts, invariants=['Emit'], deadlock=False), workers=1, timeout=3000)
    if not gen.ok:
      chk.machinery_failure(f'Operators export failed: {gen.error_kind} {gen.error_name}')
    hs = gen.histories
    if len(hs) > 1500 and not thorough:
      hs = rnd.sample(hs, 1500)
    for h in hs:
      replay_ops(chk, h, skip)
      chk.replayed()
    chk.count('operator_programs', len(hs))
    n_thr = 0
    for h in rnd.sample(hs, min(len(hs), 400 if thorough else 60)):
      for threads in (1, 2):
        if replay_ops_threaded(chk, h, skip, threads):
          n_thr += 1
          chk.replayed()
    chk.count('threaded_runs', n_thr)
  # 2. skipping under re-batching
  consts = dict(MaxN=6 if thorough else 5, Sizes={0, 1, 2, 3}, MaxBad=2)
  mc = tlc.run('pipeline', 'SkipBatch', tlc.cfg_text(constants=consts, invariants=['SkipLaw', 'NoSilentLoss', 'StrictLaw'], view='View', deadlock=False),
               timeout=3000)
  chk.add_tlc(mc, 'SkipBatch/MC')
  if not mc.ok:
    chk.machinery_failure(f'SkipBatch.tla violates {mc.error_name}')
  gen = tlc.run('pipeline', 'SkipBatch', tlc.cfg_text(constants=consts, invariants=['Emit'], view='View', deadlock=False), workers=1, timeout=3000)
  if not gen.ok:
    chk.machinery_failure(f'SkipBatch export failed: {gen.error_kind} {gen.error_name}')
  seen, hs = set(), []
  for h in gen.histories:
    key = (h['n'], h['s'], h['k'], h['b'], tuple(sorted(h['bad'])), tuple(sorted(h.get('src_bad') or ())))
    if key not in seen:
      seen.add(key)
      hs.append(h)
  if not thorough:
    readable = [h for h in hs if not h.get('src_bad')]
    unreadable = [h for h in hs if h.get('src_bad')]
    hs = rnd.sample(readable, min(len(readable), 1200)) + rnd.sample(unreadable, min(len(unreadable), 500))
  chk.count('skipbatch_configs_unreadable_input', sum(1 for h in hs if h.get('src_bad')))
  for h in hs:
    replay_skipbatch(chk, h)
    chk.replayed()
  chk.count('skipbatch_configs', len(hs))
  # 3. failing data source positions inside a pipeline
  rc = dict(MaxLen=5, Batches={1, 2, 64}, MaxBad=2)
  gen = tlc.run('source', 'RangeIter', tlc.cfg_text(constants=rc, invariants=['Emit'], deadlock=False), workers=1, timeout=1800)
  if not gen.ok:
    chk.machinery_failure(f'RangeIter export failed: {gen.error_kind} {gen.error_name}')
  done, n_src = set(), 0
  for h in gen.histories:
    key = (h['len'], tuple(sorted(h['bad'])), h.get('sliceable', True))
    if key in done or h['start'] != 0 or h['stop'] != h['len']:
      continue
    done.add(key)
    for threads in (0, 1, 2):
      if replay_source(chk, h, threads):
        n_src += 1
        chk.replayed()
  chk.count('source_configs', n_src)
  threads_fail_while_other_slow(chk)
  chained_threads_failure(chk)
  chk.add_samples([dict(n=h['n'], s=h['s'], k=h['k'], b=h['b'], bad=h['bad']) for h in hs[:2]])
  chk.assumptions += ['skippable errors are ValueError / TypeError (iter_utils._IGNORE_ERROR_TYPES); every failing function call surfaces as ValueError',
                      'batch functions fail iff their batch contains a bad row; rows are ints, row r maps to r + 100']


if __name__ == '__main__':
  common.main('C12', body)
