"""C17 - Lazy expressions evaluate to what the eager expression would; bounded LRU caching.

spec/remote/Lru.tla      cache machine (order, generations, hits/misses), replayed on
                         func_utils.LruCache, on the LazyFn result cache (bound set to Cap)
                         and on the LazyObject cache (missing-object error).
spec/remote/LazyEval.tla meaning of nested lazy expressions with cached nodes, replayed on
                         lazy_fns.trace / maybe_make, every second make through a pickle
                         round trip.
"""
from __future__ import annotations

import random

from harness import common, tlc

common.setup_repo_path()


def _bounds(tier):
  if tier == 'thorough':
    return dict(lru_mc=dict(Keys={1, 2, 3, 4}, Cap=3, MaxOps=7),
                lru_gen=[dict(Keys={1, 2, 3}, Cap=2, MaxOps=5), dict(Keys={1, 2, 3, 4}, Cap=3, MaxOps=4)],
                lru_sim=dict(Keys={1, 2, 3, 4}, Cap=2, MaxOps=12), lru_sim_num=4000,
                lazy=dict(Depth=2, MaxSteps=3, Lits='<- mc_Lits', LitKinds={'int'}, WithKind=False))
  return dict(lru_mc=dict(Keys={1, 2, 3}, Cap=2, MaxOps=6),
              lru_gen=[dict(Keys={1, 2, 3}, Cap=2, MaxOps=4)],
              lru_sim=dict(Keys={1, 2, 3, 4}, Cap=2, MaxOps=12), lru_sim_num=500,
              lazy=dict(Depth=2, MaxSteps=3, Lits='<- mc_Lits', LitKinds={'int'}, WithKind=False))


ALL_OPS = {'make', 'new', 'deref', 'clear'}

# ------------------------------------------------------------------ Lru subjects


class _Obj:
  def __init__(self, k, n):
    self.k, self.n = k, n


NONE_KEY = 1     # in the second pass the object of this key is None (a legitimate cached value)


def _mk(k, n, none_pass):
  return None if (none_pass and k == NONE_KEY) else _Obj(k, n)


def _gen_of(obj, k, gen):
  """Generation carried by an object; None objects carry none: use the caller's bookkeeping."""
  return gen.get(k, 0) if obj is None else obj.n


def _replay_lru_direct(chk, h, cap, none_pass=False):
  from ml_metrics._src.utils import func_utils
  c = func_utils.LruCache(maxsize=cap)
  gen = {}
  for i, st in enumerate(h):
    op = st['op']
    try:
      if op == 'make':
        try:
          obj = c[st['k']]
          hit = True
        except KeyError:
          hit = False
          gen[st['k']] = gen.get(st['k'], 0) + 1
          obj = _mk(st['k'], gen[st['k']], none_pass)
          c[st['k']] = obj
        got = dict(hit=hit, obj=_gen_of(obj, st['k'], gen))
        want = dict(hit=st['hit'], obj=st['obj'])
      elif op == 'new':
        gen[st['k']] = gen.get(st['k'], 0) + 1
        c.cache_insert(st['k'], _mk(st['k'], gen[st['k']], none_pass))
        got = want = {}
      elif op == 'deref':
        try:
          obj = c[st['k']]
          got = dict(hit=True, obj=_gen_of(obj, st['k'], gen))
        except KeyError:
          got = dict(hit=False, obj=-1)
        want = dict(hit=st['hit'], obj=st['obj'])
      else:
        c.cache_clear()
        got = want = {}
      info = c.cache_info()
      got.update(order=list(c.data), hits=info.hits, misses=info.misses, size=info.currsize, len=len(c))
      want.update(order=st['order'], hits=st['hits'], misses=st['misses'], size=len(st['order']), len=len(st['order']))
    except Exception as e:  # pylint: disable=broad-exception-caught
      chk.violation(f'lru-direct:exception:{type(e).__name__}', f'step {i} of {h}: {e!r}',
                    dict(kind='lru', subject='LruCache', history=h, cap=cap, step=i))
      return
    if got != want:
      bad = '+'.join(sorted(k for k in want if got.get(k) != want[k]))
      tag = 'lru-direct-none-value' if none_pass else 'lru-direct'
      chk.violation(f'{tag}:{bad}', f'step {i} ({op} {st.get("k")}): got {got} want {want}; cap={cap}',
                    dict(kind='lru', subject='LruCache', history=h, cap=cap, step=i, got=got, want=want))
      return


def _lazy_cache(cls):
  return cls.result_.cache_info.__self__


def _replay_lru_lazyfn(chk, h, cap, none_pass=False):
  """ops make/clear on the real cached-call cache (LazyFn.result_)."""
  from ml_metrics._src.chainables import lazy_fns
  from harness import lazylib
  cache = _lazy_cache(lazy_fns.LazyFn)
  old = cache.maxsize
  lazy_fns.clear_cache()
  cache.maxsize = cap
  lazylib.KEY_CALLS.clear()
  lazylib.NONE_KEYS.clear()
  if none_pass:
    lazylib.NONE_KEYS.add(NONE_KEY)
  exprs = {k: lazy_fns.trace(fn)(cache_result_=True) for k, fn in lazylib.KEYED.items()}
  last = {}
  try:
    for i, st in enumerate(h):
      op = st['op']
      ctx = dict(kind='lru', subject='LazyFn', history=h, cap=cap, step=i)
      if op == 'make':
        k = st['k']
        # a structurally equal but distinct expression object must share the entry
        expr = exprs[k] if i % 2 == 0 else lazy_fns.trace(lazylib.KEYED[k])(cache_result_=True)
        obj = lazy_fns.maybe_make(expr)
        if obj is None:
          got = dict(gen=st['obj'], evals=lazylib.KEY_CALLS.get(k, 0), identical=st['hit'])
        else:
          got = dict(gen=obj.n, evals=lazylib.KEY_CALLS.get(k, 0), identical=(last.get(k) is obj))
        want = dict(gen=st['obj'], evals=st['evals'], identical=st['hit'])
        last[k] = obj
      else:
        lazy_fns.clear_cache()
        got = want = {}
      info = lazy_fns.cache_info()
      order = [next(k for k, e in exprs.items() if e == key) for key in cache.data]
      got.update(order=order, hits=info.hits, misses=info.misses, size=info.currsize)
      want.update(order=st['order'], hits=st['hits'], misses=st['misses'], size=len(st['order']))
      if got != want:
        bad = '+'.join(sorted(k for k in want if got.get(k) != want[k]))
        tag = 'lru-lazyfn-none-value' if none_pass else 'lru-lazyfn'
        chk.violation(f'{tag}:{bad}', f'step {i} ({op} {st.get("k")}): got {got} want {want}; cap={cap}',
                      dict(ctx, got=got, want=want))
        return
  except Exception as e:  # pylint: disable=broad-exception-caught
    chk.violation(f'lru-lazyfn:exception:{type(e).__name__}', f'{e!r} in {h}', dict(kind='lru', subject='LazyFn', history=h, cap=cap))
  finally:
    lazy_fns.clear_cache()
    cache.maxsize = old
    lazylib.NONE_KEYS.clear()


def _replay_lru_lazyobj(chk, h, cap):
  """ops new/deref/clear on the LazyObject cache; a miss is LazyObjectMissingError."""
  from ml_metrics._src.chainables import lazy_fns
  cache = _lazy_cache(lazy_fns.LazyObject)
  old = cache.maxsize
  lazy_fns.clear_object()
  cache.maxsize = cap
  refs, gen = {}, {}
  try:
    for i, st in enumerate(h):
      op, k = st['op'], st.get('k')
      ctx = dict(kind='lru', subject='LazyObject', history=h, cap=cap, step=i)
      got, want = {}, {}
      if op == 'new':
        gen[k] = gen.get(k, 0) + 1
        if k in refs:
          refs[k].result_.cache_insert(refs[k], _Obj(k, gen[k]))   # what LazyObject.new does, same id
        else:
          refs[k] = lazy_fns.LazyObject.new(_Obj(k, gen[k]))
      elif op == 'deref':
        if k not in refs:
          # a reference that was never created locally: build one and drop its entry
          refs[k] = lazy_fns.LazyObject(value=None, _cache_result=True)
        ref = lazy_fns.pickler.loads(lazy_fns.pickler.dumps(refs[k])) if i % 2 else refs[k]
        try:
          obj = lazy_fns.maybe_make(ref)
          got = dict(hit=True, obj=obj.n)
        except lazy_fns.LazyObjectMissingError:
          got = dict(hit=False, obj=-1)
        want = dict(hit=st['hit'], obj=st['obj'])
      else:
        lazy_fns.clear_object()
      info = lazy_fns.object_info()
      order = [next(k2 for k2, r in refs.items() if r.id == key.id) for key in cache.data]
      got.update(order=order, hits=info.hits, misses=info.misses, size=info.currsize)
      want.update(order=st['order'], hits=st['hits'], misses=st['misses'], size=len(st['order']))
      if got != want:
        bad = '+'.join(sorted(k2 for k2 in want if got.get(k2) != want[k2]))
        chk.violation(f'lru-lazyobj:{bad}', f'step {i} ({op} {k}): got {got} want {want}; cap={cap}',
                      dict(ctx, got=got, want=want))
        return
  except Exception as e:  # pylint: disable=broad-exception-caught
    chk.violation(f'lru-lazyobj:exception:{type(e).__name__}', f'{e!r} in {h}',
                  dict(kind='lru', subject='LazyObject', history=h, cap=cap))
  finally:
    lazy_fns.clear_object()
    cache.maxsize = old


def _lru_part(chk, b):
  mcc = dict(b['lru_mc'], Ops=ALL_OPS)
  mc = tlc.run('remote', 'Lru',
               tlc.cfg_text(constants=mcc, invariants=['Bounded', 'NoDupKey', 'Fresh'],
                            properties=['LruEviction', 'EvaluateOnce'], constraints=['StateBound'],
                            view='View', deadlock=False), coverage=True, timeout=1800)
  chk.add_tlc(mc, 'Lru/MC')
  if not mc.ok:
    chk.machinery_failure(f'Lru.tla violates {mc.error_kind} {mc.error_name}')
  missing = tlc.require_covered(mc, ['MakeA', 'NewA', 'DerefA', 'ClearA'])
  if missing:
    chk.machinery_failure(f'vacuous Lru model: {missing}')
  subjects = [(ALL_OPS, _replay_lru_direct, 'direct'),
              ({'make', 'clear'}, _replay_lru_lazyfn, 'lazyfn'),
              ({'new', 'deref', 'clear'}, _replay_lru_lazyobj, 'lazyobj')]
  for ops, fn, name in subjects:
    hs = []
    for consts in b['lru_gen']:
      c = dict(consts, Ops=ops)
      if name != 'direct':
        c['MaxOps'] = consts['MaxOps'] + 1
      gen = tlc.run('remote', 'Lru', tlc.cfg_text(constants=c, invariants=['Emit'], constraints=['HistBound'],
                                                    deadlock=False), workers=1, timeout=1800)
      if not gen.ok:
        chk.machinery_failure(f'Lru export failed: {gen.error_kind} {gen.error_name}')
      hs += [(h, c['Cap']) for h in gen.histories]
    c = dict(b['lru_sim'], Ops=ops)
    sim = tlc.run('remote', 'Lru', tlc.cfg_text(constants=c, invariants=['Emit'], constraints=['HistBound'],
                                                  deadlock=False), workers=1, timeout=600,
                  simulate=f'num={b["lru_sim_num"]}', depth=c['MaxOps'] + 1, seed=chk.seed + 7)
    hs += [(h, c['Cap']) for h in sim.histories]
    evictions = sum(1 for h, cap in hs if any(len(a['order']) == cap and len(b2['order']) == cap
                                              and a['order'] != b2['order'] and b2['op'] in ('make', 'new')
                                              and b2.get('hit') is not True
                                              for a, b2 in zip(h, h[1:])))
    chk.count(f'lru_{name}_histories', len(hs))
    chk.count(f'lru_{name}_histories_with_eviction', evictions)
    if not evictions:
      chk.machinery_failure(f'no Lru history for {name} exercised an eviction')
    for h, cap in hs:
      fn(chk, h, cap)
      if name in ('direct', 'lazyfn'):
        fn(chk, h, cap, True)
      chk.replayed()
    if name == 'lazyfn':
      chk.add_samples([h for h, _ in hs][3:4])


# ------------------------------------------------------------------ LazyEval


def _has_tick(e):
  if e['t'] == 'lit':
    return False
  if e['t'] == 'call':
    return e['f'] == 'tick' or any(_has_tick(a) for a in e['args'])
  return _has_tick(e['e'])


def _cached_pure(e):
  """Memoised and eager meanings coincide only when no cached node contains tick."""
  if e['t'] == 'lit':
    return True
  if e['t'] == 'call':
    return (not e['c'] or not _has_tick(e)) and all(_cached_pure(a) for a in e['args'])
  return _cached_pure(e['e'])


def _replay_lazy(chk, h, traced_literals=False):
  from ml_metrics._src.chainables import lazy_fns
  from harness import lazylib
  lazy_fns.clear_cache()
  lazylib.reset()
  e = h['expr']
  ctx = dict(kind='lazyeval', history=h, traced_literals=traced_literals)
  try:
    expr = lazylib.build(e, traced_literals)
  except Exception as ex:  # pylint: disable=broad-exception-caught
    chk.violation(f'lazy:build:{type(ex).__name__}', f'{ex!r} for {e}', ctx)
    return
  for i, st in enumerate(h['steps']):
    try:
      if st['op'] in ('make', 'makearg'):
        target = expr if st['op'] == 'make' else lazylib.build(e['args'][st['j'] - 1], traced_literals)
        if i % 2 == 1:
          target = lazy_fns.pickler.dumps(target)      # serialisation round trip
        try:
          v = str(lazy_fns.maybe_make(target))
        except ValueError:
          v = 'ValueError'
      else:
        lazy_fns.clear_cache()
        v = '0'
      info = lazy_fns.cache_info()
      got = dict(v=v, ticks=lazylib.TICKS[0], size=info.currsize, hits=info.hits, misses=info.misses)
    except Exception as ex:  # pylint: disable=broad-exception-caught
      chk.violation(f'lazy:exception:{type(ex).__name__}', f'step {i}: {ex!r} for {e}', dict(ctx, step=i))
      return
    want = {k: st[k] for k in got}
    if got != want:
      bad = '+'.join(sorted(k for k in want if got[k] != want[k]))
      cached = ('cached' if '"c": true' in __import__('json').dumps(e) else 'uncached') + (':traced-literals' if traced_literals else '')
      chk.violation(f'lazy:{cached}:{bad}', f'step {i} {st["op"]}: got {got} want {want}; expr {e}',
                    dict(ctx, step=i, got=got, want=want))
      return
  # independent eager twin (plain Python) for the first make from a clean state
  lazy_fns.clear_cache()
  lazylib.reset()
  try:
    want_v = str(lazylib.eager(e))
  except ValueError:
    want_v = 'ValueError'
  if h['steps'] and h['steps'][0]['op'] == 'make' and _cached_pure(e) and h['steps'][0]['v'] != want_v:
    chk.machinery_failure(f'spec export and Python eager twin disagree on {e}: {h["steps"][0]["v"]} vs {want_v}')
  lazy_fns.clear_cache()


def _lazy_part(chk, b):
  # the second instance: one number in its three Python types (1, True, 1.0 - equal, same hash, different literals) and a callee
  # that observes the type; cache keys are structural, so kind(1), kind(True) and kind(1.0) are three cached calls
  typed = dict(Depth=2, MaxSteps=2, Lits={1}, LitKinds={'int', 'bool', 'float'}, WithKind=True)
  # the third: falsy and truthy literals of the three types, every literal also as a lazy value of its own (trace(0), trace(False), ...)
  falsy = dict(Depth=1, MaxSteps=2, Lits={0, 1}, LitKinds={'int', 'bool', 'float'}, WithKind=True)
  for label, consts, defs, traced in (('', b['lazy'], dict(mc_Lits='{-1, -2}'), False),      # hash(-1) == hash(-2) in CPython: colliding keys
                                      ('/typed literals', typed, None, True),
                                      ('/falsy and traced literals', falsy, None, True)):
    _lazy_instance(chk, label, consts, defs, traced)


def _lazy_instance(chk, label, consts, defs, traced=False):
  invs = ['NoCacheIsEager', 'FirstMakeIsEager', 'CachedIsStable', 'CacheSound']
  mc = tlc.run('remote', 'LazyEval', tlc.cfg_text(constants=consts, invariants=invs, deadlock=False),
               coverage=True, timeout=1800, mc_defs=defs)
  chk.add_tlc(mc, 'LazyEval/MC' + label)
  if not mc.ok:
    chk.machinery_failure(f'LazyEval.tla{label} violates {mc.error_kind} {mc.error_name}')
  missing = tlc.require_covered(mc, ['Make', 'Clear'] + (['MakeArg'] if consts['Depth'] > 1 else []))
  if missing:
    chk.machinery_failure(f'vacuous LazyEval model{label}: {missing}')
  gen = tlc.run('remote', 'LazyEval', tlc.cfg_text(constants=consts, invariants=['Emit'], deadlock=False),
                workers=1, timeout=1800, mc_defs=defs)
  if not gen.ok:
    chk.machinery_failure(f'LazyEval export{label} failed: {gen.error_kind} {gen.error_name}')
  hs = gen.histories
  total = len(hs)
  if chk.tier == 'quick' and len(hs) > 7000:
    # always keep the behaviours whose expression has two or more cached calls (cache-key interactions),
    # sample the rest
    def ncached(e):
      if e['t'] == 'lit':
        return 0
      if e['t'] == 'call':
        return int(e['c']) + sum(ncached(a) for a in e['args'])
      return ncached(e['e'])
    keep = [h for h in hs if ncached(h['expr']) >= 2 and h['steps'][0]['op'] == 'make'
            and all(s2['op'] == 'make' for s2 in h['steps'])]
    rest = [h for h in hs if not (ncached(h['expr']) >= 2 and all(s2['op'] == 'make' for s2 in h['steps']))]
    hs = keep + random.Random(chk.seed).sample(rest, max(0, min(len(rest), 7000 - len(keep))))
  chk.count('lazy_behaviours_enumerated' + label, total)
  chk.count('lazy_behaviours_replayed' + label, len(hs))
  for h in hs:
    _replay_lazy(chk, h)
    if traced:
      _replay_lazy(chk, h, traced_literals=True)
    chk.replayed()
  chk.add_samples([h for h in hs if h['expr']['t'] == 'call' and h['expr']['c']][1:3])


def mixed_construction(chk):
  """The same cached call written both ways - LazyFn.new(f, args) with the plain callable and trace(f)(args) - in one
  process: LazyEval.tla's cache key is structural, both spellings evaluate to the eager value, in either order."""
  from ml_metrics._src.chainables import lazy_fns
  from harness import lazylib
  for order in ('new-then-trace', 'trace-then-new'):
    lazy_fns.clear_cache()
    a = lambda: lazy_fns.LazyFn.new(lazylib.inc, args=(1,), cache_result=True)
    b = lambda: lazy_fns.trace(lazylib.inc)(1, cache_result_=True)
    seq = (a, b) if order == 'new-then-trace' else (b, a)
    ctx = dict(kind='lazy-mixed-construction', order=order)
    try:
      vals = [lazy_fns.maybe_make(mk()) for mk in seq] + [lazy_fns.maybe_make(lazy_fns.pickler.dumps(mk())) for mk in seq]
    except Exception as e:  # pylint: disable=broad-exception-caught
      chk.violation(f'lazy:mixed-construction:exception:{type(e).__name__}', f'[{order}] {e!r}; the eager value is 2', ctx)
      continue
    chk.replayed()
    if vals != [2, 2, 2, 2]:
      chk.violation('lazy:mixed-construction:value', f'[{order}] values {vals}, eager 2', ctx)
  lazy_fns.clear_cache()
  # a cached call whose argument is a traced unhashable value, sent over twice (two unpickled copies of one expression):
  # evaluated once, then served from the cache
  import pickle
  lazylib.reset()
  expr = lazy_fns.trace(lazylib.count_len)(lazy_fns.trace([1, 2, 3]), cache_result_=True)
  blob = lazy_fns.pickler.dumps(expr)
  try:
    vals = [lazy_fns.maybe_make(blob) for _ in range(3)]
    info = lazy_fns.cache_info()
    chk.replayed()
    if vals != [3, 3, 3] or lazylib.TICKS[0] != 1 or info.hits < 2:
      chk.violation('lazy:cached:unhashable-argument:re-evaluated', f'three materialisations of one pickled cached call over a traced list: values {vals}, '
                    f'the function ran {lazylib.TICKS[0]} times, cache hits {info.hits} misses {info.misses} (memoised: once, 2 hits)',
                    dict(kind='lazy-unhashable-argument'))
  except Exception as e:  # pylint: disable=broad-exception-caught
    chk.violation(f'lazy:cached:unhashable-argument:exception:{type(e).__name__}', repr(e), dict(kind='lazy-unhashable-argument'))
  lazy_fns.clear_cache()
  # a literal bytes argument is data, whatever it contains (here: a pickle)
  payload = pickle.dumps([1, 2, 3])
  for label, mk in (('positional', lambda: lazy_fns.trace(len)(payload)), ('keyword', lambda: lazy_fns.trace(lazylib.kwlen)(payload=payload)),
                    ('not-a-pickle', lambda: lazy_fns.trace(len)(b'\x00abc'))):
    want = 4 if label == 'not-a-pickle' else len(payload)
    try:
      got = [lazy_fns.maybe_make(mk()), lazy_fns.maybe_make(lazy_fns.pickler.dumps(mk()))]
    except Exception as e:  # pylint: disable=broad-exception-caught
      chk.violation(f'lazy:bytes-argument:exception:{type(e).__name__}', f'[{label}] {e!r}; eager value {want}', dict(kind='lazy-bytes-argument', how=label))
      continue
    chk.replayed()
    if got != [want, want]:
      chk.violation('lazy:bytes-argument:value', f'[{label}] len of a bytes argument: {got}, eager {want}', dict(kind='lazy-bytes-argument', how=label))
  lazy_fns.clear_cache()


def long_lived_handle(chk):
  """Lru.tla keys cached objects by an identity that is never reused while the object is held.  A long-lived cached object,
  dereferenced often enough to stay most recently used, while far more than 2**16 other lazy nodes and short-lived cached objects
  come and go: every dereference returns the stored object, evicted ones raise the missing-object error, ids never repeat."""
  from ml_metrics._src.chainables import lazy_fns
  lazy_fns.clear_cache()
  lazy_fns.clear_object()
  n = 70_000 if chk.tier == 'quick' else 300_000
  held = ['the long-lived object']
  handle = lazy_fns.LazyObject.new(held)
  copy_ = lazy_fns.pickler.loads(lazy_fns.pickler.dumps(handle))
  ids, first = {handle.id}, None
  ctx = dict(kind='lazy-long-lived-handle', nodes=n)
  try:
    for i in range(n):
      tmp = lazy_fns.LazyObject.new(('tmp', i))
      first = first or tmp
      if tmp.id in ids:
        chk.violation('lazy:ids:reused', f'node {i}: the id of a new cached object repeats the id of an earlier one', ctx)
        break
      ids.add(tmp.id)
      ids.add(lazy_fns.trace(len)(lazy_fns.trace(i % 5)).id)
      if i % 300 == 0:
        got = lazy_fns.maybe_make(handle if i % 600 else copy_)
        if got is not held:
          chk.violation('lazy:held-object:wrong-value', f'after {i} other nodes the held handle dereferences to {got!r}', ctx)
          break
    else:
      try:
        v = lazy_fns.maybe_make(first)
        chk.violation('lazy:evicted-object:stale-value', f'the first short-lived object, long evicted, dereferences to {v!r}', ctx)
      except lazy_fns.LazyObjectMissingError:
        pass
  except Exception as e:  # pylint: disable=broad-exception-caught
    chk.violation(f'lazy:held-object:exception:{type(e).__name__}', repr(e), ctx)
  chk.replayed()
  lazy_fns.clear_cache()
  lazy_fns.clear_object()


def body(chk):
  b = _bounds(chk.tier)
  mixed_construction(chk)
  long_lived_handle(chk)
  chk.coverage['bounds'] = {k: str(v) for k, v in b.items()}
  _lru_part(chk, b)
  _lazy_part(chk, b)
  chk.assumptions += [
      'callables come from a fixed library (inc, add, kwf (keyword arguments), tick, boom, box) defined identically in TLA+ and Python',
      'the LazyFn / LazyObject cache bound is set to the spec Cap for the run through the cache object reachable from result_.cache_info',
      'lazy_result_ (results returned as references) is exercised by the remote-evaluation property C14, not here',
  ]


if __name__ == '__main__':
  common.main('C17', body)
