"""C07 - Metric values equal their mathematical definitions.

The family applies here through transcription: the textbook definitions are written in
TLA+ over integers and exact rationals - algebra/ConfusionRates.tla (27 confusion-matrix
metrics, binary / micro / macro), algebra/RankMetrics.tla (15 top-k retrieval metrics per
example plus the hit positions for DCG / NDCG), algebra/Stats.tla (count / total / mean /
variance with NaN skipping, histogram bins, min / max), algebra/PairStats.tla (Pearson / reflective
r, Tjur's D, symmetric prediction difference, calibration histogram, inputs of the cross entropies),
algebra/TextFreq.tla (top-k word n-grams, pattern frequency), algebra/Signals.tla - TLC checks the laws that tie the
definitions together (ranges, complements, harmonic mean, class symmetry, monotonicity in k,
variance >= 0, split invariance) over every input class of the bounded universe and emits
the expected value of every metric; every emitted case becomes one implementation test, in
every input encoding, through the accumulator API (several batches) and the one-shot
function API, with alias agreement checked on the real values.
"""
from __future__ import annotations

import math
import random
from fractions import Fraction

from harness import common, tlc

common.setup_repo_path()

TOL = 1e-9


def frac(p):
  return Fraction(p[0], p[1])


def close(a, b):
  try:
    a, b = float(a), float(b)
  except (TypeError, ValueError):
    return False
  if math.isnan(a) or math.isnan(b):
    return math.isnan(a) and math.isnan(b)
  return abs(a - b) <= TOL * max(1.0, abs(a), abs(b))


ALIASES = [('precision', 'ppv', 'positive_predictive_value'), ('recall', 'sensitivity', 'tpr'), ('specificity', 'tnr'),
           ('fall_out', 'fpr'), ('miss_rate', 'fnr'), ('negative_prediction_value', 'nvp'), ('threat_score', 'intersection_over_union')]


# ---------------------------------------------------------------- classification
def _binary_arrays(h, rnd, pos, neg):
  rows = [(pos, pos)] * h['tp'] + [(neg, pos)] * h['fp'] + [(neg, neg)] * h['tn'] + [(pos, neg)] * h['fn']
  rnd.shuffle(rows)
  return [r[0] for r in rows], [r[1] for r in rows]


def _scalar(x):
  import numpy as np
  a = np.asarray(x)
  return float(a.reshape(-1)[0]) if a.size == 1 else a


def replay_confusion(chk, h, rnd):
  import numpy as np
  from ml_metrics._src.aggregates import classification as agg
  from ml_metrics._src.metrics import classification as fn_api
  n = h['tp'] + h['fp'] + h['tn'] + h['fn']
  if n == 0:
    return
  names = [nm for nm, _ in h['binary']]
  counts = f"tp={h['tp']} fp={h['fp']} tn={h['tn']} fn={h['fn']}"
  extra = {}
  mcc = (h['mcc_num'] / math.sqrt(h['mcc_den2'])) if h['mcc_den2'] else 0.0
  extra['matthews_correlation_coefficient'] = mcc
  want_sets = dict(binary=dict((nm, float(frac(v))) for nm, v in h['binary']),
                   micro=dict((nm, float(frac(v))) for nm, v in h['micro']),
                   macro=dict((nm, float(frac(v))) for nm, v in h['macro']))
  want_sets['binary'].update(extra)
  # prevalence threshold: (sqrt(tpr * fpr) - fpr) / (tpr - fpr); only where both rates are defined
  if h['tp'] + h['fn'] > 0 and h['tn'] + h['fp'] > 0:
    tpr, fpr = want_sets['binary']['tpr'], want_sets['binary']['fpr']
    want_sets['binary']['prevalence_threshold'] = ((math.sqrt(tpr * fpr) - fpr) / (tpr - fpr)) if tpr != fpr else 0.0
  encodings = []
  for pos, neg in ((1, 0), ('Y', 'N')):
    yt, yp = _binary_arrays(h, rnd, pos, neg)
    encodings.append(('binary', f'binary pos_label={pos!r}', dict(pos_label=pos, input_type='binary', average='binary'), yt, yp))
    vocab = {pos: 0, neg: 1}
    encodings.append(('micro', f'multiclass micro labels={pos!r}/{neg!r}', dict(input_type='multiclass', average='micro', vocab=vocab), yt, yp))
    encodings.append(('macro', f'multiclass macro labels={pos!r}/{neg!r}', dict(input_type='multiclass', average='macro', vocab=vocab), yt, yp))
    encodings.append(('micro', f'multioutput micro labels={pos!r}/{neg!r}', dict(input_type='multiclass-multioutput', average='micro', vocab=vocab),
                      [[v] for v in yt], [[v] for v in yp]))
    ind_t = [[v == pos, v == neg] for v in yt]
    ind_p = [[v == pos, v == neg] for v in yp]
    encodings.append(('micro', 'indicator micro', dict(input_type='multiclass-indicator', average='micro', pos_label=True), ind_t, ind_p))
    encodings.append(('macro', 'indicator macro', dict(input_type='multiclass-indicator', average='macro', pos_label=True), ind_t, ind_p))
    encodings.append(('binary', 'indicator binary', dict(input_type='multiclass-indicator', average='binary', pos_label=True), ind_t, ind_p))
  for view, label, kw, yt, yp in encodings:
    want = want_sets[view]
    metrics = list(want)
    ctx = dict(kind='confusion', counts=dict(tp=h['tp'], fp=h['fp'], tn=h['tn'], fn=h['fn']), encoding=label, y_true=yt, y_pred=yp)
    try:
      f = agg.ConfusionMatrixAggFn(metrics=metrics, **kw)
      # accumulator API over two batches
      cut = rnd.randint(0, len(yt))
      st = f.create_state()
      for a, b in ((yt[:cut], yp[:cut]), (yt[cut:], yp[cut:])):
        if len(a):
          st = f.update_state(st, a, b)
      got = f.get_result(st)
      one = f(yt, yp)
    except Exception as e:  # pylint: disable=broad-exception-caught
      chk.violation(f'confusion:exception:{view}:{type(e).__name__}', f'[{counts} {label}] {e!r}', ctx)
      continue
    bad = [(m, float(_scalar(got[m])), want[m]) for m in metrics if not close(_scalar(got[m]), want[m])]
    if bad:
      m, g, w = bad[0]
      chk.violation(f'confusion:{view}:{m}', f'[{counts} {label}] {m} = {g}, definition gives {w} ({len(bad)} metrics differ)', ctx)
      continue
    if any(not close(_scalar(got[m]), _scalar(one[m])) for m in metrics):
      chk.violation(f'confusion:{view}:batches-vs-one-call', f'[{counts} {label}] accumulated {got} one call {one}', ctx)
      continue
    for grp in ALIASES:
      vals = [float(_scalar(got[m])) for m in grp if m in got]
      if any(not close(v, vals[0]) for v in vals):
        chk.violation(f'confusion:{view}:aliases:{grp[0]}', f'[{counts} {label}] aliases {grp} give {vals}', ctx)
    # one-shot function API (one metric per call) on a sample of metrics
    for m in rnd.sample(metrics, 4):
      fn = getattr(fn_api, m, None)
      if fn is None:
        continue
      if kw.get('input_type') == 'binary' and kw.get('pos_label') not in set(yt) | set(yp):
        continue      # the function API validates that the positive label occurs among the labels (metrics/utils.py)
      try:
        v = fn(yt, yp, **kw)
      except Exception as e:  # pylint: disable=broad-exception-caught
        chk.violation(f'confusion:function-api:exception:{type(e).__name__}', f'[{counts} {label}] {m}: {e!r}', ctx)
        continue
      if not close(_scalar(v), want[m]):
        chk.violation(f'confusion:function-api:{view}:{m}', f'[{counts} {label}] {m}(...) = {v}, definition gives {want[m]}', ctx)


def replay_confusion_scaled(chk, h, factor):
  """The binary view of one confusion matrix with every example repeated `factor` times."""
  import numpy as np
  from ml_metrics._src.aggregates import classification as agg
  n = h['tp'] + h['fp'] + h['tn'] + h['fn']
  if n == 0:
    return
  want = dict((nm, float(frac(v))) for nm, v in h['binary'])
  want['matthews_correlation_coefficient'] = (h['mcc_num'] / math.sqrt(h['mcc_den2'])) if h['mcc_den2'] else 0.0
  rows = [(1, 1)] * h['tp'] + [(0, 1)] * h['fp'] + [(0, 0)] * h['tn'] + [(1, 0)] * h['fn']
  yt = np.tile(np.array([r[0] for r in rows]), factor)
  yp = np.tile(np.array([r[1] for r in rows]), factor)
  counts = f"tp={h['tp']} fp={h['fp']} tn={h['tn']} fn={h['fn']} x {factor}"
  ctx = dict(kind='confusion-scaled', counts=dict(tp=h['tp'], fp=h['fp'], tn=h['tn'], fn=h['fn']), factor=factor)
  try:
    f = agg.ConfusionMatrixAggFn(metrics=list(want), pos_label=1, input_type='binary', average='binary')
    st = f.update_state(f.update_state(f.create_state(), yt[:len(yt) // 2], yp[:len(yt) // 2]), yt[len(yt) // 2:], yp[len(yt) // 2:])
    got = f.get_result(st)
  except Exception as e:  # pylint: disable=broad-exception-caught
    chk.violation(f'confusion:large-counts:exception:{type(e).__name__}', f'[{counts}] {e!r}', ctx)
    return
  bad = [(m, float(_scalar(got[m])), want[m]) for m in want if not close(_scalar(got[m]), want[m])]
  if bad:
    m, g, w = bad[0]
    chk.violation(f'confusion:large-counts:{m}', f'[{counts}] {m} = {g}, definition gives {w} ({len(bad)} metrics differ)', ctx)


# ---------------------------------------------------------------- retrieval
def replay_rank(chk, h, rnd, max_k):
  import numpy as np
  from ml_metrics._src.aggregates import retrieval as agg
  from ml_metrics._src.metrics import retrieval as fn_api
  ex = h['examples']
  y_true = [sorted(e['t']) for e in ex]
  y_pred = [list(e['p']) for e in ex]
  names = [nm for nm, _ in h['values'][0][0]]
  desc = f'y_true={y_true} y_pred={y_pred}'
  for k_list in ([1], [2], [1, 3], list(range(1, max_k + 1)), [max_k]):
    # the library truncates k to the longest prediction of the batch: compare at the effective cut-off
    longest = max(len(p) for p in y_pred)
    want = {}
    for nm_i, nm in enumerate(names):
      per_k = []
      for k in k_list:
        vals = [frac(h['values'][i][min(k, max_k) - 1][nm_i][1]) for i in range(len(ex))]
        v = float(sum(vals) / len(vals))
        per_k.append(v)
      want[nm] = per_k
    fm = []
    for k in k_list:
      fm.append(sum(math.sqrt(float(frac(h['values'][i][k - 1][names.index('fowlkes_mallows_index')][1]))) for i in range(len(ex))) / len(ex))
    want['fowlkes_mallows_index'] = fm
    dcg, ndcg = [], []
    for k in k_list:
      d, nd = [], []
      for i, e in enumerate(ex):
        hits = h['hits'][i][k - 1]
        g = sum(1.0 / math.log2(p + 1) for p in hits)
        ideal = sum(1.0 / math.log2(p + 1) for p in range(1, min(k, len(e['t'])) + 1))
        d.append(g)
        nd.append(g / ideal if ideal else 0.0)
      dcg.append(sum(d) / len(d))
      ndcg.append(sum(nd) / len(nd))
    want['dcg_score'] = dcg
    want['ndcg_score'] = ndcg
    metrics = list(want)
    ctx = dict(kind='retrieval', y_true=y_true, y_pred=y_pred, k_list=k_list)
    try:
      got_vals = agg.TopKRetrievalAggFn(metrics=metrics, k_list=k_list)(y_true, y_pred)
    except Exception as e:  # pylint: disable=broad-exception-caught
      chk.violation(f'retrieval:exception:{type(e).__name__}', f'[{desc} k_list={k_list}] {e!r}', ctx)
      continue
    if isinstance(got_vals, dict):
      got = {str(getattr(m, 'value', m)): [float(x) for x in np.asarray(v).reshape(-1)] for m, v in got_vals.items()}
    else:
      got = {m: [float(x) for x in np.asarray(v).reshape(-1)] for m, v in zip(metrics, got_vals)}
    failed = False
    for m in metrics:
      if len(got[m]) != len(k_list) or any(not close(a, b) for a, b in zip(got[m], want[m])):
        short = 'k>predictions' if any(k > longest for k in k_list) else 'k<=predictions'
        chk.violation(f'retrieval:{m}:{short}', f'[{desc} k_list={k_list}] {m} = {got[m]}, definition gives {want[m]}', ctx)
        failed = True
    if not failed or True:
      for grp in (('precision', 'ppv', 'positive_predictive_value'), ('recall', 'sensitivity', 'tpr'), ('threat_score', 'intersection_over_union')):
        vals = [got[m] for m in grp]
        if any(any(not close(a, b) for a, b in zip(v, vals[0])) for v in vals):
          chk.violation(f'retrieval:aliases:{grp[0]}', f'[{desc} k_list={k_list}] aliases {grp} give {vals}', ctx)
      m = rnd.choice([x for x in metrics if hasattr(fn_api, x)])
      try:
        v = [float(x) for x in np.asarray(getattr(fn_api, m)(y_true, y_pred, k_list=k_list)).reshape(-1)]
        if any(not close(a, b) for a, b in zip(v, want[m])):
          short = 'k>predictions' if any(k > longest for k in k_list) else 'k<=predictions'
          chk.violation(f'retrieval:function-api:{m}:{short}', f'[{desc} k_list={k_list}] {m}(...) = {v}, definition gives {want[m]}', ctx)
      except Exception as e:  # pylint: disable=broad-exception-caught
        chk.violation(f'retrieval:function-api:exception:{type(e).__name__}', f'[{desc}] {m}: {e!r}', ctx)


def replay_topk_classification(chk, h, max_k):
  """TopKConfusionMatrixAggFn (classification at cut-off k, micro and macro) against the per-class counts of the batch."""
  import numpy as np
  from ml_metrics._src.aggregates import classification as agg
  ex = h['examples']
  y_true = [sorted(e['t']) for e in ex]
  y_pred = [list(e['p']) for e in ex]
  vocab = {1: 0, 2: 1, 3: 2, 4: 3}
  desc = f'y_true={y_true} y_pred={y_pred}'
  for k_list in ([1, 2], list(range(1, max_k + 1))):
    for avg in ('micro', 'macro'):
      want = {m: [float(frac(h['topk'][k - 1][f'{avg}_{m}'])) for k in k_list] for m in ('precision', 'recall')}
      ctx = dict(kind='topk-classification', y_true=y_true, y_pred=y_pred, k_list=k_list, average=avg)
      try:
        got = agg.TopKConfusionMatrixAggFn(metrics=['precision', 'recall'], k_list=k_list, input_type='multiclass-multioutput',
                                           average=avg, vocab=vocab)(y_true, y_pred)
      except Exception as e:  # pylint: disable=broad-exception-caught
        chk.violation(f'topk-classification:exception:{avg}:{type(e).__name__}', f'[{desc} k_list={k_list}] {e!r}', ctx)
        continue
      for m in ('precision', 'recall'):
        g = [float(x) for x in np.asarray(got[m]).reshape(-1)]
        if len(g) != len(k_list) or any(not close(a, b) for a, b in zip(g, want[m])):
          chk.violation(f'topk-classification:{avg}:{m}', f'[{desc} k_list={k_list}] {m} = {g}, definition gives {want[m]}', ctx)
          break


# ---------------------------------------------------------------- statistics
def replay_stats(chk, h, consts):
  import numpy as np
  from ml_metrics._src.aggregates import rolling_stats as agg
  from ml_metrics._src.metrics import rolling_stats as fn_api
  nan = consts['NaN']
  batches = [[float('nan') if v == nan else float(v) for v in b] for b in h['stream']]
  desc = f'batches={batches}'
  ctx = dict(kind='stats', stream=h['stream'])
  cnt = h['count']
  want_mean = h['total'] / cnt if cnt else float('nan')
  want_var = h['var_num'] / h['var_den'] if cnt else float('nan')
  try:
    acc = agg.MeanAndVariance()
    for b in batches:
      acc.add(np.asarray(b))
    got = dict(count=acc.count, total=acc.total, mean=acc.mean, var=acc.var)
  except Exception as e:  # pylint: disable=broad-exception-caught
    chk.violation(f'stats:exception:{type(e).__name__}', f'[{desc}] {e!r}', ctx)
    return
  for nm, w in (('count', cnt), ('total', h['total']), ('mean', want_mean), ('var', want_var)):
    if not close(got[nm], w):
      nanb = 'nan-batch' if any(all(math.isnan(v) for v in b) for b in batches) else ('with-nan' if any(math.isnan(v) for b in batches for v in b) else 'plain')
      chk.violation(f'stats:{nm}:{nanb}', f'[{desc}] {nm} = {got[nm]}, definition gives {w}', ctx)
      return
  flat = [v for b in batches for v in b]
  for nm, w in (('count', cnt), ('total', h['total']), ('mean', want_mean), ('var', want_var)):
    v = getattr(fn_api, nm)(np.asarray(flat))
    if not close(v, w):
      chk.violation(f'stats:function-api:{nm}', f'[{desc}] {nm}(batch) = {v}, definition gives {w}', ctx)
      return
  sd = fn_api.stddev(np.asarray(flat))
  if not close(sd, math.sqrt(want_var) if cnt else float('nan')):
    chk.violation('stats:function-api:stddev', f'[{desc}] stddev(batch) = {sd}, definition gives sqrt({want_var})', ctx)
    return
  for cls, attr, w in ((agg.Var, 'var', want_var), (agg.Mean, 'mean', want_mean)):
    a = cls()
    for b in batches:
      a.add(np.asarray(b))
    r = a.result()
    if not close(r if isinstance(r, (int, float, np.floating, np.ndarray)) else getattr(r, attr), w):
      chk.violation(f'stats:{cls.__name__}:result', f'[{desc}] {cls.__name__}().result() = {a.result()}, definition gives {w}', ctx)
      return
  # histogram (NaN-free values only: np.histogram rejects NaN ranges silently otherwise)
  clean = [[v for v in b if not math.isnan(v)] for b in batches]
  hist = agg.Histogram(range=(consts['Lo'], consts['Hi']), bins=consts['Bins'])
  for b in clean:
    hist.add(np.asarray(b))
  if [int(x) for x in hist.result().hist] != list(h['hist']):
    chk.violation('stats:histogram', f'[{desc}] histogram {list(hist.result().hist)}, definition gives {h["hist"]}', ctx)
  vals = [v for b in clean for v in b]
  if vals:
    mm = agg.MinMaxAndCount()
    for b in clean:
      if b:
        mm.add(np.asarray(b))
    if not (close(mm.min, h['min']) and close(mm.max, h['max']) and mm.count == len(vals)):
      chk.violation('stats:minmaxcount', f'[{desc}] min/max/count {mm.min}/{mm.max}/{mm.count}, definition gives {h["min"]}/{h["max"]}/{len(vals)}', ctx)


def replay_stats_2d(chk, h, h2, consts):
  """Two independent streams side by side as a 2-column input: every column keeps its own count / mean / variance."""
  import numpy as np
  from ml_metrics._src.aggregates import rolling_stats as agg
  nan = consts['NaN']
  conv = lambda v: float('nan') if v == nan else float(v)
  batches = [np.array([[conv(a), conv(b)] for a, b in zip(b1, b2)]) for b1, b2 in zip(h['stream'], h2['stream'])]
  desc = f'batches={[b.tolist() for b in batches]}'
  ctx = dict(kind='stats-2d', stream=[h['stream'], h2['stream']])
  want = []
  for hh in (h, h2):
    c = hh['count']
    want.append((c, hh['total'], hh['total'] / c if c else float('nan'), hh['var_num'] / hh['var_den'] if c else float('nan')))
  for how in ('add', 'merge'):
    try:
      acc = agg.MeanAndVariance()
      for b in batches:
        if how == 'add':
          acc.add(b)
        else:
          other = agg.MeanAndVariance()
          other.add(b)
          acc.merge(other)
      col = lambda x, j: np.broadcast_to(np.asarray(x, dtype=float), (2,))[j]      # an accumulator that saw only NaN keeps scalars
      got = [(col(acc.count, j), col(acc.total, j), col(acc.mean, j), col(acc.var, j)) for j in range(2)]
    except Exception as e:  # pylint: disable=broad-exception-caught
      chk.violation(f'stats-2d:exception:{type(e).__name__}', f'[{desc}] {e!r}', ctx)
      return
    for j in range(2):
      for nm, g, w in zip(('count', 'total', 'mean', 'var'), got[j], want[j]):
        if not close(g, w):
          chk.violation(f'stats-2d:{how}:{nm}', f'[{desc}] column {j}: {nm} = {g}, definition gives {w}', ctx)
          return


def replay_pairs(chk, h, consts):
  """PairStats.tla: Pearson / reflective r, Tjur's D and its relative form, symmetric prediction difference, calibration histogram,
  cross entropies - the accumulators are fed batch by batch and once more through merge()."""
  import numpy as np
  from ml_metrics._src.aggregates import rolling_stats as agg
  from ml_metrics._src.metrics import classification as mcls
  from ml_metrics._src.signals import cross_entropy
  scale, bins = consts['Scale'], consts['Bins']
  batches = [([float(p[0]) for p in b], [float(p[1]) for p in b]) for b in h['stream']]
  desc = f'batches (x, y)={[list(map(tuple, b)) for b in h["stream"]]}'
  ctx = dict(kind='pair-stats', stream=h['stream'])
  flat_x = [v for b in batches for v in b[0]]
  flat_y = [v for b in batches for v in b[1]]

  def fed(make, how, xs_of=lambda x: x, swap=False):
    acc = make()
    for x, y in batches:
      args = (np.asarray(y), np.asarray(xs_of(np.asarray(x)))) if swap else (np.asarray(xs_of(np.asarray(x))), np.asarray(y))
      if how == 'add':
        acc.add(*args)
      else:
        other = make()
        other.add(*args)
        acc.merge(other)
    return acc

  def judge(name, got, want, undefined_is_nan=True):
    """want: None (undefined) or a float"""
    got = float(np.asarray(got).reshape(-1)[0]) if np.asarray(got).size == 1 else got
    if want is None:
      if undefined_is_nan and not (isinstance(got, float) and math.isnan(got)):
        chk.violation(f'pairs:{name}:undefined-not-nan', f'[{desc}] {name} = {got} where the definition has a zero denominator', ctx)
      return
    if not close(got, want):
      chk.violation(f'pairs:{name}', f'[{desc}] {name} = {got}, definition gives {want}', ctx)

  def root(t):      # <<sign, num, den>> of a squared ratio
    return None if not t else t[0] * math.sqrt(t[1] / t[2])

  def ratio(t):
    return None if not t else t[0] / t[1]

  with np.errstate(all='ignore'):
    for how in ('add', 'merge'):
      try:
        judge(f'pearson:{how}', fed(lambda: agg.RRegression(), how).result(), root(h['pearson']), undefined_is_nan=False)
        judge(f'reflective:{how}', fed(lambda: agg.RRegression(center=False), how).result(), root(h['refl']), undefined_is_nan=False)
        judge(f'spd:{how}', fed(agg.SymmetricPredictionDifference, how).result(), ratio(h['spd']))
        if h['binary']:
          judge(f'tjur:{how}', fed(agg.R2Tjur, how, xs_of=lambda x: x / scale, swap=True).result(), ratio(h['tjur']))
          judge(f'tjur-relative:{how}', fed(agg.R2TjurRelative, how, xs_of=lambda x: x / scale, swap=True).result(), ratio(h['tjur_rel']))
        if h['calib']:
          r = fed(lambda: mcls.CalibrationHistogram(range=(0, 1), bins=bins), how, xs_of=lambda x: x / scale, swap=True).result()
          got = [[int(a), float(b), float(c) * scale] for a, b, c in zip(r.num_examples_hist, r.labels_hist, r.predictions_hist)]
          if any(g[0] != w[0] or not close(g[1], w[1]) or not close(g[2], w[2]) for g, w in zip(got, h['calib'])) or len(got) != len(h['calib']):
            chk.violation(f'pairs:calibration-histogram:{how}', f'[{desc}] per bin (count, sum of labels, sum of predictions x{scale}) = {got}, '
                          f'definition gives {h["calib"]}', ctx)
      except Exception as e:  # pylint: disable=broad-exception-caught
        chk.violation(f'pairs:exception:{type(e).__name__}', f'[{desc}] {how}: {e!r}', ctx)
        return
    # the symmetric prediction difference is a mean over ELEMENTS: the same pairs as two-column batches give the same value
    if len(flat_x) % 2 == 0 and flat_x:
      try:
        acc = agg.SymmetricPredictionDifference()
        acc.add(np.asarray(flat_x).reshape(-1, 2), np.asarray(flat_y).reshape(-1, 2))
        judge('spd:two-column-batch', acc.result(), ratio(h['spd']))
        if len(flat_x) % 4 == 0:
          acc = agg.SymmetricPredictionDifference()
          acc.add(np.asarray(flat_x).reshape(-1, 2, 2), np.asarray(flat_y).reshape(-1, 2, 2))
          judge('spd:three-dimensional-batch', acc.result(), ratio(h['spd']))
      except Exception as e:  # pylint: disable=broad-exception-caught
        chk.violation(f'pairs:spd:two-column-batch:exception:{type(e).__name__}', f'[{desc}] {e!r}', ctx)
    # cross entropies over the raw examples (the logarithms are the replayer's: math.log, one example at a time)
    if h['binary'] and all(0 < x < scale for x in flat_x):
      ps = [x / scale for x in flat_x]
      want = -sum(y * math.log(p) + (1 - y) * math.log(1 - p) for y, p in zip(flat_y, ps)) / len(ps)
      try:
        judge('binary-cross-entropy', cross_entropy.binary_cross_entropy(np.asarray(flat_y), np.asarray(ps)), want)
      except Exception as e:  # pylint: disable=broad-exception-caught
        chk.violation(f'pairs:binary-cross-entropy:exception:{type(e).__name__}', f'[{desc}] {e!r}', ctx)
    if h['binary'] and all(x > 0 for x in flat_x):
      tot = sum(flat_x)
      want = -sum(y * math.log(x / tot) for y, x in zip(flat_y, flat_x))
      try:
        judge('categorical-cross-entropy', cross_entropy.categorical_cross_entropy(np.asarray(flat_y), np.asarray(flat_x)), want)
      except Exception as e:  # pylint: disable=broad-exception-caught
        chk.violation(f'pairs:categorical-cross-entropy:exception:{type(e).__name__}', f'[{desc}] {e!r}', ctx)


_LETTERS = 'abcdefg'


def _render_words(t, salt):
  """a text of TextFreq.tla as words: one letter per symbol, with noise the documented cleaning removes (case, digits,
  punctuation, repeated spaces)"""
  out = []
  for i, sym in enumerate(t):
    w = _LETTERS[sym - 1]
    v = (i + salt) % 5
    out.append(w.upper() if v == 1 else w + '1' if v == 2 else '!' + w if v == 3 else w)
  return ('  ' if salt % 2 else ' ').join(out) + (' 7' if salt % 3 == 0 and t else '')


def replay_text(chk, h, consts):
  from ml_metrics._src.aggregates import text as agg
  try:
    from ml_metrics._src.metrics import text as fn_api      # needs a telemetry module that is not part of the open-source tree
  except ImportError:
    fn_api = None
  nt = h['nt']
  texts = [_render_words(t, j) for j, t in enumerate(h['texts'])]
  plain = [''.join(_LETTERS[s - 1] for s in t) for t in h['texts']]
  ctx = dict(kind='text-frequency', texts=h['texts'])
  name_of = lambda g, sep: sep.join(_LETTERS[s - 1] for s in g)

  def same(got, want):
    return len(got) == len(want) and all(g[0] == w[0] and close(g[1], w[1]) for g, w in zip(got, want))

  def splits(items):
    yield 'one-batch', [items]
    if len(items) > 1:
      yield 'per-text', [[x] for x in items]

  for n in sorted(consts['Ns']):
    for mode, key, kw in (('all', 'all', dict()), ('distinct', 'distinct', dict(count_duplicate=False)),
                          ('first', 'first', dict(use_first_ngram_only=True)), ('first', 'first', dict(use_first_ngram_only=True, count_duplicate=False))):
      ranked = [(name_of(g, ' '), c / nt) for g, c in h[key][n - 1]]
      for k in (1, 2, 6):
        want = ranked[:k]
        desc = f'texts={texts} n={n} k={k} {kw or ""}'
        try:
          for how, batches in splits(texts):
            acc = agg.TopKWordNGrams(k=k, n=n, **kw)
            for b in batches:
              acc.add(b)
            if not same(acc.result(), want):
              chk.violation(f'text:ngrams:{mode}', f'[{desc}] {how}: {acc.result()}, definition gives {want}', ctx)
              break
            merged = agg.TopKWordNGrams(k=k, n=n, **kw)
            for b in batches:
              o = agg.TopKWordNGrams(k=k, n=n, **kw)
              o.add(b)
              merged.merge(o)
            if not same(merged.result(), want):
              chk.violation(f'text:ngrams:{mode}:merge', f'[{desc}] {how}: {merged.result()}, definition gives {want}', ctx)
              break
          got = fn_api.topk_word_ngrams(texts, k=k, n=n, **kw) if fn_api else want
          if not same(got, want):
            chk.violation(f'text:ngrams:{mode}:function-api', f'[{desc}] {got}, definition gives {want}', ctx)
        except Exception as e:  # pylint: disable=broad-exception-caught
          chk.violation(f'text:ngrams:exception:{type(e).__name__}', f'[{desc}] {e!r}', ctx)
  pats = [name_of(g, '') for g, _ in h['pat_all']]
  pats = sorted(pats, key=lambda p: (len(p) % 2, p[::-1]))          # any order of the configured patterns
  for mode, key, kw in (('all', 'pat_all', dict(count_duplicate=True)), ('distinct', 'pat_distinct', dict(count_duplicate=False))):
    want = [(name_of(g, ''), c / nt) for g, c in h[key]]
    desc = f'texts={plain} patterns={pats} {kw}'
    try:
      for how, batches in splits(plain):
        acc = agg.PatternFrequency(patterns=pats, **kw)
        for b in batches:
          acc.add(b)
        if not same(acc.result(), want):
          chk.violation(f'text:patterns:{mode}', f'[{desc}] {how}: {acc.result()}, definition gives {want}', ctx)
          break
      got = fn_api.pattern_frequency(plain, patterns=pats, **kw) if fn_api else want
      if not same(got, want):
        chk.violation(f'text:patterns:{mode}:function-api', f'[{desc}] {got}, definition gives {want}', ctx)
    except Exception as e:  # pylint: disable=broad-exception-caught
      chk.violation(f'text:patterns:exception:{type(e).__name__}', f'[{desc}] {e!r}', ctx)
  # average number of alphabetical characters: each symbol is one letter, the noise is not alphabetical
  lens = [len(t) for t in h['texts']]
  mean = sum(lens) / nt
  var = sum((v - mean) ** 2 for v in lens) / nt
  if fn_api is None:
    return
  try:
    r = fn_api.avg_alphabetical_char_count(texts)
    if not (close(r.mean, mean) and close(r.var, var) and r.count == nt):
      chk.violation('text:avg-alphabetical-char-count', f'[texts={texts}] mean/var/count {r.mean}/{r.var}/{r.count}, definition gives {mean}/{var}/{nt}', ctx)
  except Exception as e:  # pylint: disable=broad-exception-caught
    chk.violation(f'text:avg-alphabetical-char-count:exception:{type(e).__name__}', f'[texts={texts}] {e!r}', ctx)


def replay_thresholded(chk, h, scale):
  """Thresholded.tla: precision / recall / f1 per threshold and metric@threshold, thresholds configured in any order, examples fed in
  one batch, one by one (an example without relevant items is a batch of its own then) and through merge."""
  import numpy as np
  from ml_metrics._src.aggregates import retrieval
  names = 'abcdefg'
  exs = [([names[x - 1] for x in sorted(e['rel'])], [names[x - 1] for x in e['rank']], [p / scale for p in e['prob']]) for e in h['stream']]
  at = h['at'].values() if isinstance(h['at'], dict) else h['at']
  rows = sorted((r[0] / scale, r[1], r[2], r[3]) for r in at)
  ths = [r[0] for r in rows]
  div = lambda a, b: a / b if b else 0.0
  want_p = [div(r[2], r[3]) for r in rows]
  want_r = [div(r[1], h['ptrue']) for r in rows]
  want_f = [div(2 * p * q, p + q) for p, q in zip(want_p, want_r)]
  ctx = dict(kind='thresholded-retrieval', stream=h['stream'])
  orders = [('ascending', ths), ('descending', ths[::-1]), ('rotated', ths[1:] + ths[:1])]
  at_metrics = [f'precision@{ths[-1]}', f'recall@{ths[0]}', f'f1_score@{ths[len(ths) // 2]}']
  want_at = [want_p[-1], want_r[0], want_f[len(ths) // 2]]
  for oname, order in orders:
    for how in ('one-batch', 'per-example', 'merge'):
      desc = f'examples (y_true, y_pred, y_prob)={exs} thresholds={order} {how}'
      try:
        mk = lambda: retrieval.ThresholdedRetrieval(thresholds=tuple(order), metrics=['precision', 'recall', 'f1_score'] + at_metrics)
        acc = mk()
        batches = [exs] if how == 'one-batch' else [[e] for e in exs]
        for b in batches:
          args = ([e[0] for e in b], [e[1] for e in b], [e[2] for e in b])
          if how == 'merge':
            o = mk()
            o.add(*args)
            acc.merge(o)
          else:
            acc.add(*args)
        res = acc.result()
      except Exception as e:  # pylint: disable=broad-exception-caught
        chk.violation(f'thresholded:exception:{type(e).__name__}', f'[{desc}] {e!r}', ctx)
        return
      got_t = [float(x) for x in np.asarray(res['thresholds']).reshape(-1)]
      vals = {k: np.asarray(v, dtype=float).reshape(-1).tolist() for k, v in res.items() if k != 'thresholds'}
      if not all(close(a, b) for a, b in zip(got_t, ths)) or len(got_t) != len(ths):
        chk.violation('thresholded:thresholds', f'[{desc}] reported thresholds {got_t}, ascending {ths}', ctx)
        return
      for nm, want in (('precision', want_p), ('recall', want_r), ('f1_score', want_f)):
        if len(vals[nm]) != len(want) or not all(close(a, b) for a, b in zip(vals[nm], want)):
          chk.violation(f'thresholded:{nm}:{oname}:{how}', f'[{desc}] {nm} = {vals[nm]}, definition gives {want} at {ths}', ctx)
          return
      for nm, want in zip(at_metrics, want_at):
        if not close(vals[nm][0], want):
          chk.violation(f'thresholded:at-threshold:{oname}', f'[{desc}] {nm} = {vals[nm][0]}, definition gives {want}', ctx)
          return


def replay_signals(chk, h):
  import numpy as np
  from ml_metrics._src.signals import flip_masks, topk_accuracy
  if h['kind'] == 'topk':
    n = len(h['scores'])
    for c in range(n):
      for k in range(1, n + 3):
        want = bool(h['accurate'][c][k - 1])
        for weighted in ((False, True) if any(w != 1 for w in h['weights']) else (False,)):
          kw = dict(weights=np.array(h['weights'], dtype=float)) if weighted else {}
          if not weighted and any(w != 1 for w in h['weights']):
            continue
          ctx = dict(kind='signal-topk', scores=h['scores'], weights=h['weights'], label=c, k=k)
          try:
            got = bool(topk_accuracy.topk_accurate(np.array(h['scores'], dtype=float), c, k=k, **kw))
          except Exception as e:  # pylint: disable=broad-exception-caught
            chk.violation(f'signals:topk:exception:{type(e).__name__}:{"k>classes" if k > n else "k<=classes"}',
                          f'scores={h["scores"]} weights={h["weights"]} label={c} k={k}: {e!r}', ctx)
            continue
          if got != want:
            chk.violation(f'signals:topk:{"k>classes" if k > n else "k<=classes"}',
                          f'scores={h["scores"]} weights={h["weights"]} label={c} k={k}: {got}, definition gives {want}', ctx)
  else:
    b, m, t = h['base'], h['model'], h['thr']
    ctx = dict(kind='signal-flip', base=b, model=m, threshold=t)
    for name, fn, want in (('binary', flip_masks.binary_flip_mask, h['binary']), ('neg_to_pos', flip_masks.neg_to_pos_flip_mask, h['neg_to_pos']),
                           ('pos_to_neg', flip_masks.pos_to_neg_flip_mask, h['pos_to_neg'])):
      for arr in (False, True):
        args = (np.array([b]), np.array([m])) if arr else (b, m)
        try:
          got = fn(*args, threshold=t)
          got = bool(np.asarray(got).reshape(-1)[0])
        except Exception as e:  # pylint: disable=broad-exception-caught
          chk.violation(f'signals:flip:{name}:exception:{type(e).__name__}', f'base={b} model={m} threshold={t}: {e!r}', ctx)
          continue
        if got != bool(want):
          chk.violation(f'signals:flip:{name}', f'base={b} model={m} threshold={t}: {got}, definition gives {want}', ctx)


def body(chk):
  thorough = chk.tier == 'thorough'
  rnd = random.Random(chk.seed)
  # 1. confusion-matrix metrics
  consts = dict(MaxCount=3)
  laws = ['RatesInRange', 'SignedInRange', 'Complements', 'F1Harmonic', 'ClassSymmetry', 'ScaleInvariant', 'MccBounded']
  mc = tlc.run('algebra', 'ConfusionRates', tlc.cfg_text(constants=consts, invariants=laws, deadlock=False), timeout=1800)
  chk.add_tlc(mc, 'ConfusionRates/MC')
  if not mc.ok:
    chk.machinery_failure(f'ConfusionRates.tla violates {mc.error_name}')
  gen = tlc.run('algebra', 'ConfusionRates', tlc.cfg_text(constants=consts, invariants=['Emit'], deadlock=False), workers=1, timeout=1800)
  if not gen.ok:
    chk.machinery_failure(f'ConfusionRates export failed: {gen.error_name}')
  hs = gen.histories if thorough else rnd.sample(gen.histories, 90)
  for h in hs:
    replay_confusion(chk, h, rnd)
    chk.replayed()
  chk.count('confusion_matrices', len(hs))
  # ScaleInvariant on the code: the same examples repeated until the counts are large (products of four counts leave
  # the 64-bit integers long before the counts themselves do)
  for h in (hs if thorough else hs[:25]):
    replay_confusion_scaled(chk, h, 60000)
    chk.replayed()
  # 2. retrieval metrics
  max_k = 4
  rc = dict(Vocab={1, 2, 3, 4}, MaxK=max_k, MaxExamples=1)
  rlaws = ['InRange', 'Monotone', 'PerfectAP', 'F1IsHarmonic']
  mc = tlc.run('algebra', 'RankMetrics', tlc.cfg_text(constants=rc, invariants=rlaws, deadlock=False), timeout=1800)
  chk.add_tlc(mc, 'RankMetrics/MC')
  if not mc.ok:
    chk.machinery_failure(f'RankMetrics.tla violates {mc.error_name}')
  gen = tlc.run('algebra', 'RankMetrics', tlc.cfg_text(constants=rc, invariants=['Emit'], deadlock=False), workers=1, timeout=1800)
  if not gen.ok:
    chk.machinery_failure(f'RankMetrics export failed: {gen.error_name}')
  hs = gen.histories if thorough else rnd.sample(gen.histories, 150)
  sim = tlc.run('algebra', 'RankMetrics', tlc.cfg_text(constants=dict(rc, MaxExamples=3), invariants=['Emit'], deadlock=False), workers=1,
                simulate=f'num={400 if thorough else 60}', depth=4, seed=chk.seed + 3, timeout=1800)
  hs = hs + [h for h in sim.histories if len(h['examples']) > 1]
  for h in hs:
    replay_rank(chk, h, rnd, max_k)
    replay_topk_classification(chk, h, max_k)
    chk.replayed()
  chk.count('ranking_batches', len(hs))
  # 3. rolling statistics
  sc = dict(Values={0, 1, 3, 4}, NaN=99, MaxBatches=2, MaxLen=2, Lo=0, Hi=4, Bins=2)
  slaws = ['VarNonNegative', 'VarZeroIffConstant', 'MeanBetweenMinMax', 'HistCountsInRange', 'SplitInvariant']
  mc = tlc.run('algebra', 'Stats', tlc.cfg_text(constants=sc, invariants=slaws, deadlock=False), timeout=1800)
  chk.add_tlc(mc, 'Stats/MC')
  if not mc.ok:
    chk.machinery_failure(f'Stats.tla violates {mc.error_name}')
  gen = tlc.run('algebra', 'Stats', tlc.cfg_text(constants=sc, invariants=['Emit'], deadlock=False), workers=1, timeout=1800)
  if not gen.ok:
    chk.machinery_failure(f'Stats export failed: {gen.error_name}')
  hs = list(gen.histories)
  sim = tlc.run('algebra', 'Stats', tlc.cfg_text(constants=dict(sc, MaxBatches=3, MaxLen=3), invariants=['Emit'], deadlock=False), workers=1,
                simulate=f'num={500 if thorough else 80}', depth=4, seed=chk.seed + 4, timeout=1800)
  hs += sim.histories
  for h in hs:
    replay_stats(chk, h, sc)
    chk.replayed()
  chk.count('stat_streams', len(hs))
  # the same with negative values (cfg files cannot hold negative numbers: the constants come from the MC wrapper)
  sc_neg = dict(Values='<- mc_Values', NaN=99, MaxBatches=2, MaxLen=2, Lo='<- mc_Lo', Hi=3, Bins=2)
  neg_defs = dict(mc_Values='{-3, -1, 2}', mc_Lo='-3')
  mcn = tlc.run('algebra', 'Stats', tlc.cfg_text(constants=sc_neg, invariants=slaws, deadlock=False), mc_defs=neg_defs, timeout=1800)
  chk.add_tlc(mcn, 'Stats/MC/negative values')
  if not mcn.ok:
    chk.machinery_failure(f'Stats.tla (negative values) violates {mcn.error_name}')
  genn = tlc.run('algebra', 'Stats', tlc.cfg_text(constants=sc_neg, invariants=['Emit'], deadlock=False), mc_defs=neg_defs, workers=1, timeout=1800)
  if not genn.ok:
    chk.machinery_failure(f'Stats export (negative values) failed: {genn.error_name}')
  for h in genn.histories:
    replay_stats(chk, h, dict(sc, Lo=-3, Hi=3))
    chk.replayed()
  chk.count('stat_streams_negative_values', len(genn.histories))
  # the same streams pairwise as 2-column inputs (same batch lengths)
  by_shape = {}
  for h in hs:
    by_shape.setdefault(tuple(len(b) for b in h['stream']), []).append(h)
  n2d = 0
  for shape, group in by_shape.items():
    rnd.shuffle(group)
    for h, h2 in list(zip(group[::2], group[1::2]))[:(400 if thorough else 60)]:
      replay_stats_2d(chk, h, h2, sc)
      n2d += 1
      chk.replayed()
  chk.count('stat_streams_2d', n2d)
  # 3b. two-variable statistics, calibration histogram, cross entropies
  pc = dict(Xs={0, 1, 3, 4}, Ys={0, 1}, MaxBatches=2, MaxLen=2, Scale=4, Bins=2)
  plaws = ['CauchySchwarz', 'VarNonNegative', 'ReflBounded', 'PearsonSymmetric', 'TjurInRange', 'SpdInRange', 'CalibCountsAll', 'CalibSums']
  for label, consts, defs in (('binary labels', pc, None),
                              ('signed values', dict(pc, Xs='<- mc_Xs', Ys='<- mc_Ys'), dict(mc_Xs='{-2, 1, 3}', mc_Ys='{-1, 2, 3}'))):
    mc = tlc.run('algebra', 'PairStats', tlc.cfg_text(constants=consts, invariants=plaws, deadlock=False), mc_defs=defs, timeout=1800)
    chk.add_tlc(mc, f'PairStats/MC/{label}')
    if not mc.ok:
      chk.machinery_failure(f'PairStats.tla ({label}) violates {mc.error_name}')
    gen = tlc.run('algebra', 'PairStats', tlc.cfg_text(constants=consts, invariants=['Emit'], deadlock=False), mc_defs=defs, workers=1, timeout=1800)
    if not gen.ok:
      chk.machinery_failure(f'PairStats export ({label}) failed: {gen.error_name}')
    hs = list(gen.histories)
    sim = tlc.run('algebra', 'PairStats', tlc.cfg_text(constants=dict(consts, MaxBatches=3, MaxLen=3), invariants=['Emit'], deadlock=False),
                  mc_defs=defs, workers=1, simulate=f'num={500 if thorough else 80}', depth=4, seed=chk.seed + 5, timeout=1800)
    hs += sim.histories
    if not thorough:
      hs = rnd.sample(hs, min(len(hs), 700))
    for h in hs:
      replay_pairs(chk, h, pc)
      chk.replayed()
    chk.count(f'pair_streams[{label}]', len(hs))
  # 3c. text-frequency metrics
  tc = dict(NSym=2, MaxTexts=2, MaxLen=3, Ns={1, 2}, MaxPat=2)
  tlaws = ['TotalOrder', 'DistinctAtMostAll', 'GramsAccountForPositions', 'FirstOnePerText', 'RankedIsSorted']
  mc = tlc.run('algebra', 'TextFreq', tlc.cfg_text(constants=tc, invariants=tlaws, deadlock=False), timeout=1800)
  chk.add_tlc(mc, 'TextFreq/MC')
  if not mc.ok:
    chk.machinery_failure(f'TextFreq.tla violates {mc.error_name}')
  gen = tlc.run('algebra', 'TextFreq', tlc.cfg_text(constants=tc, invariants=['Emit'], deadlock=False), workers=1, timeout=1800)
  if not gen.ok:
    chk.machinery_failure(f'TextFreq export failed: {gen.error_name}')
  hs = list(gen.histories)
  sim = tlc.run('algebra', 'TextFreq', tlc.cfg_text(constants=dict(tc, NSym=3, MaxTexts=4, MaxLen=4), invariants=['Emit'], deadlock=False),
                workers=1, simulate=f'num={400 if thorough else 60}', depth=5, seed=chk.seed + 6, timeout=1800)
  hs += sim.histories
  for h in hs:
    replay_text(chk, h, tc)
    chk.replayed()
  chk.count('text_sets', len(hs))
  # 3d. thresholded retrieval
  hc = dict(Vocab={1, 2}, Scores={1, 2, 3}, Thr={0, 2, 3}, MaxExamples=2, MaxRank=2)
  hlaws = ['SameHits', 'Bounded', 'Monotone', 'FalsePositivesCount']
  mc = tlc.run('algebra', 'Thresholded', tlc.cfg_text(constants=hc, invariants=hlaws, deadlock=False), timeout=1800)
  chk.add_tlc(mc, 'Thresholded/MC')
  if not mc.ok:
    chk.machinery_failure(f'Thresholded.tla violates {mc.error_name}')
  gen = tlc.run('algebra', 'Thresholded', tlc.cfg_text(constants=hc, invariants=['Emit'], deadlock=False), workers=1, timeout=1800)
  if not gen.ok:
    chk.machinery_failure(f'Thresholded export failed: {gen.error_name}')
  hs = list(gen.histories)
  sim = tlc.run('algebra', 'Thresholded', tlc.cfg_text(constants=dict(hc, Vocab={1, 2, 3}, MaxExamples=4, MaxRank=3), invariants=['Emit'], deadlock=False),
                workers=1, simulate=f'num={400 if thorough else 60}', depth=5, seed=chk.seed + 7, timeout=1800)
  hs += sim.histories
  if not thorough:
    hs = rnd.sample(hs, min(len(hs), 500))
  for h in hs:
    replay_thresholded(chk, h, 4)
    chk.replayed()
  chk.count('thresholded_streams', len(hs))
  # 4. per-example signals
  gc = dict(NClasses=3, MaxScore=4, Thresholds={0, 2, 4})
  glaws = ['TopkMonotone', 'TopkAllAtN', 'TopkExactlyK', 'FlipPartition']
  mc = tlc.run('algebra', 'Signals', tlc.cfg_text(constants=gc, invariants=glaws, deadlock=False), timeout=1800)
  chk.add_tlc(mc, 'Signals/MC')
  if not mc.ok:
    chk.machinery_failure(f'Signals.tla violates {mc.error_name}')
  gen = tlc.run('algebra', 'Signals', tlc.cfg_text(constants=gc, invariants=['Emit'], deadlock=False), workers=1, timeout=1800)
  if not gen.ok:
    chk.machinery_failure(f'Signals export failed: {gen.error_name}')
  for h in gen.histories:
    replay_signals(chk, h)
    chk.replayed()
  chk.count('signal_cases', len(gen.histories))
  chk.add_samples([dict(tp=1, fp=2, tn=0, fn=1)])
  chk.assumptions += ['exact rationals on the specification side, float comparison with relative tolerance 1e-9 on the implementation side',
                      'square roots and log2 discounts are applied by the harness to the emitted rationals / hit positions',
                      'metrics/text.py (the one-shot text functions) cannot be imported here (it needs ml_metrics.google.tools.telemetry, absent from the tree): '
                      'the text-frequency definitions are decided on the accumulators of aggregates/text.py',
                      'the logarithms of the cross entropies are taken by the replayer (math.log, example by example) over the spec-enumerated inputs',
                      'the prevalence threshold is compared only where tpr and fpr are both defined']


if __name__ == '__main__':
  common.main('C07', body)
