"""C02 - Pipeline aggregation and slicing equal a brute-force group-by.

spec/pipeline/Slicing.tla defines the result of an aggregating pipeline as a group-by:
unsliced = the collection over all rows of all batches; for every slicer kind (single
feature, feature cross, restricted value set, fan-out slice function, mask function,
mask-with-replace) and every slice value that occurs, the collection over exactly the rows
of that slice; nothing else.  TLC checks the group-by algebra (partition, sub-sequence,
sizes add up, the unsliced entry never depends on slicers) over every stream / slicer set /
aggregate stacking of the bounded universe, and every configuration is run on the real
TreeTransform (list and numpy batches): the full result dict is compared key by key.
"""
from __future__ import annotations

import random

from harness import common, lib, tlc

common.setup_repo_path()

LAWS = ['ExactlyOneSlice', 'SubSeqLaw', 'SizesAddUp', 'UnslicedAlways']
ALL = {'a', 'b', 'ab', 'a_in1', 'b_in34', 'aorb', 'bodd', 'a_rep', 'c_inUS'}
CODES = {'US': 91, 'UK': 92}


def _aorb(x, y):
  # a one-shot generator per row (rows repeat: every row gets its own)
  yield _item(x)
  yield _item(y)


def _item(x):
  return x.item() if hasattr(x, 'item') else x


def _bodd_mask(b):
  import numpy as np
  yield 1, (np.asarray([_item(v) % 2 == 1 for v in b]),)


def _key_a(x):
  return (_item(x),)


def build(h, arrays):
  from ml_metrics._src.chainables import transform
  # both spellings of the builder calls: aggregate / add_aggregate and their documented aliases agg / add_agg
  first = transform.TreeTransform.new().agg if arrays else transform.TreeTransform.new().aggregate
  p = first(fn=lib.CollectRows(), input_keys='b', output_keys='o1', disable_slicing=bool(h['dis1']))
  if h['agg2']:
    p = (p.add_agg if arrays else p.add_aggregate)(fn=lib.CollectRows(), input_keys=('a', 'b'), output_keys='o2')
  names = {}
  for sl in sorted(h['slicers']):
    if sl == 'a':
      p = p.add_slice('a', slice_fn=_key_a) if arrays else p.add_slice('a')
      names[sl] = ('a',)
    elif sl == 'b':
      p = p.add_slice('b', slice_fn=_key_a) if arrays else p.add_slice('b')
      names[sl] = ('b',)
    elif sl == 'ab':
      p = p.add_slice(('a', 'b'), slice_fn=(lambda x, y: ((_item(x), _item(y)),)) if arrays else None)
      names[sl] = ('a', 'b')
    elif sl == 'a_in1':
      p = p.add_slice(dict(a=1))
      names[sl] = ('a',)
    elif sl == 'b_in34':
      p = p.add_slice(dict(b=(3, 4)))
      names[sl] = ('b',)
    elif sl == 'c_inUS':
      p = p.add_slice(dict(c='US'))          # one bare (multi-character) string as the allowed value
      names[sl] = ('c',)
    elif sl == 'aorb':
      p = p.add_slice(('a', 'b'), slice_name='aorb', slice_fn=_aorb)
      names[sl] = ('aorb',)
    elif sl == 'bodd':
      p = p.add_slice('b', slice_name='bodd', slice_mask_fn=_bodd_mask)
      names[sl] = ('bodd',)
    elif sl == 'a_rep':
      p = p.add_slice('a', slice_fn=_key_a if arrays else None, replace_mask_false_with=0)
      names[sl] = ('a',)
  return p, names


def _norm_rows(v):
  out = []
  for r in v:
    if isinstance(r, (tuple, list)) or hasattr(r, 'shape') and getattr(r, 'shape', ()) != ():
      out.append(tuple(int(_item(x)) for x in r))
    else:
      out.append((int(_item(r)),))
  return out


def replay(chk, h):
  import numpy as np
  from ml_metrics._src.chainables import transform, tree_fns
  # '2d': the aggregated column has two values per row, (b, b + 100) - only where b is not itself a slicing feature
  modes = [False, True]
  if not h['agg2'] and set(h['slicers']) <= {'a', 'a_in1', 'c_inUS', 'a_rep'}:
    modes.append('2d')
    if 'a_rep' not in h['slicers']:
      # 'ragged': the aggregated column is a python list of rows of different lengths, [b] * (1 + b % 3) (retrieval-style inputs)
      modes.append('ragged')
  for arrays in modes:
    batches = []
    for bt in h['stream']:
      a = [r['a'] for r in bt]
      b = [r['b'] for r in bt]
      c = ['US' if v == 1 else 'UK' for v in a]
      if arrays == '2d':
        batches.append({'a': np.array(a), 'b': np.array([[v, v + 100] for v in b]), 'c': np.array(c)})
        continue
      if arrays == 'ragged':
        batches.append({'a': a, 'b': [[v] * (1 + v % 3) for v in b], 'c': c})
        continue
      batches.append({'a': np.array(a), 'b': np.array(b), 'c': np.array(c)} if arrays else {'a': a, 'b': b, 'c': c})
    ctx = dict(kind='slicing', history=dict(stream=h['stream'], slicers=sorted(h['slicers']), agg2=h['agg2'], dis1=h['dis1']), arrays=arrays)
    cfg = f"slicers={sorted(h['slicers'])} agg2={h['agg2']} dis1={h['dis1']} batches={[[(r['a'], r['b']) for r in bt] for bt in h['stream']]} {'numpy-2d-column' if arrays == '2d' else 'ragged-list-column' if arrays == 'ragged' else 'numpy' if arrays else 'lists'}"
    kinds = '+'.join(sorted(h['slicers'])) or 'none'
    try:
      p, names = build(h, False if arrays == 'ragged' else arrays)
      it = p.make().iterate(batches)
      for _ in it:
        pass
      res = it.agg_result
    except Exception as e:  # pylint: disable=broad-exception-caught
      chk.violation(f'exception:{type(e).__name__}:{kinds}' + (':ragged-list-column' if arrays == 'ragged' else ''), f'[{cfg}] {e!r}', ctx)
      continue
    # the call interface (runner(input_iterator=...)) reports the same aggregate as iteration does
    try:
      res_call = p.make()(input_iterator=[dict(bt) for bt in batches])
    except Exception as e:  # pylint: disable=broad-exception-caught
      chk.violation(f'call-api:exception:{type(e).__name__}:' + ('empty-stream' if not batches else kinds), f'[{cfg}] runner(input_iterator=batches) raised {e!r}; '
                    f'iteration reports {res!r}', ctx)
      continue
    def _plain(r):
      return sorted((repr(k), repr(_norm_rows(v))) for k, v in dict(r).items()) if r is not None else []
    if _plain(res_call) != _plain(res):
      chk.violation(f'call-api:differs:{kinds}', f'[{cfg}] runner(input_iterator=batches) = {res_call!r}, iteration reports {res!r}', ctx)
      continue
    # the Aggregatable interface of the runner, batch by batch (create_state / update_state / get_result)
    try:
      runner = p.make()
      state = runner.create_state()
      for bt in batches:
        state = runner.update_state(state, dict(bt))
      res_steps = runner.get_result(state) if batches else res
    except Exception as e:  # pylint: disable=broad-exception-caught
      chk.violation(f'update-state-api:exception:{type(e).__name__}:{kinds}', f'[{cfg}] {e!r}', ctx)
      continue
    if batches and _plain(res_steps) != _plain(res):
      chk.violation(f'update-state-api:differs:{kinds}', f'[{cfg}] create_state / update_state per batch / get_result = {res_steps!r}, iteration reports {res!r}', ctx)
      continue
    got = {}
    res = dict(res) if res is not None else {}
    for k, v in res.items():
      if isinstance(k, transform.MetricKey):
        key = (k.metrics if isinstance(k.metrics, str) else k.metrics, tuple(k.slice.features),
               tuple(CODES.get(str(_item(x)), None) or (str(_item(x)) if isinstance(_item(x), str) else int(_item(x))) for x in k.slice.values))
      else:
        key = (k, (), ())
      got[key] = _norm_rows(v)
    want = {}
    for e in h['expected']:
      nm = () if not e['slicer'] else names[e['slicer']]
      want[(e['out'], tuple(nm), tuple(e['value']))] = [tuple(r) for r in e['rows']]
    if arrays == '2d':
      # a row (b,) is (b, b + 100); a replaced row (0,) is (0, 0)   (b is never 0 in Slicing.tla)
      want = {k: [((r[0], r[0] + 100) if r[0] else (0, 0)) for r in v] for k, v in want.items()}
    if arrays == 'ragged':
      want = {k: [tuple([r[0]] * (1 + r[0] % 3)) for r in v] for k, v in want.items()}
    if not h['stream']:
      # an empty stream has no aggregate result at all
      if got and any(v for v in got.values()):
        chk.violation(f'empty-stream:{kinds}', f'[{cfg}] result {got}', ctx)
      continue
    if arrays not in ('2d', 'ragged') and h['stream'] and not h['dis1']:
      # a numeric aggregate state (running maximum of 3 - b: 0 and negative values occur), per slice
      try:
        pm = (transform.TreeTransform.new().aggregate(fn=lib.RunningMax(), input_keys='b', output_keys='o1')
              .add_aggregate(fn=lib.NestedCount(), input_keys='b', output_keys='n1'))
        for sl in sorted(h['slicers']):
          if sl in ('a', 'a_in1'):
            pm = pm.add_slice('a', slice_fn=_key_a) if (arrays and sl == 'a') else (pm.add_slice('a') if sl == 'a' else pm.add_slice(dict(a=1)))
            break
        itm = pm.make().iterate(batches)
        for _ in itm:
          pass
        resm = dict(itm.agg_result)
      except Exception as e:  # pylint: disable=broad-exception-caught
        chk.violation(f'numeric-state:exception:{type(e).__name__}:{kinds}', f'[{cfg}] {e!r}', ctx)
        continue
      rows_all = [r for bt in h['stream'] for r in bt]
      want_max = max(3 - r['b'] for r in rows_all)
      got_max = [v for k, v in resm.items() if k == 'o1']
      # the row count kept in a nested container updated in place: one container per state
      n_bad = [(k, v) for k, v in resm.items()
               if (k == 'n1' and v != len(rows_all)) or (isinstance(k, transform.MetricKey) and k.metrics == 'n1'
                                                         and v != sum(1 for r in rows_all if r['a'] == int(_item(k.slice.values[0]))))]
      if n_bad:
        chk.violation('numeric-state:nested-container-count', f'[{cfg}] row counts {n_bad} (all rows: {len(rows_all)}; per a: '
                      f'{ {a: sum(1 for r in rows_all if r["a"] == a) for a in sorted({r["a"] for r in rows_all})} })', ctx)
        continue
      if not got_max or float(got_max[0]) != float(want_max):
        chk.violation(f'numeric-state:unsliced', f'[{cfg}] running maximum of 3 - b over all rows = {got_max}, brute force {want_max}', ctx)
        continue
      bad_slice = None
      for k, v in resm.items():
        if isinstance(k, transform.MetricKey) and k.metrics == 'o1':
          val = int(_item(k.slice.values[0]))
          w = max(3 - r['b'] for r in rows_all if r['a'] == val)
          if float(v) != float(w):
            bad_slice = (val, v, w)
      if bad_slice:
        chk.violation('numeric-state:slice', f'[{cfg}] slice a={bad_slice[0]}: running maximum {bad_slice[1]}, brute force {bad_slice[2]}', ctx)
        continue
    missing = sorted(k for k in want if k not in got)
    invented = sorted(k for k in got if k not in want)
    if missing:
      chk.violation(f'slice-dropped:{kinds}', f'[{cfg}] missing keys {missing}; got {sorted(got)}', ctx)
      continue
    if invented:
      chk.violation(f'slice-invented:{kinds}', f'[{cfg}] unexpected keys {invented}', ctx)
      continue
    for k in want:
      if got[k] != want[k]:
        what = 'unsliced' if not k[1] else 'slice'
        chk.violation(f'{what}-rows:{kinds}', f'[{cfg}] {k}: got {got[k]} want {want[k]}', ctx)
        break


def body(chk):
  thorough = chk.tier == 'thorough'
  consts = dict(MaxBatches=2, MaxRows=2, MaxSlicers=2, AllSlicers=ALL)
  mc = tlc.run('pipeline', 'Slicing', tlc.cfg_text(constants=consts, invariants=LAWS, deadlock=False), timeout=3000)
  chk.add_tlc(mc, 'Slicing/MC')
  if not mc.ok:
    chk.machinery_failure(f'Slicing.tla violates {mc.error_name}')
  # small exhaustive export + sampled larger one
  small = dict(MaxBatches=1 if not thorough else 2, MaxRows=2, MaxSlicers=1 if not thorough else 2, AllSlicers=ALL)
  gen = tlc.run('pipeline', 'Slicing', tlc.cfg_text(constants=small, invariants=['Emit'], deadlock=False), workers=1, timeout=3000)
  if not gen.ok:
    chk.machinery_failure(f'Slicing export failed: {gen.error_kind} {gen.error_name}')
  hs = list(gen.histories)
  rnd = random.Random(chk.seed)
  cap = 60000 if thorough else 900
  if len(hs) > cap:
    hs = rnd.sample(hs, cap)
    chk.coverage['exhaustive'] = False
  big = dict(MaxBatches=3, MaxRows=3, MaxSlicers=3, AllSlicers=ALL)
  sim = tlc.run('pipeline', 'Slicing', tlc.cfg_text(constants=big, invariants=['Emit'], deadlock=False), workers=1,
                simulate=f'num={600 if thorough else 90}', depth=7, seed=chk.seed + 5, timeout=1800)
  seen = set()
  for h in sim.histories:
    key = repr((h['stream'], sorted(h['slicers']), h['agg2'], h['dis1']))
    if key not in seen:
      seen.add(key)
      hs.append(h)
  for h in hs:
    replay(chk, h)
    chk.replayed()
  chk.count('configurations', len(hs))
  chk.add_samples([dict(stream=h['stream'], slicers=sorted(h['slicers'])) for h in hs[-2:]])
  chk.assumptions += ['aggregates collect the rows they are fed (so the result shows exactly which rows reached which accumulator)',
                      'rows are (a, b) pairs of small ints; batches as dicts of lists and of numpy arrays',
                      'two slicers with the same slice name are rejected at build time and therefore not combined']


if __name__ == '__main__':
  common.main('C02', body)
