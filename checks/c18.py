"""C18 - Tree views obey get/set laws and never mutate the viewed data.

spec/pipeline/TreeView.tla transcribes TreeMapView get / copy-and-set / leaf iteration /
apply; TLC checks the laws (get-after-set, frame, set-current-is-identity, SELF/SKIP,
leaves read back, apply maps exactly the leaves) over the bounded universe.  Every
behaviour (initial tree, sequence of copy-and-set operations) is replayed on the real
class; after each operation the real result, its items() and apply() are compared with
the specification and the viewed data is checked for mutation (deep equality against a
deep copy and per-container identity snapshot).  numpy arrays are placed in leaf and
container positions by a second pass of the same behaviours.
"""
from __future__ import annotations

import copy
import json

from harness import common, tlc

common.setup_repo_path()

LAWS = ['GetAfterSet', 'SelfEndIsThePath', 'Frame', 'FrameMissingStaysMissing', 'SetCurrentIsIdentity', 'SkipIsIdentity',
        'SelfReplaces', 'LeavesReadBack', 'ApplyMapsLeaves', 'ResetRestores']


AB = dict(KeyA='a', KeyB='b')
# dict keys that are the plain strings 'SELF' / 'SKIP' (not the reserved Key.SELF / Key.SKIP objects)
RESERVED = dict(KeyA='SELF', KeyB='SKIP')
# a dict key that is a tuple, ('a', 'a'), next to the key 'a': one path step, not the two steps a -> a
TUPLED = dict(KeyA='(a,a)', KeyB='a')


def pk(n):
  """Spec key name -> Python dict key."""
  if n.isdigit():
    return int(n)
  if n.startswith('('):
    return tuple(n[1:-1].split(','))
  return n


def unpk(k):
  """Python dict key -> spec key name."""
  if type(k) is tuple:      # pylint: disable=unidiomatic-typecheck
    return '(' + ','.join(str(x) for x in k) + ')'
  return str(int(k)) if isinstance(k, int) else str(k)


def _bounds(tier):
  if tier == 'thorough':
    return dict(mc=[dict(TreeDepth=1, MaxSets=1, PathLen=2, **AB), dict(TreeDepth=2, MaxSets=0, PathLen=2, **AB)],
                mc_nolaws=[dict(TreeDepth=2, MaxSets=0, PathLen=3, **AB)],
                gen=[dict(TreeDepth=1, MaxSets=1, PathLen=2, **AB), dict(TreeDepth=1, MaxSets=1, PathLen=2, **RESERVED), dict(TreeDepth=1, MaxSets=1, PathLen=2, **TUPLED)],
                sim=[dict(TreeDepth=2, MaxSets=3, PathLen=3, **AB), dict(TreeDepth=2, MaxSets=3, PathLen=3, **RESERVED), dict(TreeDepth=2, MaxSets=3, PathLen=3, **TUPLED)],
                sim_num=6000)
  return dict(mc=[dict(TreeDepth=1, MaxSets=1, PathLen=2, **AB)], mc_nolaws=[],
              gen=[dict(TreeDepth=1, MaxSets=1, PathLen=2, **AB), dict(TreeDepth=1, MaxSets=1, PathLen=2, **RESERVED), dict(TreeDepth=1, MaxSets=1, PathLen=2, **TUPLED)],
              sim=[dict(TreeDepth=2, MaxSets=3, PathLen=3, **AB), dict(TreeDepth=2, MaxSets=3, PathLen=3, **RESERVED), dict(TreeDepth=2, MaxSets=3, PathLen=3, **TUPLED)],
              sim_num=800)


# ------------------------------------------------------------------ conversions


class Err:
  def __repr__(self):
    return 'ERR'


ERR = Err()


BYTES_LEAVES = [False]      # a pass in which every leaf v is the bytes object b'<v>' (a leaf like str, not a sequence to walk into)


def to_py(t, arrays=False):
  """Spec tree -> Python data.  With arrays=True lists of leaves become numpy arrays."""
  import numpy as np
  k = t['k']
  if k == 'leaf':
    return str(t['v']).encode() if BYTES_LEAVES[0] else t['v']
  if k == 'dict':
    return {pk(n): to_py(c, arrays) for n, c in zip(t['keys'], t['kids'])}
  kids = [to_py(c, arrays) for c in t['kids']]
  if k == 'list':
    if arrays and kids and all(isinstance(x, int) for x in kids):
      return np.array(kids)
    if arrays and not kids:
      return np.zeros((0,), dtype=int)      # an empty array is a leaf like an empty list
    return kids
  if k == 'tuple':
    return tuple(kids)
  if k == 'err':
    return ERR
  raise ValueError(k)


def canon(x):
  """Python data -> comparable canonical form (dict order matters: insertion order)."""
  import numpy as np
  if isinstance(x, Err):
    return 'ERR'
  if isinstance(x, dict):
    return ('dict', tuple((unpk(k), canon(v)) for k, v in x.items()))
  if isinstance(x, np.ndarray):
    return ('list', tuple(canon(v) for v in x.tolist()))
  if isinstance(x, list):
    return ('list', tuple(canon(v) for v in x))
  if isinstance(x, tuple):
    return ('tuple', tuple(canon(v) for v in x))
  if isinstance(x, (int, np.integer)):
    return int(x)
  if isinstance(x, bytes):
    return ('bytes', x.decode())
  return ('other', repr(x))


def to_key(p):
  from ml_metrics._src.chainables import tree
  elems = []
  for e in p:
    if e['t'] == 'key':
      elems.append(pk(e['s']) if e['s'].startswith('(') else e['s'])
    elif e['t'] == 'idx':
      elems.append(tree.Index(e['i']))
    elif e['t'] == 'self':
      elems.append(tree.Key.SELF)
    else:
      elems.append(tree.Key.SKIP)
  return tree.Key(tuple(elems))


def _containers(x, acc):
  import numpy as np
  if isinstance(x, (dict, list, np.ndarray)):
    acc.append(x)
  if isinstance(x, dict):
    for v in x.values():
      _containers(v, acc)
  elif isinstance(x, (list, tuple)):
    for v in x:
      _containers(v, acc)
  return acc


def _enters_array(data, p):
  import numpy as np
  cur = data
  for e in p:
    if isinstance(cur, np.ndarray):
      return True
    try:
      cur = cur[(pk(e['s']) if e['s'].startswith('(') else e['s']) if e['t'] == 'key' else e['i']]
    except Exception:  # pylint: disable=broad-exception-caught
      return False
  return False


def leaf_fn(x):
  import numpy as np
  if isinstance(x, (int, np.integer)):
    return int(x) + 10
  if isinstance(x, bytes):
    return str(int(x.decode()) + 10).encode()
  return b'99' if BYTES_LEAVES[0] else 99


# ------------------------------------------------------------------ replay


def _check_view(chk, data, want_leaves, want_applied, ctx, tag):
  """items() and apply() of the real view against the spec."""
  from ml_metrics._src.chainables import tree
  import numpy as np
  view = tree.TreeMapView(data)
  if tag == 'arrays':
    # numpy arrays are leaves for iteration (documented), so the spec's leaf list does not apply
    # literally; require that iteration works and every listed path reads back its value.
    try:
      items = list(view.items())
    except Exception as e:  # pylint: disable=broad-exception-caught
      root = 'root-array' if isinstance(data, np.ndarray) else 'nested'
      chk.violation(f'{tag}:items:exception:{type(e).__name__}:{root}', f'{e!r} on {data!r}', ctx)
      return False
    for key, v in items:
      if canon(view[key]) != canon(v):
        chk.violation(f'{tag}:items-readback', f'{key!r} reads {view[key]!r}, items() said {v!r}', ctx)
        return False
    flat_spec = sorted(repr(canon(to_py(sub))) for _, sub in want_leaves)
    flat_got = []
    for _, v in items:
      if isinstance(v, np.ndarray) and v.size == 0:
        flat_got.append(repr(canon([])))
      elif isinstance(v, np.ndarray):
        flat_got += [repr(int(x)) for x in v.tolist()]
      else:
        flat_got.append(repr(canon(v)))
    if sorted(flat_got) != flat_spec:
      chk.violation(f'{tag}:items-leaf-multiset', f'items() of {data!r} lists {sorted(flat_got)}, leaves are {flat_spec}', ctx)
      return False
    return True
  try:
    items = list(view.items())
  except Exception as e:  # pylint: disable=broad-exception-caught
    chk.violation(f'{tag}:items:exception:{type(e).__name__}', f'{e!r} on {data!r}', ctx)
    return False
  def pel(k):
    if type(k) is tuple:      # pylint: disable=unidiomatic-typecheck
      return unpk(k)
    if isinstance(k, int):
      return ('#', int(k))
    if isinstance(k, str) and k.isdigit():
      return ('#', int(k))
    return str(k)
  got = [(tuple(pel(k) for k in key), canon(v)) for key, v in items]
  want = []
  for p, sub in want_leaves:
    want.append((tuple(('#', e['i']) if e['t'] == 'idx' else ('SELF' if e['t'] == 'self' else pel(e['s'])) for e in p),
                 canon(to_py(sub))))
  if got != want:
    chk.violation(f'{tag}:items', f'items() of {data!r}: got {got} want {want}', dict(ctx, got=got, want=want))
    return False
  # every listed path reads back its leaf
  for key, v in items:
    back = view[key]
    if canon(back) != canon(v):
      chk.violation(f'{tag}:items-readback', f'{key!r} reads {back!r}, items() said {v!r}', ctx)
      return False
  # multi-key reads are aligned with the keys: the listed paths, their bare single steps (a plain 'SELF' string is a dict key,
  # Key.SELF is the whole tree - equal as strings, different keys), the whole tree, and a path asked for twice
  multi = []
  for key, _ in items:
    multi.append(key)
    if len(key) == 1 and not isinstance(key[0], tuple):
      multi.append(key[0])
  self_at = len(multi[:6])
  multi = multi[:6] + [tree.Key.SELF] + multi[:2]
  if len(multi) >= 2:
    try:
      got_multi = view[tuple(multi)]
      single = tuple(view[k] for k in multi)
    except Exception as e:  # pylint: disable=broad-exception-caught
      chk.violation(f'{tag}:multi-key:exception:{type(e).__name__}', f'{e!r}: {multi!r} on {data!r}', ctx)
      return False
    if len(got_multi) != len(single) or any(canon(a) != canon(b) for a, b in zip(got_multi, single)) or canon(got_multi[self_at]) != canon(data):
      chk.violation(f'{tag}:multi-key-read', f'view[{multi!r}] of {data!r} = {got_multi!r}, one key at a time {single!r}', ctx)
      return False
  before = copy.deepcopy(data)
  try:
    applied = tree.TreeMapView(data, map_fn=leaf_fn).apply()
  except Exception as e:  # pylint: disable=broad-exception-caught
    chk.violation(f'{tag}:apply:exception:{type(e).__name__}', f'{e!r} on {data!r}', ctx)
    return False
  if canon(applied) != canon(to_py(want_applied)):
    chk.violation(f'{tag}:apply', f'apply() of {data!r}: got {applied!r} want {to_py(want_applied)!r}', ctx)
    return False
  if canon(data) != canon(before):
    chk.violation(f'{tag}:apply-mutates', f'apply() changed the viewed data {before!r} -> {data!r}', ctx)
    return False
  return True


def _replay(chk, h, arrays, tag=None):
  from ml_metrics._src.chainables import tree
  tag = tag or ('arrays' if arrays else 'plain')
  data = to_py(h['tree0'], arrays)
  ctx = dict(kind='treeview', history=h, arrays=arrays)
  if not _check_view(chk, data, h['leaves0'], h['applied0'], dict(ctx, step=-1), tag):
    return
  originals = [(data, copy.deepcopy(data))]
  for i, st in enumerate(h['steps']):
    key = to_key(st['p'])
    value = to_py(st['v'])
    snapshot = [(c, copy.deepcopy(c)) for c in _containers(data, [])]
    value_before = copy.deepcopy(value)
    sctx = dict(ctx, step=i)
    try:
      new = tree.TreeMapView(data).copy_and_set(key, value).data
    except (KeyError, TypeError, ValueError, IndexError, AssertionError):
      new = ERR
    except Exception as e:  # pylint: disable=broad-exception-caught
      chk.violation(f'{tag}:set:exception:{type(e).__name__}', f'{e!r}: set {key!r} on {data!r}', sctx)
      return
    want = to_py(st['result'])
    if arrays and new is ERR and want is not ERR and _enters_array(data, st['p']):
      # numpy arrays hold scalars only and cannot be appended to: a rejected set is legitimate
      return
    if canon(new) != canon(want):
      chk.violation(f'{tag}:set-result', f'copy_and_set({key!r}, {value!r}) on {data!r}: got {new!r} want {want!r}',
                    dict(sctx, got=repr(new), want=repr(want)))
      return
    # the viewed data, at every depth, is untouched (identity-preserving snapshot)
    for obj, twin in snapshot:
      if canon(obj) != canon(twin):
        chk.violation(f'{tag}:mutation', f'copy_and_set({key!r}, {value!r}) wrote into the viewed data: {twin!r} -> {obj!r}',
                      sctx)
        return
    if canon(value) != canon(value_before):
      chk.violation(f'{tag}:mutation-of-value', f'the assigned value was modified: {value_before!r} -> {value!r}', sctx)
      return
    if new is ERR:
      continue
    # get-after-set on the real object
    plain = all(e['t'] in ('key', 'idx') for e in st['p'])
    if plain:
      back = tree.TreeMapView(new)[key]
      if canon(back) != canon(value):
        chk.violation(f'{tag}:get-after-set', f'{key!r} reads {back!r} after setting {value!r}', sctx)
        return
    if not _check_view(chk, new, st['leaves'], st['applied'], sctx, tag):
      return
    originals.append((new, copy.deepcopy(new)))
    data = new
  _update_routes(chk, h, arrays, tag, ctx)
  # earlier versions are still what they were (later sets never leak into them)
  for obj, twin in originals:
    if canon(obj) != canon(twin):
      chk.violation(f'{tag}:mutation-of-earlier-version', f'{twin!r} became {obj!r} after later copy_and_set calls', ctx)
      return


def _update_routes(chk, h, arrays, tag, ctx):
  """copy_and_update with a sequence of (key, value) pairs is that sequence of copy-and-set operations, in order - also when a key
  occurs twice with a write below it in between; with a mapping (and `view | mapping`) it is the same for distinct keys."""
  from ml_metrics._src.chainables import tree
  steps = h['steps']
  if not steps or steps[0]['result']['k'] == 'err':
    return
  cases = []
  p1, v1 = steps[0]['p'], to_py(steps[0]['v'])
  if all(e['t'] in ('key', 'idx') for e in p1) and isinstance(v1, (dict, list)):
    # TreeView.tla's ResetRestores: set p1, write below p1, set p1 to the first value again - the tree after the first set
    below = dict(t='key', s=unpk(next(iter(v1)))) if isinstance(v1, dict) and v1 else dict(t='idx', i=len(v1))
    if not isinstance(v1, dict) or v1:
      cases.append(('pairs:key-twice', [(to_key(p1), v1), (to_key(p1 + [below]), 7), (to_key(p1), copy.deepcopy(v1))], steps[0]['result']))
      chk.coverage['update_key_twice_cases'] = chk.coverage.get('update_key_twice_cases', 0) + 1
  if len(steps) >= 2 and all(st['result']['k'] != 'err' for st in steps):
    pairs = [(to_key(st['p']), to_py(st['v'])) for st in steps]
    cases.append(('pairs', pairs, steps[-1]['result']))
    try:
      if len({k for k, _ in pairs}) == len(pairs):
        cases.append(('mapping', dict(pairs), steps[-1]['result']))
    except TypeError:
      pass
  for name, other, want in cases:
    data = to_py(h['tree0'], arrays)
    before = copy.deepcopy(data)
    uctx = dict(ctx, route=name)
    try:
      new = tree.TreeMapView(data).copy_and_update(other).data
      alias = (tree.TreeMapView(data) | other).data if name == 'mapping' else new
    except (KeyError, TypeError, ValueError, IndexError, AssertionError) as e:
      if arrays:
        continue      # arrays reject some sets (see _replay)
      chk.violation(f'{tag}:update:{name}:rejected', f'copy_and_update({other!r}) on {data!r}: {e!r}; one set at a time succeeds', uctx)
      return
    except Exception as e:  # pylint: disable=broad-exception-caught
      chk.violation(f'{tag}:update:{name}:exception:{type(e).__name__}', f'{e!r}: copy_and_update({other!r}) on {data!r}', uctx)
      return
    if canon(new) != canon(to_py(want)) or canon(alias) != canon(new):
      chk.violation(f'{tag}:update:{name}', f'copy_and_update({other!r}) on {data!r}: got {new!r}, the sets one after the other give {to_py(want)!r}', uctx)
      return
    if canon(data) != canon(before):
      chk.violation(f'{tag}:update:{name}:mutation', f'copy_and_update({other!r}) changed the viewed data {before!r} -> {data!r}', uctx)
      return


def value_kinds(chk):
  """GetAfterSet for values that are themselves tuple-like: a value is stored as ONE value whatever its type (a named
  tuple is not a tuple of several outputs), through a bare key, a Key path and a 1-tuple of keys."""
  import collections
  from ml_metrics._src.chainables import tree
  Score = collections.namedtuple('Score', ['value'])
  Pair = collections.namedtuple('Pair', ['lo', 'hi'])
  for val in (Score(0.5), Pair(1, 2), (3,), (), tree.Key.new('x', 'y')):
    for how, key in (('bare key', 'score'), ('key path', tree.Key.new('score')), ('1-tuple of keys', ('score',))):
      if how == '1-tuple of keys' and type(val) is tuple:      # pylint: disable=unidiomatic-typecheck
        continue        # a plain tuple with a tuple of keys means several outputs (documented)
      ctx = dict(kind='treeview-value-kinds', value=repr(val), how=how)
      try:
        new = tree.TreeMapView({'a': 1}).copy_and_set(key, val).data
        back = tree.TreeMapView(new)['score']
      except Exception as e:  # pylint: disable=broad-exception-caught
        chk.violation(f'value-kinds:exception:{type(e).__name__}', f'copy_and_set({key!r}, {val!r}) on {{"a": 1}}: {e!r}', ctx)
        continue
      chk.replayed()
      if back != val or type(back) is not type(val):
        chk.violation('value-kinds:get-after-set', f'copy_and_set({key!r}, {val!r}) then read "score": {back!r}', ctx)


def root_leaves(chk):
  """TreeView.tla's Leaves / ApplyMapsLeaves for a tree that is a single leaf: it is listed once, under SELF, reads back and is
  mapped by apply() - whatever its value, also a falsy one (nested falsy leaves are listed and mapped)."""
  from ml_metrics._src.chainables import tree
  for leaf in (5, 0, 0.0, False, '', 'x', b''):
    ctx = dict(kind='treeview-root-leaf', leaf=repr(leaf))
    try:
      view = tree.TreeMapView(leaf)
      keys = list(view.keys())
      nested = list(tree.TreeMapView({'a': leaf}).keys())
      applied = tree.TreeMapView(leaf, map_fn=lambda v: ('mapped', v)).apply()
      nested_applied = tree.TreeMapView({'a': leaf}, map_fn=lambda v: ('mapped', v)).apply()
    except Exception as e:  # pylint: disable=broad-exception-caught
      chk.violation(f'root-leaf:exception:{type(e).__name__}', f'{leaf!r}: {e!r}', ctx)
      continue
    chk.replayed()
    kind = 'falsy' if not leaf else 'truthy'
    if len(nested) != 1 or nested_applied != {'a': ('mapped', leaf)}:
      chk.violation(f'root-leaf:nested:{kind}', f'{{"a": {leaf!r}}}: keys {nested!r}, apply {nested_applied!r}', ctx)
    elif len(keys) != 1 or view[keys[0]] != leaf or type(view[keys[0]]) is not type(leaf):
      chk.violation(f'root-leaf:not-listed:{kind}', f'TreeMapView({leaf!r}).keys() = {keys!r}; a nested {leaf!r} is listed once', ctx)
    elif applied != ('mapped', leaf):
      chk.violation(f'root-leaf:not-mapped:{kind}', f'TreeMapView({leaf!r}, map_fn).apply() = {applied!r}; a nested {leaf!r} is mapped', ctx)


def aliased_subtrees(chk):
  """TreeView.tla's trees are values: the same sub-container OBJECT referenced from several places of a tree (no cycle) is a
  subtree at each of them - listing, reading back and apply() agree with the deep-copied (alias-free) tree."""
  from ml_metrics._src.chainables import tree
  s, l = {'x': 1, 'y': [2, 3]}, [4, 5]
  for name, data in (('dict-of-shared', {'a': s, 'b': {'c': s, 'd': l}, 'e': (l, 6)}), ('list-of-shared', [l, l, {'k': l}]),
                     ('same-leaf-container-twice', {'p': l, 'q': l})):
    twin = copy.deepcopy(data)            # deepcopy keeps the sharing: rebuild without it
    plain = json.loads(json.dumps(data)) if name != 'dict-of-shared' else {'a': json.loads(json.dumps(s)), 'b': {'c': json.loads(json.dumps(s)), 'd': list(l)}, 'e': (list(l), 6)}
    ctx = dict(kind='treeview-aliased', tree=name)
    try:
      keys, keys_plain = list(tree.TreeMapView(data).keys()), list(tree.TreeMapView(plain).keys())
      vals = [tree.TreeMapView(data)[k] for k in keys]
      applied = tree.TreeMapView(data, map_fn=leaf_fn).apply()
      applied_plain = tree.TreeMapView(plain, map_fn=leaf_fn).apply()
    except Exception as e:  # pylint: disable=broad-exception-caught
      chk.violation(f'aliased:exception:{type(e).__name__}', f'{name}: {e!r}', ctx)
      continue
    chk.replayed()
    if [repr(k) for k in keys] != [repr(k) for k in keys_plain]:
      chk.violation('aliased:leaves', f'{name}: {data!r} lists {keys!r}; the same tree without shared objects lists {keys_plain!r}', ctx)
    elif canon(applied) != canon(applied_plain):
      chk.violation('aliased:apply', f'{name}: apply() gives {applied!r}; without shared objects {applied_plain!r}', ctx)
    elif canon(data) != canon(twin):
      chk.violation('aliased:mutation', f'{name}: the viewed data changed: {twin!r} -> {data!r}', ctx)
    del vals


def body(chk):
  b = _bounds(chk.tier)
  value_kinds(chk)
  root_leaves(chk)
  aliased_subtrees(chk)
  chk.coverage['bounds'] = b
  for c in b['mc']:
    mc = tlc.run('pipeline', 'TreeView', tlc.cfg_text(constants=c, invariants=LAWS, view='View', deadlock=False),
                 coverage=True, timeout=3000)
    chk.add_tlc(mc, f'TreeView/MC/{c}')
    if not mc.ok:
      chk.machinery_failure(f'TreeView.tla violates {mc.error_kind} {mc.error_name}')
    if c['MaxSets'] and tlc.require_covered(mc, ['SetOp']):
      chk.machinery_failure('vacuous model: SetOp never taken')
  for c in b['mc_nolaws']:
    mc = tlc.run('pipeline', 'TreeView',
                 tlc.cfg_text(constants=c, invariants=[l for l in LAWS if not l.startswith('Frame')], view='View',
                              deadlock=False), timeout=3000)
    chk.add_tlc(mc, f'TreeView/MC-long-paths/{c}')
    if not mc.ok:
      chk.machinery_failure(f'TreeView.tla violates {mc.error_kind} {mc.error_name}')
  hs = []
  for c in b['gen']:
    gen = tlc.run('pipeline', 'TreeView', tlc.cfg_text(constants=c, invariants=['Emit'], deadlock=False),
                  workers=1, timeout=1800)
    if not gen.ok:
      chk.machinery_failure(f'TreeView export failed: {gen.error_kind} {gen.error_name}')
    hs += list(gen.histories)
  chk.count('behaviours_exhaustive', len(hs))
  for c in b['sim']:
    sim = tlc.run('pipeline', 'TreeView', tlc.cfg_text(constants=c, invariants=['Emit'], deadlock=False),
                  workers=1, timeout=900, simulate=f'num={b["sim_num"]}', depth=c['MaxSets'] + 1, seed=chk.seed + 3)
    chk.count('behaviours_simulated', len(sim.histories))
    hs += sim.histories
  ok_sets = sum(1 for h in hs for s in h['steps'] if s['result']['k'] != 'err')
  err_sets = sum(1 for h in hs for s in h['steps'] if s['result']['k'] == 'err')
  chk.coverage['successful_sets'] = ok_sets
  chk.coverage['rejected_sets'] = err_sets
  if not ok_sets or not err_sets:
    chk.machinery_failure('behaviours do not exercise both successful and rejected sets')
  n_bytes = [0]
  for h in hs:
    _replay(chk, h, arrays=False)
    _replay(chk, h, arrays=True)
    if n_bytes[0] < (400 if chk.tier == 'quick' else 4000):
      n_bytes[0] += 1
      BYTES_LEAVES[0] = True
      try:
        _replay(chk, h, arrays=False, tag='bytes-leaves')
      finally:
        BYTES_LEAVES[0] = False
    chk.replayed()
  chk.coverage['exhaustive'] = True
  small = [h for h in hs if len(str(h)) < 1500 and h['steps'] and h['steps'][0]['result']['k'] != 'err']
  chk.add_samples(small[:2])
  chk.assumptions += [
      'trees over keys {a,b}, leaves {1,2}, sequences of length <=2 (<=3 after appends), depth <=2 (+2 after sets)',
      'path elements: string keys, tree.Index 0..2, Key.SELF and Key.SKIP as single-element paths; negative indices and Literal keys are not in the universe',
      'in the arrays pass, lists of leaf ints are numpy arrays (read and copy-on-write through arrays)',
  ]


if __name__ == '__main__':
  common.main('C18', body)
