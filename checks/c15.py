"""C15 - The prefetching generator protocol delivers the generator faithfully.

spec/queue/Prefetch.tla is the property-level specification of the client-visible protocol
(init_generator / next_batch_from_generator / stop / shutdown with overlapping requests and
the prefetch thread).  TLC model-checks it (ordering, single end marker, completeness) and
validates recorded executions of the REAL PrefetchedCourierServer against it: the request
handlers run on scheduler-managed threads (random schedules and bounded-preemption
exploration), every protocol event is logged, and Trace_Prefetch.tla must explain each
trace; an execution the scheduler proves stuck is a violation too.
"""
from __future__ import annotations

import random

from harness import common, prefetch, sched, tlc, tracecheck

common.setup_repo_path()

REQS = {'r1', 'r2'}
CONSTS = dict(MaxGens=3, MaxLen=6, Prefetch=2, MaxK=5, Reqs=REQS)


def scenarios(tier):
  out = []
  for p in (1, 2):
    for k in (1, 2, 3):
      for n in (0, 1, 2, 3):
        out.append(dict(name=f'one-client p{p} k{k} n{n}', prefetch=p, clients=[dict(name='r1', gen=(n, 0), k=k)]))
        for f in range(1, n + 2):
          out.append(dict(name=f'one-client p{p} k{k} n{n} fail{f}', prefetch=p, clients=[dict(name='r1', gen=(n, f), k=k)]))
  # a batch larger than twice the prefetch size over a generator long enough to drain the queue twice within one request
  for p, k, n in ((1, 3, 4), (1, 3, 5), (2, 5, 6)):
    out.append(dict(name=f'one-client p{p} k{k} n{n} long', prefetch=p, clients=[dict(name='r1', gen=(n, 0), k=k)]))
  for n in (1, 2, 3):
    out.append(dict(name=f'shutdown n{n}', prefetch=1, clients=[dict(name='r1', gen=(n, 0), k=1)], shutdown=True))
    out.append(dict(name=f're-init n{n}', prefetch=1, clients=[dict(name='r1', gen=(n, 0), k=1), dict(name='r2', gen=(2, 0), k=2)]))
  for n in (1, 2):
    # two requests wait on the same (slow) generator when it is stopped
    out.append(dict(name=f'two-waiters shutdown n{n}', prefetch=1, shutdown=True,
                    clients=[dict(name='r1', gen=(n, 0), k=1), dict(name='r2', gen=None, k=1, wait_install=True)]))
  out.append(dict(name='next without generator', prefetch=1, clients=[dict(name='r1', gen=None, k=1, max_calls=1)]))
  return out


def foreground_shutdown(chk):
  """A server run in the foreground (run_until_shutdown() called by the owning thread, as a worker binary does - no
  start()): spec/dist/ServerLife.tla with Foreground = TRUE says a requested shutdown is carried out only if stopping
  the transport does not depend on self._thread.  Real threads, in-process transport: a request is blocked on a slow
  generator, the shutdown is requested; the request must return and the transport must stop."""
  import threading
  import time
  import types as pytypes
  from harness import fakecourier
  from ml_metrics._src.chainables import courier_server, lazy_fns
  for snt, expect_ok in ((True, False), (False, True)):
    r = tlc.run('dist', 'ServerLife', tlc.cfg_text(constants=dict(Scripts='<- mc_Scripts', MaxThreads=2, JoinFirst=True, Foreground=True, StopNeedsThread=snt),
                                                   invariants=['OneServingThread', 'Settled'], deadlock=False),
                mc_defs=dict(mc_Scripts='[a |-> <<"shutdown">>]'), timeout=600)
    chk.add_tlc(r, f'ServerLife/foreground/StopNeedsThread={snt}')
    if r.ok != expect_ok:
      chk.machinery_failure(f'ServerLife.tla foreground, StopNeedsThread={snt}: expected {"ok" if expect_ok else "Settled to fail"}, got {r.error_name or "ok"}')
  saved = (courier_server.courier, courier_server.signal, courier_server.CourierServer.__del__)
  courier_server.courier = fakecourier
  courier_server.signal = pytypes.SimpleNamespace(signal=lambda *a, **k: None, SIGINT=2, SIGTERM=15, SIGABRT=6)
  courier_server.CourierServer.__del__ = lambda self: None
  fakecourier.BOARD.reset()
  try:
    for prefetch in (1, 2):
      srv = courier_server.PrefetchedCourierServer(f'fg-{prefetch}-{time.time_ns()}', prefetch_size=prefetch)
      gate = threading.Event()

      def slow():
        yield 1
        gate.wait(20)
        yield 2

      fg = threading.Thread(target=srv.run_until_shutdown, daemon=True)
      fg.start()
      t0 = time.time()
      while not (srv._server is not None and srv._server.has_started) and time.time() - t0 < 3:
        time.sleep(0.005)
      srv._init_iterator(lazy_fns.trace(slow)())
      box = {}

      def request():
        try:
          box['first'] = lazy_fns.pickler.loads(srv._next_batch(1))
          box['second'] = lazy_fns.pickler.loads(srv._next_batch(1))      # blocks: the generator waits for the gate
        except Exception as e:  # pylint: disable=broad-exception-caught
          box['error'] = repr(e)

      rq = threading.Thread(target=request, daemon=True)
      rq.start()
      time.sleep(0.15)
      srv._request_shutdown()
      rq.join(3)
      gate.set()          # the in-flight next() of the generator may finish now (the prefetch thread is joined by the shutdown)
      fg.join(3)
      transport_up = bool(srv._server is not None and srv._server.has_started)
      chk.replayed()
      ctx = dict(kind='foreground-shutdown', prefetch=prefetch, request_returned=not rq.is_alive(), serving_loop_ended=not fg.is_alive(),
                 transport_up=transport_up, answers={k: repr(v)[:120] for k, v in box.items()})
      gate.set()
      if rq.is_alive():
        chk.violation('foreground-server:shutdown:request-left-blocked',
                      f'[prefetch={prefetch}] a next_batch request blocked on a slow generator is still blocked 3 s after the shutdown request '
                      f'(serving loop ended: {not fg.is_alive()}, transport still up: {transport_up})', ctx)
      elif transport_up:
        chk.violation('foreground-server:shutdown:transport-left-running', f'[prefetch={prefetch}] the serving loop ended but the transport server was not stopped', ctx)
  finally:
    courier_server.courier, courier_server.signal, courier_server.CourierServer.__del__ = saved
    fakecourier.BOARD.reset()


def client_loop_part(chk):
  """The documented client loop itself (CourierClient.async_iterate over the in-process transport, real server): the
  elements a generator produced before it failed reach the consumer before the failure does; a clean end carries the
  return value."""
  import asyncio
  import queue as _queue
  from harness import dist, lib
  from ml_metrics._src.chainables import lazy_fns
  from ml_metrics._src.utils import courier_utils
  for prefetch in (1, 2):
    for bsz in (1, 2, 3):
      for n, fail, ret in ((3, 0, 'done'), (3, 2, 'done'), (3, 3, 'done'), (4, 4, 'done'), (1, 1, 'done'), (5, 3, 'done'),
                           (2, 0, 0), (4, 0, ''), (0, 0, False), (1, 0, [])):      # a return value is a value whatever its truth
        with dist.cluster(1, prefetch=prefetch, iterate_batch_size=bsz, heartbeat_threshold=1e7) as c:
          worker = c.pool.all_workers[0]
          got, rq = [], _queue.SimpleQueue()

          async def consume():
            task = courier_utils.GeneratorTask.new(lazy_fns.trace(lib.failing_range)(n, fail, ret))
            async for x in worker.async_iterate(task, generator_result_queue=rq):
              got.append(x)

          def run():
            c.pool.wait_until_alive(deadline_secs=600)
            asyncio.run(consume())
            return True

          status, val = dist.run_with_deadline(run, 20)
        chk.replayed()
        want = list(range(fail - 1 if fail else n))
        cfg = f'client loop prefetch={prefetch} batch={bsz} generator of {n} elements' + (f' failing at its element {fail}' if fail else '')
        ctx = dict(kind='prefetch-client-loop', prefetch=prefetch, batch=bsz, n=n, fail=fail, got=got)
        if status == 'hung':
          chk.violation('client-loop:hung', f'[{cfg}] no end within the deadline, received {got}', ctx)
        elif fail and (status != 'raised' or 'generator fails' not in repr(val)):
          chk.violation('client-loop:failure-not-delivered', f'[{cfg}] ended with {status} {val!r}, received {got}', ctx)
        elif not fail and status != 'ok':
          chk.violation('client-loop:unexpected-error', f'[{cfg}] {val!r}', ctx)
        elif not fail and (lambda vs: len(vs) != 1 or vs[0] != ret or type(vs[0]) is not type(ret))(rets := [rq.get() for _ in range(rq.qsize())]):
          chk.violation('client-loop:return-value' + ('' if ret else ':falsy'), f'[{cfg}] the generator returns {ret!r}; the result queue received '
                        f'{rets!r} (elements {got})', ctx)
        elif got != want:
          chk.violation('client-loop:elements' + (':before-failure' if fail else ''), f'[{cfg}] received {got}, the generator produced {want}' + (' before failing' if fail else ''), ctx)


def body(chk):
  foreground_shutdown(chk)
  client_loop_part(chk)
  # 1. the specification itself
  mc = tlc.run('queue', 'Prefetch',
               tlc.cfg_text(constants=dict(MaxGens=2, MaxLen=2, Prefetch=1, MaxK=2, Reqs={'r1'}),
                            invariants=['Ordered', 'FailPrefix', 'OneMarker', 'CompleteOnStop'], deadlock=False),
               coverage=True, timeout=1800)
  chk.add_tlc(mc, 'Prefetch/MC')
  if not mc.ok:
    chk.machinery_failure(f'Prefetch.tla violates {mc.error_kind} {mc.error_name}')
  missing = tlc.require_covered(mc, ['Yield', 'GenEnd', 'Install', 'InitRet', 'NextRet', 'Stop', 'Shutdown'])
  if missing:
    chk.machinery_failure(f'vacuous Prefetch model: {missing}')
  # 2. executions of the real server
  rnd = random.Random(chk.seed)
  per = 3 if chk.tier == 'quick' else 25
  traces, meta = [], []
  from harness import qcheck
  runs = []
  for sc in scenarios(chk.tier):
    for j in range(per):
      seed = chk.seed * 1000003 + len(runs)
      runs.append((sc, seed, prefetch.run_scenario(sc, sched.Random(random.Random(seed), stickiness=rnd.choice([0.0, 0.4, 0.8])))))
    # systematic part: depth-first over the schedules with at most 2 preemptions
    if len(sc['clients']) > 1 or sc.get('shutdown') or any((cl.get('gen') or (0, 0))[1] for cl in sc['clients']):
      budget = 25 if chk.tier == 'quick' else 400
      for o, choices in qcheck.explore(None, bound=2, max_runs=budget, rnd=rnd, run=lambda pol, sc=sc: prefetch.run_scenario(sc, pol)):
        runs.append((sc, 'dfs', o))
  chk.coverage['executions'] = len(runs)
  for sc, seed, o in runs:
      chk.replayed()
      two = len(sc['clients']) > 1
      shared = two and any(cl.get('gen') is None for cl in sc['clients'])    # two requesters reading ONE generator
      kind = 'two-waiters' if shared else 'two-clients' if two else ('shutdown' if sc.get('shutdown') else 'one-client')
      ctx = dict(kind='prefetch', scenario=sc, schedule=o['schedule'], run_seed=seed, streams=o['streams'], ends=o['ends'])
      if o['errors']:
        chk.violation(f'handler-exception:{kind}', f'[{sc["name"]}] {o["errors"]}', ctx)
        continue
      if o['failure'] is not None:
        blocked = o['blocked']
        who = 'request' if any(t in ('r1', 'r2') for t in blocked) else 'prefetch-thread'
        chk.violation(f'blocked-forever:{who}:{kind}', f'[{sc["name"]}] {o["failure"]}', ctx)
        continue
      traces.append(o['events'])
      meta.append((sc, ctx, kind))
  accepted, rejected, res = tracecheck.validate('queue', 'Trace_Prefetch', traces, CONSTS, explain=6)
  chk.add_tlc(res, 'Trace_Prefetch')
  chk.coverage['traces_recorded'] = len(traces)
  chk.coverage['traces_accepted'] = len(accepted)
  for i, info in rejected.items():
    sc, ctx, kind = meta[i - 1]
    ev = info.get('event') or {}
    what = ev.get('ev', '?')
    detail = ''
    if what == 'NextRet':
      detail = f":{ev.get('mk')}"
    chk.violation(f'trace-rejected:{kind}:{what}{detail}',
                  f'[{sc["name"]}] no action of Prefetch.tla explains event {info.get("line")}: {ev}; before it: {info.get("prefix")}',
                  dict(ctx, rejected_at=info))
  # binding demonstration: a corrupted trace must be rejected
  good = [t for i, t in enumerate(traces, 1) if i in accepted and any(e['ev'] == 'NextRet' and e['n'] > 0 for e in t)]
  if good:
    bad = [dict(e) for e in good[0]]
    for e in bad:
      if e['ev'] == 'NextRet' and e['n'] > 0:
        e['items'] = [[x[0], x[1] + 1] for x in e['items']]
        break
    dropped = [e for e in good[0] if e['ev'] != 'Yield']
    acc2, rej2, _ = tracecheck.validate('queue', 'Trace_Prefetch', [bad, dropped], CONSTS, explain=0)
    chk.coverage['corrupted_traces_rejected'] = 2 - len(acc2)
    if acc2:
      chk.machinery_failure('Trace_Prefetch accepts a corrupted trace: the trace specification does not bind')
  chk.add_samples([traces[0][:14]] if traces else [])
  chk.assumptions += [
      'request handlers are called directly on scheduler-managed threads (no transport); the client loop is the '
      'documented one: init_generator, then next_batch until a batch carries an end marker',
      'generators are harness iterators yielding (g, i); their failure is a non-skippable exception',
  ]


if __name__ == '__main__':
  common.main('C15', body)
