"""C14 - Remote evaluation is observationally the same as local evaluation.

spec/remote/Remote.tla: server object table, client references, requests as Call / Handle /
Ret with handlers of concurrent clients interleaving, shutdown window.  TLC checks: only
values, exceptions and references travel; a remote iterator hands out every element exactly
once over all clients, gap-free and in order per client; exhaustion is stable and only at
the end; server-side state is shared (counter linearizable); in the shutdown window the only
error is the retriable TimeoutError; every request is answered.
Binding: (1) every single-client behaviour TLC enumerates is run on the real CourierServer /
CourierClient / RemoteObject / RemoteIterator over the in-process transport next to a local
twin object: each answer must equal the spec's and the twin's (value, or exception type and
message).  (2) every expression of LazyEval.tla's universe is evaluated through the client
and locally.  (3) executions with 2-3 concurrent client threads on shared references are
recorded (Call / Ret) and validated by TLC against Trace_Remote.tla, all invariants
evaluated at every step.  (4) RemoteIteratorQueue with concurrent consumers.
"""
from __future__ import annotations

import collections
import random
import threading

from harness import common, dist, lazylib, remotelib, tlc, tracecheck

common.setup_repo_path()

INVS = ['OnlyValuesTravel', 'IterExactlyOnce', 'ExhaustionStable', 'StopOnlyAtEnd', 'CounterLinearizable']
ERR_TYPES = {'ValueError': ValueError, 'IndexError': IndexError, 'AttributeError': AttributeError,
             'StopIteration': StopIteration, 'TimeoutError': TimeoutError}


def _outcome(fn):
  try:
    r = fn()
    if isinstance(r, BaseException):      # an exception object as a value: compared by type and message
      return ('ok', ('exception-object', type(r).__name__, str(r)))
    return ('ok', r)
  except StopIteration as e:
    return ('err', 'StopIteration', str(e))
  except Exception as e:  # pylint: disable=broad-exception-caught
    return ('err', type(e).__name__, str(e))


def _has_tick(e):
  if e['t'] == 'lit':
    return False
  if e['t'] == 'call':
    return e['f'] == 'tick' or any(_has_tick(a) for a in e['args'])
  return _has_tick(e['e'])


def _cached_pure(e):
  """memoised and eager meanings coincide only when no cached node contains tick"""
  if e['t'] == 'lit':
    return True
  if e['t'] == 'call':
    return (not e['c'] or not _has_tick(e)) and all(_cached_pure(a) for a in e['args'])
  return _cached_pure(e['e'])


def _spec_resp(r):
  if r['k'] == 'int':
    return ('value', r['n'])
  if r['k'] == 'ref':
    return ('ref', r['n'])
  return ('err', r['e'])


import contextlib


def replay_history(chk, h, l, shared=None):
  """One single-client behaviour on the real server next to a local twin.  Behaviours without a
  shutdown reuse one server (`shared`); the others get a server of their own."""
  steps = h['hist']['c1']
  state = 'up'
  cm = contextlib.nullcontext(shared) if shared is not None else remotelib.server_and_client('srv')
  with cm as (mods, server, client):
    rem = remotelib.Remote(mods, client, l)
    twins = {}
    try:
      for j, st in enumerate(steps):
        req, want, sh = st['req'], _spec_resp(st['resp']), st['sh']
        ctx = dict(kind='remote', history=h, step=j)
        if sh == 'shutting' and state == 'up':
          remotelib.enter_shutting(server)
          state = 'shutting'
        if sh == 'stopped' and state != 'stopped':
          if state == 'up':
            server._request_shutdown()
          remotelib.leave_shutting(server)
          dist.ScaledTime.jump(500.0)      # the client's heartbeat goes stale
          state = 'stopped'
        if sh == 'restarted' and state != 'restarted':
          if state == 'up':
            server._request_shutdown()
          if state in ('up', 'shutting'):
            remotelib.leave_shutting(server)
            dist.ScaledTime.jump(500.0)
          server.start()                    # the same server object serves again
          state = 'restarted'
        if req['t'] == 'new':
          status, got = dist.run_with_deadline(lambda: _outcome(lambda: rem.new(req['kind'])), 20)
          local = ('ok', ('ref', len(twins) + 1))
          if status == 'ok' and got[0] == 'ok' and got[1][0] == 'ref':
            twins[got[1][1]] = remotelib.make(req['kind'], l)
        else:
          op, i = req['op'], req['id']
          if op == 'gboom':
            remotelib.GATE.set()        # single client: the gate opens before the evaluation ends
          status, got = dist.run_with_deadline(lambda: _outcome(lambda: rem.op(i, op)), 20)
          if op == 'iter':
            local = _outcome(lambda: ('ref', len(twins) + 1))
            if status == 'ok' and got[0] == 'ok':
              twins[got[1][1]] = iter(twins[i])
          elif want[0] == 'err' and want[1] == 'Unreachable':
            local = None          # the request never reached a server: the twin does not move either
          elif op == 'next':
            local = _outcome(lambda: ('value', next(twins[i])))
          else:
            local = _outcome(lambda: ('value', remotelib.apply_op(twins[i], op)))
        desc = f"{req['t']} {req.get('kind') or ''}{req.get('op') or ''} id={req.get('id')} [{sh}]"
        if status != 'ok':
          chk.violation(f'remote:hang:{sh}', f'{desc}: no answer within the deadline ({status} {got!r})', ctx)
          return
        # --- against the spec
        if want[0] == 'err' and want[1] == 'Unreachable':
          if got[0] != 'err':
            chk.violation('remote:stopped-server-answered', f'{desc}: got {got!r} from a stopped server', ctx)
          continue
        if want[0] == 'err':
          if got[0] != 'err' or got[1] != want[1]:
            sig = f'remote:shutdown-not-timeout:{got[1] if got[0] == "err" else "value"}' if sh == 'shutting' else f'remote:wrong-error:{want[1]}'
            chk.violation(sig, f'{desc}: spec {want}, real {got!r}', ctx)
            continue
        else:
          if got[0] != 'ok' or tuple(got[1]) != want:
            chk.violation(f'remote:wrong-answer:{req.get("op") or "new"}', f'{desc}: spec {want}, real {got!r}', ctx)
            continue
        # --- against the local twin (same value; same exception type and message)
        if sh in ('up', 'restarted'):
          if got[0] == 'ok':
            if local[0] != 'ok' or tuple(local[1]) != tuple(got[1]):
              chk.violation('remote:differs-from-local:value', f'{desc}: remote {got!r} local {local!r}', ctx)
          elif local[0] != 'err' or local[1] != got[1] or local[2] != got[2]:
            chk.violation('remote:differs-from-local:exception', f'{desc}: remote {got!r} local {local!r}', ctx)
    finally:
      if state == 'shutting':
        remotelib.leave_shutting(server)
  if remotelib.Box.pickled or remotelib.Counter.pickled or remotelib.Lst.pickled:
    chk.violation('remote:object-left-the-server', f'pickled box={remotelib.Box.pickled} cnt={remotelib.Counter.pickled} '
                  f'list={remotelib.Lst.pickled}', dict(kind='remote', history=h))
    remotelib.Box.pickled = remotelib.Counter.pickled = remotelib.Lst.pickled = 0


def replay_expressions(chk, exprs):
  """client.get_result(e) vs maybe_make(e) for LazyEval.tla's expression universe."""
  from ml_metrics._src.chainables import lazy_fns
  n = 0
  with remotelib.server_and_client('expr') as (mods, server, client):
    for e in exprs:
      lazy_fns.clear_cache()
      lazylib.reset()
      local = _outcome(lambda: lazy_fns.maybe_make(lazylib.build(e)))
      lt = lazylib.TICKS[0]
      lazy_fns.clear_cache()
      lazylib.reset()
      expr = lazylib.build(e)
      if not isinstance(expr, lazy_fns.LazyObject) and not hasattr(expr, 'result_'):
        continue
      status, remote = dist.run_with_deadline(lambda: _outcome(lambda: client.get_result(expr)), 20)
      rt = lazylib.TICKS[0]
      n += 1
      ctx = dict(kind='remote-expr', expr=e)
      if status != 'ok':
        chk.violation('expr:hang', f'{e}: {status}', ctx)
      elif remote != local and local[0] == 'ok' and isinstance(local[1], tuple) and local[1][:1] == ('exception-object',) and remote[0] == 'err':
        chk.violation('expr:returned-exception-raised', f'{e}: the value of the expression is an exception object, {local[1][1:]}; '
                      f'the client raises it ({remote!r}) where local evaluation returns it', ctx)
      elif remote != local:
        chk.violation(f'expr:differs:{local[0]}', f'{e}: remote {remote!r} local {local!r}', ctx)
      elif _cached_pure(e):
        # and both are what plain Python gives for the same expression
        lazylib.reset()
        eager = _outcome(lambda: lazylib.eager(e))
        if (eager[0], eager[1]) != (remote[0], remote[1]) or (eager[0] == 'ok' and type(eager[1]) is not type(remote[1])):
          chk.violation(f'expr:differs-from-eager:{eager[0]}', f'{e}: remote {remote!r}, plain Python {eager!r}', ctx)
      elif rt != lt:
        chk.violation('expr:evaluated-different-number-of-times', f'{e}: ticks remote {rt} local {lt}', ctx)
    lazy_fns.clear_cache()
  return n


def busy_server_part(chk):
  """A server that keeps being used stays up: every evaluation is a sign of life for its idle timer (ServerLife.tla's serving
  loop ends on a request or when NOTHING was heard for auto_shutdown_secs).  Virtual clock in the server module: six
  evaluations 60 s apart against an idle limit of 100 s all succeed; afterwards, with nothing heard for 150 s, it stops."""
  import time as real_time
  import types as pytypes
  from harness import lazylib
  from ml_metrics._src.chainables import lazy_fns

  class VC:
    now = 5000.0

  with dist.installed() as mods:
    cs = mods.courier_server
    saved = (cs.time, cs._HRTBT_INTERVAL_SECS)
    def vtime():
      VC.now += 1e-4          # a clock never reads the same value twice (the tx-rate log divides by elapsed time)
      return VC.now
    cs.time = pytypes.SimpleNamespace(time=vtime, sleep=real_time.sleep)
    cs._HRTBT_INTERVAL_SECS = 0.01
    dist._RUN[0] += 1
    addr = f'busy-r{dist._RUN[0]}'
    server = cs.CourierServer(addr, auto_shutdown_secs=100)
    ctx = dict(kind='busy-server')
    try:
      server.start()
      client = mods.courier_utils.CourierClient(addr, call_timeout=5, heartbeat_threshold_secs=1e9)
      answers = []
      for step in range(6):
        VC.now += 60
        status, val = dist.run_with_deadline(lambda: _outcome(lambda: client.get_result(lazy_fns.trace(lazylib.inc)(step))), 10)
        answers.append(val if status == 'ok' else (status, repr(val)))
        real_time.sleep(0.05)        # the serving loop looks at its timer every 10 ms
      chk.replayed()
      want = [('ok', i + 1) for i in range(6)]
      if answers != want:
        chk.violation('busy-server:stopped-while-in-use', f'evaluations 60 s apart against an idle limit of 100 s: answers {answers}, '
                      f'locally {want}', dict(ctx, answers=repr(answers)))
      else:
        VC.now += 150
        t = server._thread
        if t is not None:
          t.join(timeout=5)
        if t is not None and t.is_alive():
          chk.violation('busy-server:idle-limit-ignored', 'nothing heard for 150 s against an idle limit of 100 s: the server is still serving', ctx)
    finally:
      try:
        server._request_shutdown()
        if server._thread is not None:
          server._thread.join(timeout=2)
      except Exception:  # pylint: disable=broad-exception-caught
        pass
      cs.time, cs._HRTBT_INTERVAL_SECS = saved


def record_concurrent(seed, n_clients, l, ops_per_client, with_shutdown):
  """Concurrent client threads on shared references; returns the Call/Ret trace."""
  rnd = random.Random(seed)
  trace = []
  tlock = threading.Lock()

  def log(ev):
    with tlock:
      trace.append(ev)

  def ret_event(c, out):
    if out[0] == 'ok':
      kind, v = out[1]
      return dict(ev='Ret', c=c, k='int' if kind == 'value' else 'ref', n=v, e='')
    return dict(ev='Ret', c=c, k='err', n=0, e=out[1])

  with remotelib.server_and_client('conc') as (mods, server, client):
    rem = remotelib.Remote(mods, client, l)
    kinds = ['iter', 'cnt', 'box', 'iter'][:rnd.choice([2, 3, 4])]
    for k in kinds:          # sequential set-up by c1: creation order fixes the ids
      log(dict(ev='Call', c='c1', t='new', kind=k, id=0, op=''))
      log(ret_event('c1', _outcome(lambda: rem.new(k))))
    ops_of = dict(iter=['next'], cnt=['bump', 'bump', 'count'], box=['val', 'boom', 'items1', 'nope', 'plus1', 'tmo'])
    programs = {}
    for ci in range(n_clients):
      prog = []
      for _ in range(ops_per_client):
        i = rnd.randrange(len(kinds)) + 1
        prog.append((i, rnd.choice(ops_of[kinds[i - 1]])))
      programs[f'c{ci + 1}'] = prog
    # each client thread uses its own CourierClient on the same references
    start = threading.Barrier(n_clients + (1 if with_shutdown else 0))
    shut_after = rnd.randrange(1, n_clients * ops_per_client) if with_shutdown else None
    done_calls = [0]

    def run_client(c):
      start.wait()
      for i, op in programs[c]:
        log(dict(ev='Call', c=c, t='op', kind='', id=i, op=op))
        out = _outcome(lambda: rem.op(i, op))
        log(ret_event(c, out))
        with tlock:
          done_calls[0] += 1

    def run_shutdown():
      start.wait()
      while True:
        with tlock:
          if done_calls[0] >= shut_after:
            break
      log(dict(ev='ShutdownReq', c='', t='', kind='', id=0, op=''))
      remotelib.enter_shutting(server)

    ts = [threading.Thread(target=run_client, args=(c,), daemon=True) for c in programs]
    if with_shutdown:
      ts.append(threading.Thread(target=run_shutdown, daemon=True))
    for t in ts:
      t.start()
    hung = False
    for t in ts:
      t.join(30)
      hung = hung or t.is_alive()
    if with_shutdown:
      remotelib.leave_shutting(server)
  return trace, hung


def record_spanning():
  """An evaluation that is inside the handler when shutdown is requested and fails afterwards."""
  trace = []
  tlock = threading.Lock()

  def log(**ev):
    with tlock:
      trace.append(dict(dict(ev='', c='', t='', kind='', id=0, op='', k='', n=0, e=''), **ev))

  remotelib.GATE.clear()
  remotelib.ENTERED.clear()
  with remotelib.server_and_client('span') as (mods, server, client):
    rem = remotelib.Remote(mods, client, 2)
    log(ev='Call', c='c1', t='new', kind='box')
    out = _outcome(lambda: rem.new('box'))
    log(ev='Ret', c='c1', k='ref', n=out[1][1])
    box = {}

    def call():
      log(ev='Call', c='c1', t='op', id=1, op='gboom')
      box['out'] = _outcome(lambda: rem.op(1, 'gboom'))

    t = threading.Thread(target=call, daemon=True)
    t.start()
    inside = remotelib.ENTERED.wait(10)
    log(ev='ShutdownReq')
    remotelib.enter_shutting(server)
    log(ev='ShutdownDone')
    log(ev='OpenGate')
    remotelib.GATE.set()
    t.join(20)
    hung = t.is_alive() or not inside
    o = box.get('out', ('err', 'hang', ''))
    log(ev='Ret', c='c1', k='err' if o[0] == 'err' else 'int', n=0 if o[0] == 'err' else o[1][1], e=o[1] if o[0] == 'err' else '')
    remotelib.leave_shutting(server)
  return trace, hung


def async_part(chk):
  """The async client path (async_get_result / __anext__ / async_get / async_iter): the same elements and the same
  return values of the exhaustion signal as draining locally."""
  import asyncio
  from ml_metrics._src.chainables import lazy_fns
  from ml_metrics._src.utils import iter_utils

  def drain(q):
    out = []
    while True:
      try:
        out.append(q.get())
      except StopIteration:
        return out

  def local(iterables):
    q = iter_utils.IteratorQueue(0, name='local', max_enqueuer=len(iterables))
    for it in iterables:
      q.enqueue_from_iterator(it)
    return drain(q), list(q.returned)

  with remotelib.server_and_client('async') as (mods, server, client):
    cu = mods.courier_utils
    cases = []
    for shape in ('list', 'empty', 'gen_none', 'gen_ret'):
      cases.append((f'async_iter {shape}', [shape], 'async_iter'))
      cases.append((f'RemoteIterator {shape}', [shape], 'remote_iterator'))
    cases.append(('RemoteIteratorQueue two generators with returns', ['gen_ret', 'gen_ret'], 'remote_queue'))
    cases.append(('RemoteIteratorQueue generators with and without return', ['gen_none', 'gen_ret'], 'remote_queue'))
    for name, shapes, how in cases:
      want = local([remotelib.make_iter(s_) for s_ in shapes])

      async def run():
        aq = iter_utils.AsyncIteratorQueue(0, name='sink', timeout=10)
        if how == 'async_iter':
          src = await client.async_iter(lazy_fns.trace(remotelib.make_iter)(shapes[0]), name='r')
        elif how == 'remote_iterator':
          src = cu.RemoteIterator.new(remotelib.make_iter(shapes[0]), server_addr=client)
        else:
          q = iter_utils.IteratorQueue(0, name='fed', max_enqueuer=len(shapes))
          for s_ in shapes:
            q.enqueue_from_iterator(remotelib.make_iter(s_))
          src = cu.RemoteIteratorQueue.new(q, server_addr=client, name='rq')
        await aq.async_enqueue_from_iterator(src)
        return drain(aq), list(aq.returned)

      status, val = dist.run_with_deadline(lambda: asyncio.run(run()), 20)
      chk.replayed()
      ctx = dict(kind='remote-async', case=name)
      if status != 'ok':
        chk.violation(f'async:{status}:{how}', f'[{name}] {val!r}', ctx)
      elif sorted(val[0]) != sorted(want[0]):
        chk.violation(f'async:elements:{how}', f'[{name}] remote {val[0]} local {want[0]}', ctx)
      elif val[1] != want[1]:
        chk.violation(f'async:return-values:{how}', f'[{name}] the exhaustion signal carried {val[1]} remotely, {want[1]} locally', ctx)


def remote_queue(chk, n, consumers, seed):
  """RemoteIteratorQueue over an IteratorQueue on a server, concurrent consumers."""
  from ml_metrics._src.utils import iter_utils
  with remotelib.server_and_client('queue') as (mods, server, client):
    q = iter_utils.IteratorQueue(2, name='q', timeout=20)
    rq = mods.courier_utils.RemoteIteratorQueue.new(q, server_addr=client, name='rq')
    feeder = threading.Thread(target=lambda: q.enqueue_from_iterator(iter(range(100, 100 + n))), daemon=True)
    feeder.start()
    got = {i: [] for i in range(consumers)}
    stops = {i: 0 for i in range(consumers)}

    def consume(i):
      for x in rq:
        got[i].append(x)
      stops[i] += 1

    ts = [threading.Thread(target=consume, args=(i,), daemon=True) for i in range(consumers)]
    for t in ts:
      t.start()
    for t in ts:
      t.join(30)
    ctx = dict(kind='remote-queue', n=n, consumers=consumers)
    chk.replayed()
    if any(t.is_alive() for t in ts):
      chk.violation('queue:hang', f'n={n} consumers={consumers}: got {got}', ctx)
      return
    allgot = sorted(x for v in got.values() for x in v)
    if allgot != list(range(100, 100 + n)):
      chk.violation('queue:elements', f'n={n} consumers={consumers}: {got}', ctx)
    if any(v != sorted(v) for v in got.values()):
      chk.violation('queue:order', f'n={n} consumers={consumers}: {got}', ctx)
    if any(s != 1 for s in stops.values()):
      chk.violation('queue:exhaustion', f'{stops}', ctx)


def body(chk):
  thorough = chk.tier == 'thorough'
  l = 2
  # 1. design level: two concurrent clients, shutdown at any point
  runs = ([(5, True, ['ShutdownErrorsAreTimeouts', 'Answered'])] if thorough else
          [(4, False, []), (3, True, ['ShutdownErrorsAreTimeouts', 'Answered'])])
  covered = set()
  for mcalls, shutdown, props in runs:
    consts = dict(Clients={'c1', 'c2'}, L=l, MaxCalls=mcalls, MaxObjs=2, Kinds={'iter', 'cnt'}, AllowShutdown=shutdown)
    mc = tlc.run('remote', 'Remote', tlc.cfg_text(constants=consts, invariants=INVS, properties=props, deadlock=False),
                 coverage=True, timeout=3000)
    chk.add_tlc(mc, f'Remote/2 clients/{mcalls} calls/shutdown={shutdown}')
    if not mc.ok:
      chk.machinery_failure(f'Remote.tla violates {mc.error_kind} {mc.error_name}')
    covered |= {a for a, (d, _) in mc.coverage.items() if d}
  missing = [a for a in ['CallNew', 'CallOp', 'Handle', 'GiveUp', 'Ret', 'Shutdown', 'Stop', 'Restart'] if a not in covered]
  if missing:
    chk.machinery_failure(f'vacuous model: {missing} never taken')
  # 2. every single-client behaviour on the real code next to a local twin
  total = 0
  gens = [dict(Kinds={'box'}, MaxCalls=4 if thorough else 3, MaxObjs=1, AllowShutdown=True),
          dict(Kinds={'iter', 'cnt'}, MaxCalls=5, MaxObjs=2, AllowShutdown=False),
          dict(Kinds={'list'}, MaxCalls=5, MaxObjs=2, AllowShutdown=False),
          dict(Kinds={'nil', 'cnt'}, MaxCalls=4, MaxObjs=2, AllowShutdown=False),
          dict(Kinds={'iter'}, MaxCalls=4, MaxObjs=1, AllowShutdown=True)]
  rnd = random.Random(chk.seed)
  for g in gens:
    c1 = dict(Clients={'c1'}, L=l, **g)
    gen = tlc.run('remote', 'Remote', tlc.cfg_text(constants=c1, invariants=['Emit'], deadlock=False), workers=1, timeout=1800)
    if not gen.ok:
      chk.machinery_failure(f'Remote export failed: {gen.error_kind} {gen.error_name}')
    hs = gen.histories
    cap = 4000 if thorough else 220
    if len(hs) > cap:
      hs = rnd.sample(hs, cap)
      chk.coverage['exhaustive'] = False
    plain = [h for h in hs if all(st['sh'] == 'up' for st in h['hist']['c1'])]
    restarted = [h for h in hs if any(st['sh'] == 'restarted' for st in h['hist']['c1'])]
    shut = [h for h in hs if h not in plain]
    stopped = [h for h in shut if any(st['sh'] == 'stopped' for st in h['hist']['c1']) and h not in restarted]
    if len(restarted) > (300 if thorough else 25):
      keep_r = rnd.sample(restarted, 300 if thorough else 25)
      shut = [h for h in shut if h not in restarted or h in keep_r]
    if len(stopped) > (200 if thorough else 12):      # a stopped server is outside C14: a sample is enough
      keep = rnd.sample(stopped, 200 if thorough else 12)
      shut = [h for h in shut if h not in stopped or h in keep]
    with remotelib.server_and_client('srv') as shared:
      for h in plain:
        replay_history(chk, h, l, shared)
        chk.replayed()
    for h in shut:
      replay_history(chk, h, l)
      chk.replayed()
    total += len(plain) + len(shut)
  chk.count('single_client_behaviours', total)
  # 3. expression trees through the client
  lconsts = dict(Depth=2 if thorough else 1, MaxSteps=1, Lits={1, 5}, LitKinds={'int'}, WithKind=False)
  lg = tlc.run('remote', 'LazyEval', tlc.cfg_text(constants=lconsts, invariants=['Emit'], deadlock=False), workers=1, timeout=1800)
  # typed literals (1, True, 1.0), the type-observing callee and a callee whose result is a bytes object
  tconsts = dict(Depth=1, MaxSteps=1, Lits={1}, LitKinds={'int', 'bool', 'float'}, WithKind=True)
  tg = tlc.run('remote', 'LazyEval', tlc.cfg_text(constants=tconsts, invariants=['Emit'], deadlock=False), workers=1, timeout=1800)
  if not tg.ok:
    chk.machinery_failure(f'LazyEval export (typed) failed: {tg.error_kind} {tg.error_name}')
  if not lg.ok:
    chk.machinery_failure(f'LazyEval export failed: {lg.error_kind} {lg.error_name}')
  exprs = [h['expr'] for h in lg.histories if h not in tg.histories]
  if len(exprs) > (6000 if thorough else 400):
    exprs = rnd.sample(exprs, 6000 if thorough else 400)
  exprs += [h['expr'] for h in tg.histories]
  chk.count('expressions', replay_expressions(chk, exprs))
  busy_server_part(chk)
  # 4. concurrent clients: recorded executions validated against the spec
  traces, hung = [], 0
  for j in range(200 if thorough else 30):
    tr, h = record_concurrent(chk.seed * 1000 + j, rnd.choice([2, 3]), l, rnd.choice([2, 3, 4]), with_shutdown=(j % 3 == 2))
    hung += h
    if h:
      chk.violation('concurrent:hang', f'seed {chk.seed * 1000 + j}: a client thread did not finish', dict(kind='remote-trace', trace=tr))
    traces.append(tr)
  for j in range(6 if thorough else 2):
    tr, h = record_spanning()
    if h:
      chk.violation('spanning:hang', 'the gated evaluation never returned', dict(kind='remote-trace', trace=tr))
    traces.append(tr)
  tconsts = dict(Clients={'c1', 'c2', 'c3'}, L=l, MaxCalls=40, MaxObjs=40, Kinds={'iter', 'cnt', 'box', 'list', 'nil'}, AllowShutdown=True)
  accepted, rejected, res = tracecheck.validate('remote', 'Trace_Remote', traces, tconsts, invariants=INVS)
  chk.add_tlc(res, 'Trace_Remote')
  chk.count('traces_validated', len(traces))
  chk.count('traces_accepted', len(accepted))
  for i, info in rejected.items():
    ev = info.get('event') or {}
    chk.violation(f"trace-rejected:{ev.get('ev')}:{ev.get('op') or ev.get('k')}",
                  f'trace {i} rejected at line {info.get("line")}: {ev} after {info.get("prefix")}',
                  dict(kind='remote-trace', trace=traces[i - 1], line=info.get('line')))
  # binding demonstration: a corrupted answer must be rejected
  if traces:
    bad = [dict(e) for e in traces[0]]
    for e in bad:
      if e['ev'] == 'Ret' and e['k'] == 'int':
        e['n'] += 1000      # far outside anything an unlogged choice of the specification could explain
        break
    acc2, rej2, _ = tracecheck.validate('remote', 'Trace_Remote', [bad], tconsts, invariants=INVS, explain=0)
    chk.coverage['corrupted_trace_rejected'] = not acc2
    if acc2:
      chk.machinery_failure('Trace_Remote accepted a corrupted trace: the binding is vacuous')
  async_part(chk)
  # 5. remote queue
  for n, consumers in ((0, 1), (3, 1), (5, 2), (6, 3)):
    remote_queue(chk, n, consumers, chk.seed)
  chk.add_samples([traces[0][:8]] if traces else [])
  chk.assumptions += ['in-process transport: server and clients share one Python process (pickling still happens on every call)',
                      'server-side objects are thread-safe (list iterators, a locked counter); generators are outside this model',
                      'a stopped server is outside C14: any exception without a hang is accepted there']


if __name__ == '__main__':
  common.main('C14', body)
