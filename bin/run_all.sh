#!/bin/sh
# usage: bin/run_all.sh [quick|thorough]   - runs every registered check, prints exit code and wall time
TIER="${1:-quick}"
cd "$(dirname "$0")/.." || exit 2
LOGDIR="${VERIF_SCRATCH:-/tmp}/verif_run_all"
mkdir -p "$LOGDIR"
rc=0
for id in C01 C02 C03 C04 C05 C06 C07 C08 C09 C10 C11 C12 C13 C14 C15 C16 C17 C18 C19 C20; do
  s=$(date +%s)
  bin/check "$id" --tier "$TIER" > "$LOGDIR/$id.log" 2>&1; code=$?
  e=$(date +%s)
  out=$(grep -E "^C[0-9]+ .(quick|thorough)|^VIOLATION|^MACHINERY" "$LOGDIR/$id.log" | tail -3)
  echo "$id exit=$code wall=$((e-s))s :: $out"
  [ "$code" -ne 0 ] && rc=1
done
exit $rc
