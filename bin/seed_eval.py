#!/usr/bin/env python3
"""Confirms a seeded defect and runs the registered checks against it.

usage: seed_eval.py <worktree> <n> <property> [--checks C09,C10] [--skip-suite] [--tier quick]

1. in <worktree> (a scratch git worktree of /repo with MUTANTS/<n>/{patch.diff,demo.py,meta.json}):
   clean tree -> demo must pass; apply patch -> demo must fail; full test suite must still give the
   baseline (657 passed); the patch stays applied for step 2.
2. runs bin/check for the property (and any extra checks) with VERIF_REPO=<worktree>, evidence and replays
   redirected to a scratch directory, and records exit code / VIOLATION classes.
3. reverts the worktree and writes /verif/seeded/<property>-<label>/ (patch.diff, demo.py, meta.json).
"""
import argparse
import json
import os
import re
import shutil
import subprocess
import sys
import tempfile
import time

VERIF = os.path.dirname(os.path.dirname(os.path.abspath(__file__)))


def sh(cmd, cwd=None, env=None, timeout=3600):
  p = subprocess.run(cmd, shell=True, cwd=cwd, env=env, capture_output=True, text=True, timeout=timeout)
  return p.returncode, (p.stdout + p.stderr)


def main():
  ap = argparse.ArgumentParser()
  ap.add_argument('worktree')
  ap.add_argument('n')
  ap.add_argument('prop')
  ap.add_argument('--checks', default='')
  ap.add_argument('--skip-suite', action='store_true')
  ap.add_argument('--tier', default='quick')
  ap.add_argument('--label', default='')
  a = ap.parse_args()
  wt, mdir = a.worktree, os.path.join(a.worktree, 'MUTANTS', a.n)
  label = a.label or a.n
  out = dict(property=a.prop, ran=[])
  meta_in = {}
  try:
    meta_in = json.load(open(os.path.join(mdir, 'meta.json')))
  except Exception as e:  # pylint: disable=broad-exception-caught
    meta_in = {'meta_error': str(e)}
  env = dict(os.environ)
  env.pop('ML_METRICS_VERIF', None)
  env['PYTHONPATH'] = wt
  head = sh('git -C /repo rev-parse HEAD')[1].strip()
  rc, _ = sh(f'git checkout -q -- . && git checkout -q --detach {head} && git status --porcelain --untracked-files=no', cwd=wt)
  out['repo_head'] = head
  rc, o = sh(f'/venv/bin/python {mdir}/demo.py', cwd=wt, env=env, timeout=900)
  out['demo_clean_rc'] = rc
  out['ran'].append(f'demo on clean tree -> exit {rc}')
  rc, o = sh(f'git apply {mdir}/patch.diff', cwd=wt)
  if rc != 0:
    print('patch does not apply', o)
    return 2
  rc, o = sh(f'/venv/bin/python {mdir}/demo.py', cwd=wt, env=env, timeout=900)
  out['demo_patched_rc'] = rc
  out['demo_patched_tail'] = o[-600:]
  out['ran'].append(f'demo with patch -> exit {rc}')
  if not a.skip_suite:
    t0 = time.time()
    rc, o = sh('/venv/bin/python -m pytest -q -p no:cacheprovider --timeout=900 --continue-on-collection-errors 2>&1 | tail -3',
               cwd=wt, env=env, timeout=3000)
    m = re.search(r'(\d+) passed', o)
    failed = re.search(r'(\d+) failed', o)
    out['suite_passed'] = int(m.group(1)) if m else -1
    out['suite_failed'] = int(failed.group(1)) if failed else 0
    out['ran'].append(f'full suite with patch -> {out["suite_passed"]} passed, {out["suite_failed"]} failed ({time.time()-t0:.0f}s)')
  checks = [a.prop] + [c for c in a.checks.split(',') if c and c != a.prop]
  scratch = tempfile.mkdtemp(prefix='seed_ev_')
  results = {}
  for c in checks:
    env2 = dict(os.environ)
    env2.update(VERIF_REPO=wt, VERIF_EVIDENCE_DIR=os.path.join(scratch, 'evidence'),
                VERIF_REPLAY_DIR=os.path.join(scratch, 'replays'), VERIF_TIER=a.tier)
    t0 = time.time()
    rc, o = sh(f'{VERIF}/bin/check {c} --tier {a.tier}', cwd=VERIF, env=env2, timeout=3600)
    classes = re.findall(r'violation class (\S+): (\d+)x', o)
    results[c] = dict(exit=rc, violation_lines=len(re.findall(r'^VIOLATION ', o, re.M)),
                      classes={k: int(v) for k, v in classes}, wall_s=round(time.time() - t0, 1),
                      tail=[l for l in o.splitlines() if not l.startswith('<<') and 'WARNING conda' not in l][-3:])
    out['ran'].append(f'bin/check {c} --tier {a.tier} with patch -> exit {rc}, classes {dict(classes)}')
  shutil.rmtree(scratch, ignore_errors=True)
  sh('git checkout -q -- .', cwd=wt)
  out['checks'] = results
  out['detected_by'] = [c for c, r in results.items() if r['exit'] == 1 and r['violation_lines'] > 0]
  dest = os.path.join(VERIF, 'seeded', f'{a.prop}-{label}')
  os.makedirs(dest, exist_ok=True)
  if a.skip_suite and os.path.exists(os.path.join(dest, 'meta.json')):
    try:
      prev = json.load(open(os.path.join(dest, 'meta.json')))['verification']
      for k in ('suite_passed', 'suite_failed'):
        if k in prev:
          out[k] = prev[k]
      out['ran'].append('full suite result carried over from the earlier confirmation run of this same patch')
    except Exception:  # pylint: disable=broad-exception-caught
      pass
  shutil.copy(os.path.join(mdir, 'patch.diff'), os.path.join(dest, 'patch.diff'))
  shutil.copy(os.path.join(mdir, 'demo.py'), os.path.join(dest, 'demo.py'))
  confirmed = (out['demo_clean_rc'] == 0 and out['demo_patched_rc'] != 0 and
               (out.get('suite_passed') == 657 and out.get('suite_failed') == 0))
  meta = dict(property=a.prop,
              summary=meta_in.get('summary', ''),
              needs_to_manifest=meta_in.get('needs_to_manifest', ''),
              files_touched=meta_in.get('files_touched', []),
              author_ran=meta_in.get('ran', []),
              confirmed=confirmed,
              verification=out)
  json.dump(meta, open(os.path.join(dest, 'meta.json'), 'w'), indent=1)
  print(json.dumps(dict(dest=dest, confirmed=confirmed, detected_by=out['detected_by'],
                        checks={c: (r['exit'], r['classes']) for c, r in results.items()}), indent=1))
  return 0


if __name__ == '__main__':
  sys.exit(main())
