#!/usr/bin/env python3
"""Prints a markdown table of the stored seeded changes of one round (label prefix: '' = round 1, 'b', 'c')."""
import glob, json, os, re, sys
prefix = sys.argv[1] if len(sys.argv) > 1 else 'c'
rows = []
for d in sorted(glob.glob('/verif/seeded/*')):
  name = os.path.basename(d)
  m = re.match(r'(C\d\d)-(' + (prefix if prefix else '') + r'\d)$', name)
  if not m or not os.path.exists(os.path.join(d, 'meta.json')):
    continue
  meta = json.load(open(os.path.join(d, 'meta.json')))
  v = meta.get('verification', {})
  summ = ' '.join(str(meta.get('summary', '')).split())
  summ = (summ[:150] + '…') if len(summ) > 150 else summ
  cls = []
  for c, info in (v.get('checks') or {}).items():
    if info.get('exit') == 1:
      cls.append(c + ': ' + ', '.join(list(info.get('classes', {}))[:2]))
  rows.append(f"| {name} | {summ.replace('|', '/')} | {'; '.join(cls).replace('|', '/') or 'NOT DETECTED'} |")
print('| change | what it does | caught by (first classes) |\n|---|---|---|')
print('\n'.join(rows))
