#!/usr/bin/env python3
"""Prints the prompt given to a mutant-writing sub-agent for one property (only the property text)."""
import json, sys
pid, wt = sys.argv[1], sys.argv[2]
for l in open('/verif/properties.jsonl'):
  p = json.loads(l)
  if p['id'] == pid:
    break
print(f"""You are helping to evaluate a verification effort for the Python library google/ml-metrics (pinned commit plus a few small fixes).
You have your own scratch git worktree of the repository at {wt} . Work ONLY inside that directory (and /tmp for throw-away files). Do not touch /repo, do not look at or touch /verif, and do not commit anything.

Here is a semantic property the library is supposed to satisfy:

  Title: {p['title']}
  Statement: {p['statement']}
  Quantified over: {p['quantifier']['text']}
  Main code involved: {', '.join(p['anchors']['files'])}

Your task: produce TWO different, realistic changes ("seeded defects") to the library source, each of which BREAKS this property, while
  (a) the code still imports/compiles, and
  (b) the repository's existing test suite still passes with the change. Run it from the worktree root:
        cd {wt} && /venv/bin/python -m pytest -q -p no:cacheprovider --timeout=900 --continue-on-collection-errors
      Exactly 657 tests pass on the unchanged tree and 7 test modules fail at collection (they need a `courier` transport that is not installed: courier_server_test, courier_worker_test, orchestrate_test, metrics/text_test, signals/text_test, courier_utils_test, iter_utils_test) - that is the expected baseline; your change must not change the set of passing tests. (Running `python` from the worktree root imports the worktree's ml_metrics, not /repo's.) The full run takes ~2 minutes; run targeted test files while iterating and the full suite once per final change.
  (c) Each change should be the kind of bug a maintainer could plausibly introduce (a refactoring slip, an off-by-one, a dropped notify, a wrong variable, a missing copy, an optimisation that is wrong in a corner case) - NOT sabotage that ordinary use would expose at once. Prefer changes that need something specific to manifest: a particular interleaving, a fault at a particular point, a multi-step sequence of operations, an unusual input (empty shard, NaN column, k > n, remainder sizes...), or two cooperating sites that each look fine alone. The two changes must use different mechanisms / different code sites.
  (d) For each change write a small demonstration (a pytest test file or a small script, standalone, runnable with /venv/bin/python from the worktree root) that FAILS (non-zero exit) with the change applied and PASSES (exit 0) on the unchanged worktree. The demonstration must exercise only public or semi-public behaviour described by the property. Note the `courier` package is not usable; demonstrations of distributed behaviour would need their own in-process fake and are discouraged unless the property is about distribution.

Deliverables - create these files (the directory is outside git tracking concerns; just create it):
  {wt}/MUTANTS/1/patch.diff   (output of `git diff` for change 1 only, relative to the worktree HEAD, applicable with `git apply`)
  {wt}/MUTANTS/1/demo.py      (the demonstration for change 1)
  {wt}/MUTANTS/1/meta.json    ({{"property": "{pid}", "summary": "...", "needs_to_manifest": "...", "files_touched": [...], "ran": ["commands you ran and their outcome"]}})
  {wt}/MUTANTS/2/...          (same for change 2)
Make sure each patch.diff contains ONLY that change (reset the worktree with `git checkout -- .` between the two). At the end leave the worktree source clean (`git status` shows only the untracked MUTANTS directory).
Before finishing, verify for each change: apply patch -> demo fails; full test suite still 657 passed; revert -> demo passes. Report briefly what the two changes are and the verification results.""")
