#!/usr/bin/env python3
"""Re-runs the registered quick checks against every stored seeded change (/verif/seeded/*/patch.diff).

usage: seed_recheck.py [--only C05-2,C13-1] [--jobs 3]
For each change: a scratch worktree of /repo at HEAD (outside /repo and /verif, removed afterwards), the patch
applied, `bin/check <prop>` (and every check recorded under `detected_by`) with VERIF_REPO pointing at it.
Writes /verif/seeded/SUMMARY.json: {change: {check: {exit, classes}}} and prints one line per change.
"""
import argparse
import concurrent.futures as cf
import glob
import json
import os
import re
import shutil
import subprocess
import tempfile

VERIF = os.path.dirname(os.path.dirname(os.path.abspath(__file__)))


def sh(cmd, **kw):
  return subprocess.run(cmd, shell=True, capture_output=True, text=True, **kw)


def one(name):
  d = os.path.join(VERIF, 'seeded', name)
  meta = json.load(open(os.path.join(d, 'meta.json')))
  prop = meta.get('property') or name.split('-')[0]
  checks = [prop] + [c for c in (meta.get('verification', {}).get('detected_by') or []) if c != prop]
  wt = tempfile.mkdtemp(prefix=f'verif_seed_{name}_')
  os.rmdir(wt)
  out = {}
  try:
    r = sh(f'git -C /repo worktree add -q --detach {wt} HEAD')
    if r.returncode:
      return name, {'error': r.stderr[-300:]}
    r = sh(f'git -C {wt} apply {d}/patch.diff')
    if r.returncode:
      return name, {'error': 'patch does not apply: ' + r.stderr[-300:]}
    for c in checks:
      scratch = tempfile.mkdtemp(prefix='verif_seed_ev_')
      env = dict(os.environ, VERIF_REPO=wt, VERIF_EVIDENCE_DIR=scratch, VERIF_REPLAY_DIR=scratch)
      p = sh(f'{VERIF}/bin/check {c} --tier quick', env=env, timeout=3600)
      classes = dict(re.findall(r'violation class (\S+): (\d+)x', p.stdout))
      out[c] = dict(exit=p.returncode, classes=classes)
      shutil.rmtree(scratch, ignore_errors=True)
  finally:
    sh(f'git -C /repo worktree remove --force {wt}')
    shutil.rmtree(wt, ignore_errors=True)
  return name, out


def main():
  ap = argparse.ArgumentParser()
  ap.add_argument('--only', default='')
  ap.add_argument('--jobs', type=int, default=2)
  a = ap.parse_args()
  names = sorted(os.path.basename(os.path.dirname(p)) for p in glob.glob(os.path.join(VERIF, 'seeded', '*', 'patch.diff')))
  if a.only:
    names = [n for n in names if n in a.only.split(',')]
  summary_path = os.path.join(VERIF, 'seeded', 'SUMMARY.json')
  summary = json.load(open(summary_path)) if os.path.exists(summary_path) else {}
  missed = []
  with cf.ThreadPoolExecutor(max_workers=a.jobs) as ex:
    for name, res in ex.map(one, names):
      summary[name] = res
      det = [c for c, v in res.items() if isinstance(v, dict) and v.get('exit') == 1]
      print(f'{name}: detected by {det or "NOTHING"}  ' + '; '.join(f'{c}: exit {v.get("exit")} {list(v.get("classes", {}))[:2]}'
                                                                   for c, v in res.items() if isinstance(v, dict)), flush=True)
      if not det:
        missed.append(name)
  head = sh('git -C /repo rev-parse --short HEAD').stdout.strip()
  summary['_repo_head'] = head
  with open(summary_path, 'w') as f:
    json.dump(summary, f, indent=1, sort_keys=True)
  print('missed:', missed or 'none')
  return 1 if missed else 0


if __name__ == '__main__':
  raise SystemExit(main())
