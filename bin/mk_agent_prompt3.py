#!/usr/bin/env python3
"""Round-3 prompt: the round-1 prompt plus the list of sites / mechanisms earlier rounds already used for this property
(only their one-line summaries, nothing about the checks) and a request to report defects of the unchanged tree."""
import glob, json, os, subprocess, sys
pid, wt = sys.argv[1], sys.argv[2]
base = subprocess.run([sys.executable, os.path.join(os.path.dirname(__file__), 'mk_agent_prompt.py'), pid, wt], capture_output=True, text=True).stdout
used = []
for d in sorted(glob.glob(f'/verif/seeded/{pid}-*')):
  try:
    m = json.load(open(os.path.join(d, 'meta.json')))
    used.append('  - ' + ' '.join(str(m.get('summary', '')).split())[:420] + ' [files: ' + ', '.join(m.get('files_touched', [])[:3]) + ']')
  except Exception:
    pass
extra = """

Additional instructions for this round:
  * Earlier rounds already produced the following changes for this property. Do NOT reuse these code sites or mechanisms; look for
    different functions, different classes, different corner cases (other operator kinds, other metric classes, other configuration
    options, other life-cycle phases, rarely used public entry points of the files listed above):
""" + '\n'.join(used) + """
  * Aim for subtlety: a change whose effect shows only for a specific combination (e.g. two options together, a second call after a
    first, a particular size relation, a specific order of two concurrent events) is worth more than one any use would hit.
  * While reading the code you may notice that the UNCHANGED tree itself violates the property for some input / schedule. If so, write
    a short reproducer and describe it in {wt}/MUTANTS/BASELINE_NOTES.md (what fails, the exact input, why it contradicts the property
    statement). Only report what you reproduced. This is optional and secondary to the two changes.
""".replace('{wt}', wt)
print(base + extra)
