#!/usr/bin/env python3
"""Regenerates /verif/MANIFEST.json from the table below (single source of truth)."""
import json
import os
import sys

HERE = os.path.dirname(os.path.dirname(os.path.abspath(__file__)))

# property -> (technique, level text, level note, design ref)
CLAIMED = {
    'C09': (
        'TLA+ spec (Shard.tla, MergedSeq.tla) model-checked by TLC; every TLC-enumerated behaviour replayed on the real data sources',
        'TLC checks partition/balance/round-trip invariants of the transcribed shard arithmetic and Impl=Decl for the '
        'MergedSequences index/slice transcription over the whole bounded universe; each enumerated shard chain and '
        'query is then executed on SequenceDataSource / ShardedIterable / MergedSequences and compared pointwise.',
        'Bounded: n<=12, k<=6, depth 2, offsets<=2; <=4 parts of length<=3. Elements are abstract positions held in Python lists.',
        '5/C09'),
    'C10': (
        'TLA+ specs Checkpoint.tla and CheckpointThreads.tla model-checked by TLC; bounded histories of next/capture/restore replayed on the real iterators and pipelines, threaded iterators checkpointed at quiescent points',
        'TLC checks Exact (delivered ++ rest = uninterrupted) for every cut, generation and shard chain, and rejects the '
        'pinned state formula (sensitivity); all histories up to the bound plus simulated deeper ones are replayed on '
        'SequenceIterator, DataIterator, one- and two-stage pipeline iterators with aggregates.',
        'Bounded: n<=6, k<=3, nested depth 2, <=3 saved states, <=4 generations. Threaded configurations (num_threads 1-3): CheckpointThreads.tla decides the checkpoint design (all interleavings of workers, queue and consumer for n<=10); the real threaded iterator is checkpointed at quiescent points only.',
        '5/C10'),
    'C19': (
        'TLA+ spec (Rebatch.tla: declarative chunking + carry-over machine, refinement checked by TLC); every behaviour replayed on rebatched_args and pipelines',
        'TLC checks at every step of the transcribed carry-over machine that emitted chunks are a prefix of the declarative '
        'chunking, rows are conserved, the carry is smaller than B and the final output is exact; every (size sequence, B, pad) '
        'behaviour is replayed on rebatched_args for list/tuple/ndarray x 1-2 columns x inferred/explicit column count and '
        'through TreeTransform.apply(batch_size, fn_batch_size).',
        'Bounded: <=4 input batches of size 0..5, B<=6, pad on/off. Rows are abstract ids; column c holds 10*row+c.',
        '5/C19'),
    'C17': (
        'TLA+ specs (Lru.tla cache machine, LazyEval.tla expression semantics) model-checked by TLC; histories replayed on LruCache, the LazyFn/LazyObject caches and lazy_fns.maybe_make',
        'TLC checks boundedness, freshness, LRU eviction order and evaluate-once (action properties) of the cache machine, and that '
        'materialising equals the eager meaning / cached nodes are stable / errors are never cached for every expression of the bounded '
        'universe; all bounded histories plus simulated long ones are replayed on func_utils.LruCache, on LazyFn.result_ with the bound set to Cap '
        '(identity of returned objects, evaluation counts, cache_info, order), on the LazyObject cache (missing-object error) and on '
        'maybe_make with every second make through a pickle round trip.',
        'Bounded: 3-4 keys, cap 2-3, <=7 ops (12 simulated); expressions of depth 2 over inc/add/kwf/tick/boom/box/attr/item; further instances with typed literals (1, True, 1.0), the callees kind / enc / mkerr, falsy literals and literals built as lazy values; a 70 000-node run around a held handle (ids never repeat).',
        '5/C17'),
    'C18': (
        'TLA+ spec (TreeView.tla: Get/Set/Leaves/Apply transcription) with the laws checked by TLC; behaviours replayed on TreeMapView with mutation snapshots',
        'TLC checks get-after-set, frame (both directions), set-current-is-identity, SELF/SKIP, leaves-read-back and apply-maps-leaves '
        'for every tree/path/value of the bounded universe; every behaviour (tree, <=3 copy-and-sets) is replayed on TreeMapView '
        'comparing result, items(), apply() and checking that no container reachable from the original or from earlier versions was written; '
        'a second pass puts numpy arrays in the trees; the law ResetRestores binds copy_and_update (pairs, a key twice, mapping, |); multi-key reads are compared with one-key reads; root leaves of every truth value.',
        'Bounded: trees of depth<=2 over keys {a,b}, sequences<=2, paths<=3, SELF/SKIP as single-element paths.',
        '5/C18'),
    'C04': (
        'TLA+ spec IterQueue.tla (lock/condvar level, one action per scheduler segment) model-checked by TLC for safety, deadlock and termination; state-graph edge cover replayed on the real IteratorQueue under a deterministic scheduler with state comparison after every step; bounded-preemption exploration of the real code',
        'TLC exhausts every interleaving of the bounded configurations (producers x consumers x capacity x consumer mode) for NoDup, Causal, '
        'PerProducerOrder, FaultFreeEnd, EndOnlyWhenDone, deadlock freedom and termination under weak fairness; the dumped state graphs are '
        'covered edge by edge on the real code (projection of locks, waiter queues, counters, queue content and deliveries equal to the spec '
        'state after each step), so the exhaustive verdict transfers to the code for those configurations; the real code is also explored '
        'independently of the spec (all schedules with <=2 preemptions up to a budget, random schedules) and each execution judged.',
        'Bounded: <=3 producers, <=2 consumers, capacity 0/1/2, <=3 items per producer. Segments between yield points are assumed atomic '
        '(mover argument); enqueue_done is one atomic read; FIFO notify as in CPython.',
        '5/C04'),
    'C05': (
        'same IterQueue.tla with fault actions (producer failure at any index, external stop at any point, timeouts, ignore_error) model-checked by TLC; edge-cover replay and exploration on the real code',
        'As C04, with fault actions: TLC checks FailureSeen (no clean end-of-stream after a failure), deadlock freedom and termination for every '
        'failing position and every point at which maybe_stop arrives; counter-examples and edge covers are replayed on the real queue. '
        'The specification without the recorded repairs is rejected by TLC (sensitivity).',
        'Bounded as C04. Time is not modelled: with a timeout configured every wait may time out.',
        '5/C05'),
    'C01': (
        'TLA+ spec MergeAlgebra.tla (histories of new/add/merge/merge_states; conservation, operand frame, neutrality checked by TLC); every bounded history replayed on 46 adapters of all shipped mergeable aggregates against a one-batch reference',
        'TLC checks the algebra and enumerates every bounded history; each is replayed on every shipped mergeable aggregate (both API shapes) over '
        'case-analysis datasets (NaN columns, ragged rankings, labels missing from a shard, empty shards/batches). After every step the result of the '
        'accumulator acted upon (read on a deep copy) must equal one fresh accumulator fed the same items in one batch; values returned per example must '
        'not depend on batch mates.',
        'Bounded: 3 accumulators, 4 items, batches of 0..4, <=3 merges, <=7 steps; concrete numbers from fixed datasets, float tolerance 1e-7 relative.',
        '5/C01'),
    'C11': (
        'same MergeAlgebra.tla replay in observed mode: results of ALL accumulators read twice after every step',
        'As C01, plus: any accumulator not acted upon must keep its result (operands are not damaged, no aliasing after merge), reading a result twice '
        'gives the same value and does not disturb later updates, a fresh state is neutral on either side, merged results equal the one-batch reference '
        'for every bracketing/order the histories contain.',
        'Bounded as C01.',
        '5/C11'),
    'C13': (
        'IterQueue.tla extended with pool workers over a shared _ThreadSafeIterator input / one input per worker and the MultiplexIterator consumer (DequeueIterator num_steps, maybe_stop, pool shutdown); TLC + edge-cover replay on piter_fn / piter_multiplex / MultiplexIterator with a scheduler-managed executor; random-schedule sweep of piter/pmap/MultiplexIterator vs sequential evaluation',
        'TLC checks no duplicate/phantom element, fault-free completeness, termination including the join of every pool worker (DJoin) for early stop at every '
        'position, failure at every position and exhaustion; the state graphs are covered edge by edge on the real code with state comparison; a sweep over '
        'parallelism 1..3, 1..3 inputs, buffer sizes, stop and failure positions compares the output multiset with the sequential evaluation and requires all '
        'pool threads to be finished when iteration ends.',
        'Bounded: <=3 workers, <=3 source items. The executor is the harness-managed one (max_workers honoured, shutdown(wait) joins).',
        '5/C13'),
    'C15': (
        'property-level TLA+ spec Prefetch.tla of the client-visible prefetch protocol, model-checked by TLC; executions of the real PrefetchedCourierServer handlers under the deterministic scheduler are recorded and validated by TLC against Trace_Prefetch.tla (code -> spec)',
        'TLC checks ordering, failure prefix, single end marker and completeness on the specification; for every scenario (prefetch 1-2, batch 1-3, generator '
        'length 0-3, every failure position, shutdown, overlapping re-initialisation, request without generator) the real request handlers and prefetch thread '
        'run under seeded schedules, each protocol event (install, yield, generator end, thread end, call/return of init and next-batch, shutdown) is logged in '
        'execution order and the trace must be a behaviour of the specification; a stuck execution is reported from the scheduler\'s enabled-set. A corrupted '
        'and a thinned trace are shown to be rejected on every run.',
        'Handlers are invoked directly (no transport). Schedules are sampled (seeded), not exhaustive.',
        '5/C15'),
    'C20': (
        'TLA+ specs Registry.tla (clock read and table write as separate steps) and Ownership.tla (every unlocked read and critical section an action) model-checked by TLC; edge covers of both state graphs replayed on the real WorkerRegistry / CourierServer._heartbeat (virtual clock) and Worker / WorkerPool under the deterministic scheduler with state comparison; random-schedule exploration; raising pool operations over the in-process transport',
        'TLC checks heartbeat monotonicity, no revival by late completions, lock/owner consistency, release-only-own (action property), released-at-end and '
        'termination for all interleavings of 3 heartbeat handlers + 2 client refreshes and of 2 pools x 2 workers x acquire/release programs; the pinned '
        'register() and release_all() designs are shown to be rejected. Every edge of the ownership graphs and a budgeted cover of the registry graph are '
        'executed on the real objects with the recorded heartbeat / (lock, owner) compared after each step.',
        'Virtual clock substituted for `time`; in-process transport; Worker objects shared between pools.',
        '5/C20'),
    'C06': (
        'TLA+ spec Sched.tla (control loop of WorkerPool.iterate + client coroutine + fault actions) model-checked by TLC; fault assignments executed as fault plans on the real WorkerPool / PrefetchedCourierServer / orchestrate over an in-process transport; recorded executions validated by TLC against Trace_Sched.tla; the rejected interleaving and two more orders forced on the real code',
        'TLC explores every interleaving of loop polls, coroutine steps and faults (deadline, death, application error) within the budget for exactly-once '
        'state forwarding, at-least-once outputs, error surfacing and termination; fault plans (outcome of the i-th call of each worker) run on the real code '
        'and the outcome is judged against the in-process run (aggregate equal, every output present, no state twice, errors surface, workers released).',
        'In-process transport and x200 scaled clock; real threads, so schedules other than the forced one are sampled.',
        '5/C06'),
    'C16': (
        'TLA+ spec Sched.tla with an empty fault budget model-checked by TLC (exactly-once outputs and states, termination, strict-count merge law); the real sharded and interleaved runners over the in-process transport compared with the in-process run',
        'TLC checks that without faults every interleaving of loop polls and coroutine steps delivers each output batch and each shard state exactly once and terminates. '
        'sharded_pipelines_as_iterator (1-3 workers x 1-4 shards x batch sizes), run_pipeline_interleaved with in-process stages and with a remote stage fed through a '
        'RemoteIteratorQueue on a master server are run on the real code and compared with ChainedRunner in process (multiset of outputs, aggregate, exactly one '
        'AggregateResult, workers released); merge_states(strict_states_cnt) is checked for all (given, expected) in 0..4 x 0..4.',
        'In-process transport; real threads and event loops, so schedules are sampled, not enumerated.',
        '5/C16'),
    'C14': (
        'TLA+ spec Remote.tla (server object table, references, Call/Handle/Ret per request, concurrent clients, shutdown window) model-checked by TLC; single-client behaviours replayed on the real CourierServer/CourierClient/RemoteObject/RemoteIterator next to a local twin; LazyEval.tla expression universe evaluated through the client; concurrent executions recorded and validated by TLC against Trace_Remote.tla',
        'TLC checks for two concurrent clients that only values/exceptions/references travel, a remote iterator hands out each element exactly once, gap-free and in order per client, '
        'exhaustion is stable and only at the end, server-side state is shared (linearizable counter), errors in the shutdown window are the retriable TimeoutError and every request is answered. '
        'Every single-client behaviour is executed on the real code and each answer compared with the spec and with the same operation on a local object (value, or exception type and message); '
        'every expression of the LazyEval universe (incl. typed literals and bytes- / exception-valued callees) is evaluated remotely, locally and in plain Python (value/exception and number of evaluations); 30-200 recorded executions of 2-3 client threads sharing '
        'references, with a shutdown at a random point, are accepted by TLC only if some placement of the unlogged linearization points explains every logged answer, all invariants evaluated at every step.',
        'In-process transport (pickling on every call, handlers on a thread pool); 2 clients x 4-5 calls exhaustive; object kinds box/counter/list/iterator; a stopped server is outside the statement.',
        '5/C14'),
    'C08': (
        'TLA+ reference interpreter Operators.tla (on TreeOps.tla get / copy-on-write set) whose laws TLC checks over every program of the bounded universe; every enumerated program built with the real TreeTransform and run on the real runner, outputs / sinks / closing / caller data / build errors compared',
        'TLC enumerates every chain of up to 2 (thorough: 3) operator instances from a universe of ~55 select / apply / assign / filter / sink / batch instances covering single, tuple, nested-path, '
        'dict/kwargs, SELF, SKIP and literal keys, evaluates each on 4 fixed streams (0, 1, 2, 4 records) and checks the interpreter laws (filter = ordered sub-sequence, assign changes exactly the named keys, '
        'sinks see each reaching record once, operators compose). Every program (plus sampled programs of length 3-4) is executed on the real code: output stream, sink contents, sinks closed exactly once, '
        'caller records deep-equal and identical afterwards, invalid key combinations rejected at build time.',
        'Records are dicts {a, b, n:{x}} of small ints; a fixed function library; batch() only as the last operator.',
        '5/C08'),
    'C12': (
        'TLA+ specs Operators.tla (failing functions, Skip on/off), SkipBatch.tla (skipping under fn_batch_size / batch_size) and RangeIter.tla (failing source positions) model-checked by TLC; every enumerated behaviour replayed on the real runner with ignore_error on and off, single- and multi-threaded',
        'TLC checks the interpreter laws with skipping, and for every (rows<=6, input batch size, fn_batch_size, batch_size, <=2 failing rows) that exactly the rows of failing calls are lost, none duplicated, order kept, '
        'and that strict mode yields a prefix and then the error. Every configuration is run on apply / assign / filter / sink with iterate(ignore_error=True|False): delivered rows, pairing of outputs with their own inputs, '
        'batch shapes, error surfacing with the original exception in the cause chain, sinks closed once; operator programs also run with num_threads 1 and 2 over a sharded source (multiset, helper threads ended); '
        'failing data-source positions are read through a pipeline with 0-2 threads.',
        'assign is exercised with batch sizes equal to the input batch size only (pairing is undefined otherwise); skippable = ValueError/TypeError.',
        '5/C12'),
    'C02': (
        'TLA+ spec Slicing.tla (aggregation with slicing defined as a group-by; algebra checked by TLC over every stream / slicer set / aggregate stacking of the bound); every configuration run on the real TreeTransform and the whole result dict compared key by key',
        'TLC checks that partitioning slicers put every row in exactly one slice, slice rows are an ordered sub-sequence of all rows, slice sizes add up and the unsliced entry exists and never depends on the slicers, for '
        'streams of <=2 batches x <=2 rows, <=2 of 8 slicer kinds (single feature, cross, restricted values, fan-out function, mask function, mask-with-replace), one or two stacked aggregates, slicing disabled on one. '
        'Each configuration (exhaustive small universe plus simulated ones with 3 batches x 3 rows x 3 slicers) is executed with list and numpy batches: exactly the expected keys (none invented, none dropped) '
        'and, under each key, exactly the rows of that slice in order.',
        'Aggregates collect the rows they are fed; rows are (a, b) pairs of small ints; further modes: a 2-column array, a ragged list column, generator-returning slice functions, the alias builders agg / add_agg.',
        '5/C02'),
    'C03': (
        'TLA+ spec ExecStrategy.tla (shards x worker threads over the transcribed interval arithmetic, every arrival order an interleaving) model-checked by TLC; the same pipelines run on the real code under every strategy of the bounded universe and compared with the sequential fused run',
        'TLC checks that shard and thread intervals partition the source, nothing is invented or delivered twice at any point, final multisets of outputs and merged aggregate equal the sequential run, a single worker keeps the order, and termination, for every interleaving of up to 3 shards x 3 threads over <=6 rows. '
        'On the real code 4 programs x 2 source kinds (SequenceDataSource, ShardedIterable) x sizes 0..7 (0..11) run under: num_threads 0-3, chains of two named stages split at every position with threads per stage, the interleaved in-process runner, 1-4 shards merged with merge_states, shards combined with threads; '
        'outputs and aggregate compared as multisets (exact order for single-worker strategies).',
        'Threaded strategies run on real threads, repeated 2-8 times (schedules sampled); arrival orders are enumerated only at the design level.',
        '5/C03'),
    'C07': (
        'Transcription: textbook definitions in TLA+ over exact rationals (ConfusionRates.tla, RankMetrics.tla, Stats.tla, PairStats.tla, TextFreq.tla, Signals.tla); TLC checks the laws tying them together over every input class of the bound and emits every expected value; each emitted case is one implementation test in every input encoding through the accumulator and the one-shot function API',
        'TLC checks ranges, complements, harmonic mean, class symmetry and MCC^2<=1 for all 256 count tuples (0..3)^4 (binary, micro, macro views), range / monotonicity in k / perfect-ranking AP / harmonic-mean laws for all 960 (relevant set, ranking) pairs over 4 symbols at k=1..4, '
        'and variance>=0, variance=0 iff constant, mean between min and max, histogram totals and split invariance for all streams of <=2 batches x <=2 values with NaN. Every emitted value is compared (relative 1e-9) with the real ConfusionMatrixAggFn in 7 encodings x 2 label alphabets '
        '(two-batch accumulation and one call), the per-metric functions, TopKRetrievalAggFn over 5 k-lists (sqrt / log2 applied by the harness), MeanAndVariance / Histogram / MinMaxAndCount and the rolling_stats functions; documented aliases must agree on the real values.',
        'PairStats.tla / TextFreq.tla add Pearson and reflective r, Tjur D, symmetric prediction difference, calibration histogram, cross-entropy inputs, top-k word n-grams and pattern frequency (RRegression, R2Tjur, R2TjurRelative, SymmetricPredictionDifference, CalibrationHistogram, TopKWordNGrams, PatternFrequency through add and merge). '
        'Not decided: logarithms (supplied by the harness), samplers, the one-shot text functions (not importable in this tree) (DESIGN.md section 6). The quick tier samples 90 matrices, 150 rankings and 700 pair streams.',
        '5/C07'),
}

PENDING = {}
for i in range(1, 21):
  pid = f'C{i:02d}'
  if pid not in CLAIMED:
    PENDING[pid] = 'check not built yet in this session (specification planned in DESIGN.md section 5); not claimed until its check runs'


def main():
  checks = []
  for pid, (tech, text, note, ref) in sorted(CLAIMED.items()):
    checks.append(dict(
        property_id=pid,
        quick_cmd=f'bin/check {pid} --tier quick',
        thorough_cmd=f'bin/check {pid} --tier thorough',
        evidence_file=f'/verif/evidence/{pid}.json',
        replay_cmd_template=f'bin/check {pid} --replay {{path}}',
        engine='tlc+replay',
        level_claimed=dict(category='model_checking', text=text, design_ref=f'DESIGN.md section {ref}'),
        level_note=note,
        technique=tech,
    ))
  manifest = dict(
      version=1,
      setup_cmd='true',
      hooks=dict(
          guard='ML_METRICS_VERIF',
          enable='checks set ML_METRICS_VERIF=1 and import ml_metrics from /repo (editable working tree, nothing to build); '
                 'all instrumentation is installed from outside by module-attribute substitution',
          baseline_off_cmd='cd /repo && env -u ML_METRICS_VERIF /venv/bin/python -m pytest -ra -q -p no:cacheprovider '
                           '--timeout=900 --continue-on-collection-errors',
          source_commits=[],
          add_only=True,
      ),
      engines=[
          dict(name='tlc+replay', path='/verif/harness', serves_properties=sorted(CLAIMED),
               kind_free_text='explicit TLA+ specifications under /verif/spec checked by TLC 1.8; behaviours exported as JSON '
                              'histories and replayed on the working-tree code; recorded traces validated by TLC trace specs'),
      ],
      checks=checks,
      not_applicable=[dict(property_id=p, reason=r) for p, r in sorted(PENDING.items())],
      notes='See DESIGN.md. known_findings.json lists repaired (fixed:) and open findings.',
  )
  with open(os.path.join(HERE, 'MANIFEST.json'), 'w') as f:
    json.dump(manifest, f, indent=1)
  try:
    import jsonschema
    schema = json.load(open('/root/.vp/MANIFEST.schema.json'))
    jsonschema.validate(manifest, schema)
    print('MANIFEST.json valid;', len(checks), 'checks')
  except ImportError:
    print('MANIFEST.json written (jsonschema not importable here)')


if __name__ == '__main__':
  sys.exit(main())
