---------------------------- MODULE RankMetrics -----------------------------
(***************************************************************************)
(* Textbook definitions of the top-k retrieval metrics (C07) for one       *)
(* example: a set T of relevant items and a ranking (an injective          *)
(* sequence of predicted items), at every cut-off k in 1..MaxK.  Exact     *)
(* rationals <<num, den>>; x / 0 = 0.  The batch value of a metric is the  *)
(* mean over the examples (the harness averages the emitted per-example    *)
(* rationals).  DCG / NDCG need log2: the hit positions and |T| are        *)
(* emitted and the harness applies the discount.  The Fowlkes-Mallows      *)
(* index is emitted squared (precision * recall).                          *)
(*                                                                         *)
(* A batch grows one example at a time so that TLC can enumerate single    *)
(* examples exhaustively and sample larger batches by simulation.          *)
(***************************************************************************)
EXTENDS Integers, Sequences, FiniteSets, TLC, Json

CONSTANTS Vocab, MaxK, MaxExamples

Q(n, d)   == IF d = 0 THEN <<0, 1>> ELSE <<n, d>>
Sub1(a)   == <<a[2] - a[1], a[2]>>                  \* 1 - a
Mul(a, b) == <<a[1] * b[1], a[2] * b[2]>>
Leq(a, b) == a[1] * b[2] <= b[1] * a[2]
Min(a, b) == IF a < b THEN a ELSE b

Rankings == UNION {{s \in [1..m -> Vocab] : \A i, j \in 1..m : i # j => s[i] # s[j]} : m \in 1..Cardinality(Vocab)}
Relevant == SUBSET Vocab \ {{}}

VARIABLE batch            \* sequence of [t: relevant set, p: ranking]
Init == batch = <<>>
AddExample(t, p) == Len(batch) < MaxExamples /\ batch' = Append(batch, [t |-> t, p |-> p])
Next == \E t \in Relevant, p \in Rankings : AddExample(t, p)
Spec == Init /\ [][Next]_batch

\* ------------------------------------------------------------ one example e at cut-off k
Seen(e, k)   == Min(k, Len(e.p))                                     \* predictions looked at
HitPos(e, k) == {i \in 1..Seen(e, k) : e.p[i] \in e.t}
Hits(e, k)   == Cardinality(HitPos(e, k))
Precision(e, k) == Q(Hits(e, k), Seen(e, k))
Recall(e, k)    == Q(Hits(e, k), Cardinality(e.t))
F1(e, k)        == Q(2 * Hits(e, k), Seen(e, k) + Cardinality(e.t))   \* harmonic mean of the two
Accuracy(e, k)  == IF Hits(e, k) > 0 THEN <<1, 1>> ELSE <<0, 1>>
IoU(e, k)       == Q(Hits(e, k), Seen(e, k) + Cardinality(e.t) - Hits(e, k))
FirstHit(e, k)  == IF HitPos(e, k) = {} THEN 0 ELSE CHOOSE i \in HitPos(e, k) : \A j \in HitPos(e, k) : i <= j
MRR(e, k)       == Q(IF FirstHit(e, k) = 0 THEN 0 ELSE 1, FirstHit(e, k))
\* average precision: sum over the hit positions i <= k of precision@i, over min(k, |T|)
RECURSIVE SumPrec(_, _, _)
SumPrec(e, S, acc) == IF S = {} THEN acc
                      ELSE LET i == CHOOSE x \in S : TRUE
                               pr == <<Hits(e, i), i>> IN
                           SumPrec(e, S \ {i}, <<acc[1] * pr[2] + pr[1] * acc[2], acc[2] * pr[2]>>)
AP(e, k) == LET s == SumPrec(e, HitPos(e, k), <<0, 1>>) IN Q(s[1], s[2] * Min(k, Cardinality(e.t)))

Names == <<"precision", "ppv", "positive_predictive_value", "recall", "sensitivity", "tpr", "f1_score", "accuracy",
           "intersection_over_union", "threat_score", "miss_rate", "false_discovery_rate",
           "mean_average_precision", "mean_reciprocal_rank", "fowlkes_mallows_index">>
Value(name, e, k) ==
  CASE name \in {"precision", "ppv", "positive_predictive_value"} -> Precision(e, k)
    [] name \in {"recall", "sensitivity", "tpr"} -> Recall(e, k)
    [] name = "f1_score" -> F1(e, k)
    [] name = "accuracy" -> Accuracy(e, k)
    [] name \in {"intersection_over_union", "threat_score"} -> IoU(e, k)
    [] name = "miss_rate" -> Sub1(Recall(e, k))
    [] name = "false_discovery_rate" -> Sub1(Precision(e, k))
    [] name = "mean_average_precision" -> AP(e, k)
    [] name = "mean_reciprocal_rank" -> MRR(e, k)
    [] name = "fowlkes_mallows_index" -> Mul(Precision(e, k), Recall(e, k))       \* squared

\* ------------------------------------------------------------ top-k classification over the batch
\* (TopKConfusionMatrixAggFn): at cut-off k every class c has its own confusion counts over the examples -
\* predicted = c among the first k predictions, true = c relevant; micro sums the counts over the classes,
\* macro averages the per-class rates.
TopSet(e, k) == {e.p[i] : i \in 1..Seen(e, k)}
TPc(c, k) == Cardinality({i \in 1..Len(batch) : c \in batch[i].t /\ c \in TopSet(batch[i], k)})
FPc(c, k) == Cardinality({i \in 1..Len(batch) : c \notin batch[i].t /\ c \in TopSet(batch[i], k)})
FNc(c, k) == Cardinality({i \in 1..Len(batch) : c \in batch[i].t /\ c \notin TopSet(batch[i], k)})
RECURSIVE SumOver(_, _, _)
SumOver(F(_, _), S, k) == IF S = {} THEN 0 ELSE LET c == CHOOSE x \in S : TRUE IN F(c, k) + SumOver(F, S \ {c}, k)
AddQ(a, b) == <<a[1] * b[2] + b[1] * a[2], a[2] * b[2]>>
RECURSIVE MeanRate(_, _, _, _)
MeanRate(Num(_, _), Den(_, _), S, k) ==      \* sum over the classes of Num / Den (x / 0 = 0); divided by |Vocab| by the caller
  IF S = {} THEN <<0, 1>> ELSE LET c == CHOOSE x \in S : TRUE IN AddQ(Q(Num(c, k), Den(c, k)), MeanRate(Num, Den, S \ {c}, k))
PredC(c, k) == TPc(c, k) + FPc(c, k)
TrueC(c, k) == TPc(c, k) + FNc(c, k)
MicroPrecision(k) == Q(SumOver(TPc, Vocab, k), SumOver(PredC, Vocab, k))
MicroRecall(k)    == Q(SumOver(TPc, Vocab, k), SumOver(TrueC, Vocab, k))
MacroPrecision(k) == LET m == MeanRate(TPc, PredC, Vocab, k) IN <<m[1], m[2] * Cardinality(Vocab)>>
MacroRecall(k)    == LET m == MeanRate(TPc, TrueC, Vocab, k) IN <<m[1], m[2] * Cardinality(Vocab)>>

\* ------------------------------------------------------------ laws
Examples == {batch[i] : i \in 1..Len(batch)}
InRange == \A e \in Examples : \A k \in 1..MaxK : \A nme \in {Names[i] : i \in 1..Len(Names)} :
             Leq(<<0, 1>>, Value(nme, e, k)) /\ Leq(Value(nme, e, k), <<1, 1>>)
\* hits, recall, accuracy and MRR never decrease with k; a perfect ranking has AP = 1
Monotone == \A e \in Examples : \A k \in 1..(MaxK - 1) :
              /\ Hits(e, k) <= Hits(e, k + 1) /\ Leq(Recall(e, k), Recall(e, k + 1))
              /\ Leq(Accuracy(e, k), Accuracy(e, k + 1)) /\ Leq(MRR(e, k), MRR(e, k + 1))
PerfectAP == \A e \in Examples : \A k \in 1..MaxK :
               (\A i \in 1..Seen(e, k) : e.p[i] \in e.t) /\ Seen(e, k) >= Min(k, Cardinality(e.t)) => AP(e, k)[1] = AP(e, k)[2]
F1IsHarmonic == \A e \in Examples : \A k \in 1..MaxK :
                  LET p == Precision(e, k) r == Recall(e, k) IN
                  (p[1] + r[1] > 0) => F1(e, k)[1] * (p[1] * r[2] + r[1] * p[2]) = 2 * p[1] * r[1] * F1(e, k)[2]

Emit == batch # <<>> =>
  PrintT(<<"H", ToJson([examples |-> [i \in 1..Len(batch) |-> [t |-> batch[i].t, p |-> batch[i].p]],
                         values |-> [i \in 1..Len(batch) |-> [k \in 1..MaxK |->
                                      [j \in 1..Len(Names) |-> <<Names[j], Value(Names[j], batch[i], k)>>]]],
                         hits |-> [i \in 1..Len(batch) |-> [k \in 1..MaxK |-> HitPos(batch[i], k)]],
                         topk |-> [k \in 1..MaxK |-> [micro_precision |-> MicroPrecision(k), micro_recall |-> MicroRecall(k),
                                                       macro_precision |-> MacroPrecision(k), macro_recall |-> MacroRecall(k)]]])>>)
=============================================================================
