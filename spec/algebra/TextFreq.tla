------------------------------- MODULE TextFreq -------------------------------
(***************************************************************************)
(* Definitions of the text-frequency metrics (C07): the k most frequent    *)
(* word n-grams of a set of texts (aggregates.text.TopKWordNGrams, modes   *)
(* all occurrences / distinct per text / first n-gram only) and the        *)
(* frequency of given patterns (PatternFrequency, overlapping occurrences  *)
(* or at most one per text), both as occurrences per text, ranked by       *)
(* falling frequency and then alphabetically.  A text is a sequence of     *)
(* symbols 1..NSym: the replayer renders a symbol as a one-letter word     *)
(* (with noise the cleaning must remove) for the n-grams and as a          *)
(* character for the patterns, so the order of symbols is the alphabet.    *)
(***************************************************************************)
EXTENDS Integers, Sequences, FiniteSets, TLC, Json, SequencesExt

CONSTANTS NSym, MaxTexts, MaxLen,
          Ns,            \* n-gram sizes
          MaxPat         \* patterns: every non-empty symbol sequence up to this length

Sym == 1..NSym
TextsOf == UNION {[1..m -> Sym] : m \in 0..MaxLen}
VARIABLE texts
Init == texts = <<>>
Next == \E t \in TextsOf : Len(texts) < MaxTexts /\ texts' = Append(texts, t)
Spec == Init /\ [][Next]_texts

NT == Len(texts)
RECURSIVE SumSeq(_)
SumSeq(q) == IF q = <<>> THEN 0 ELSE Head(q) + SumSeq(Tail(q))

\* positions at which g occurs in t (overlapping occurrences all count)
Occ(g, t) == {i \in 1..(Len(t) - Len(g) + 1) : SubSeq(t, i, i + Len(g) - 1) = g}
GramsOf(n) == UNION {{SubSeq(texts[j], i, i + n - 1) : i \in 1..(Len(texts[j]) - n + 1)} : j \in 1..NT}

CountAll(g) == SumSeq([j \in 1..NT |-> Cardinality(Occ(g, texts[j]))])
CountDistinct(g) == SumSeq([j \in 1..NT |-> IF Occ(g, texts[j]) # {} THEN 1 ELSE 0])
CountFirst(g) == SumSeq([j \in 1..NT |-> IF 1 \in Occ(g, texts[j]) THEN 1 ELSE 0])

\* alphabetical order of the rendered strings: the first differing symbol decides, a proper prefix comes first
Min2(a, b) == IF a < b THEN a ELSE b
AlphaLess(a, b) == \E i \in 1..(Min2(Len(a), Len(b)) + 1) :
    /\ \A j \in 1..(i - 1) : a[j] = b[j]
    /\ \/ (i > Len(a) /\ i <= Len(b))
       \/ (i <= Len(a) /\ i <= Len(b) /\ a[i] < b[i])

\* ranked: falling count, ties alphabetically; the frequency is count / NT
Ranked(S, cnt(_)) == SetToSortSeq(S, LAMBDA a, b : cnt(a) > cnt(b) \/ (cnt(a) = cnt(b) /\ AlphaLess(a, b)))
WithCount(q, cnt(_)) == [i \in 1..Len(q) |-> <<q[i], cnt(q[i])>>]

RankAll(n) == WithCount(Ranked(GramsOf(n), CountAll), CountAll)
RankDistinct(n) == WithCount(Ranked(GramsOf(n), CountDistinct), CountDistinct)
FirstGrams(n) == {g \in GramsOf(n) : CountFirst(g) > 0}
RankFirst(n) == WithCount(Ranked(FirstGrams(n), CountFirst), CountFirst)

Patterns == UNION {[1..m -> Sym] : m \in 1..MaxPat}
PatAll == WithCount(Ranked(Patterns, CountAll), CountAll)
PatDistinct == WithCount(Ranked(Patterns, CountDistinct), CountDistinct)

\* ------------------------------------------------------------ laws
TotalOrder == \A a, b \in Patterns : a # b => (AlphaLess(a, b) # AlphaLess(b, a))
DistinctAtMostAll == \A g \in Patterns : CountFirst(g) <= CountDistinct(g) /\ CountDistinct(g) <= CountAll(g) /\ CountDistinct(g) <= NT
\* every position of every text starts exactly one n-gram occurrence
GramsAccountForPositions == \A n \in Ns :
    SumSeq([i \in 1..Len(RankAll(n)) |-> RankAll(n)[i][2]]) =
    SumSeq([j \in 1..NT |-> IF Len(texts[j]) >= n THEN Len(texts[j]) - n + 1 ELSE 0])
FirstOnePerText == \A n \in Ns :
    SumSeq([i \in 1..Len(RankFirst(n)) |-> RankFirst(n)[i][2]]) = Cardinality({j \in 1..NT : Len(texts[j]) >= n})
RankedIsSorted == \A n \in Ns : \A i \in 1..(Len(RankAll(n)) - 1) : RankAll(n)[i][2] >= RankAll(n)[i + 1][2]

Emit == texts # <<>> =>
  PrintT(<<"H", ToJson([texts |-> texts, nt |-> NT,
      all |-> [n \in Ns |-> RankAll(n)], distinct |-> [n \in Ns |-> RankDistinct(n)], first |-> [n \in Ns |-> RankFirst(n)],
      pat_all |-> PatAll, pat_distinct |-> PatDistinct])>>)
=============================================================================
