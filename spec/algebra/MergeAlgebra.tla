---------------------------- MODULE MergeAlgebra ----------------------------
(***************************************************************************)
(* The algebra every mergeable aggregate has to satisfy (C01, C11).        *)
(*                                                                         *)
(* Accumulators absorb abstract dataset items; the abstract content of an  *)
(* accumulator is the SEQUENCE of items it has absorbed, in the documented *)
(* order (its own items in arrival order, then the operand's on merge).    *)
(*                                                                         *)
(*   New(a)             a fresh (empty) accumulator                        *)
(*   Add(a, B)          one batch B: the next |B| unused items of the      *)
(*                      dataset (any composition into shards and batches   *)
(*                      arises from the choice of a and |B|), B may be     *)
(*                      empty where the API accepts an empty batch         *)
(*   Merge(a, b)        seq[a] := seq[a] \o seq[b];  seq[b] UNCHANGED      *)
(*   MergeStates(a, bs) the AggregateFn fold: only the first state may be  *)
(*                      modified                                           *)
(*                                                                         *)
(* C01 (judged on the code): result(a) = result of ONE fresh accumulator   *)
(* fed seq[a] in ONE batch, for every live a after every step.             *)
(* C11: operands are untouched by merge (OperandFrame), a fresh state is   *)
(* neutral on either side, every bracketing / order of the same states     *)
(* gives the same bag (MergeIsConcat), later updates to one side do not    *)
(* leak into the other (no aliasing: seq[b] only changes by actions on b). *)
(***************************************************************************)
EXTENDS Integers, Sequences, FiniteSets, TLC, Json

CONSTANTS NAccs,       \* accumulators 1..NAccs, created in order
          NItems,      \* dataset items 1..NItems, consumed in order
          MaxBatch,    \* batch sizes 0..MaxBatch (0 only if EmptyBatches)
          EmptyBatches,\* BOOLEAN
          MaxMerges, MaxOps

VARIABLES seq, nlive, nextItem, merges, hist
vars == <<seq, nlive, nextItem, merges, hist>>

Accs == 1..NAccs
Live == 1..nlive

Init == /\ seq = [a \in Accs |-> <<>>]
        /\ nlive = 0 /\ nextItem = 1 /\ merges = 0 /\ hist = <<>>

Snapshot(s) == [a \in 1..NAccs |-> s[a]]

New ==
  /\ nlive < NAccs
  /\ nlive' = nlive + 1
  /\ hist' = Append(hist, [op |-> "new", a |-> nlive + 1, state |-> Snapshot(seq), live |-> nlive + 1])
  /\ UNCHANGED <<seq, nextItem, merges>>

Add(a, n) ==
  /\ a \in Live
  /\ n \in (IF EmptyBatches THEN 0 ELSE 1)..MaxBatch
  /\ nextItem + n - 1 <= NItems
  /\ LET B == [j \in 1..n |-> nextItem + j - 1] IN
       /\ seq' = [seq EXCEPT ![a] = @ \o B]
       /\ hist' = Append(hist, [op |-> "add", a |-> a, batch |-> B, state |-> Snapshot(seq'), live |-> nlive])
  /\ nextItem' = nextItem + n
  /\ UNCHANGED <<nlive, merges>>

Merge(a, b) ==
  /\ a \in Live /\ b \in Live /\ a # b
  /\ merges < MaxMerges
  /\ seq' = [seq EXCEPT ![a] = @ \o seq[b]]
  /\ merges' = merges + 1
  /\ hist' = Append(hist, [op |-> "merge", a |-> a, b |-> b, state |-> Snapshot(seq'), live |-> nlive])
  /\ UNCHANGED <<nlive, nextItem>>

MergeStates(a, b, c) ==           \* merge_states([a, b, c])
  /\ {a, b, c} \subseteq Live /\ a # b /\ a # c /\ b # c
  /\ merges < MaxMerges
  /\ seq' = [seq EXCEPT ![a] = (@ \o seq[b]) \o seq[c]]
  /\ merges' = merges + 1
  /\ hist' = Append(hist, [op |-> "merge_states", a |-> a, bs |-> <<b, c>>, state |-> Snapshot(seq'), live |-> nlive])
  /\ UNCHANGED <<nlive, nextItem>>

Next == \/ New
        \/ \E a \in Accs, n \in 0..MaxBatch : Add(a, n)
        \/ \E a, b \in Accs : Merge(a, b)
        \/ \E a, b, c \in Accs : MergeStates(a, b, c)
Spec == Init /\ [][Next]_vars

\* ------------------------------------------------------------ properties
Range(s) == {s[j] : j \in 1..Len(s)}
\* an item enters an accumulator only by Add or by merge from an accumulator that has it
Conservation == \A a \in Accs : Range(seq[a]) \subseteq 1..(nextItem - 1)
NotLiveIsEmpty == \A a \in Accs : a > nlive => seq[a] = <<>>
\* C11: merge never touches its operands, and nothing but an action on b changes b
OperandFrame ==
  [][\A b \in Accs : seq'[b] # seq[b] =>
        LET h == hist'[Len(hist')] IN h.a = b]_vars
\* C11: a fresh state is neutral on either side
FreshNeutral ==
  [][\A a, b \in Accs : (Merge(a, b) /\ seq[b] = <<>>) => seq'[a] = seq[a]]_vars
FreshNeutralLeft ==
  [][\A a, b \in Accs : (Merge(a, b) /\ seq[a] = <<>>) => seq'[a] = seq[b]]_vars

HistBound == Len(hist) <= MaxOps
Emit == Len(hist) = MaxOps => PrintT(<<"H", ToJson(hist)>>)
View == <<seq, nlive, nextItem, merges>>
=============================================================================
