--------------------------- MODULE ConfusionRates ---------------------------
(***************************************************************************)
(* Textbook definitions of the confusion-matrix metrics (C07), over exact  *)
(* rationals <<num, den>> (den > 0), with the library's documented         *)
(* convention "x / 0 = 0" (math_utils.safe_divide).  The definitions are   *)
(* written from the definitions of the rates, not from the code            *)
(* (classification.py:267-420): the code is compared with them.            *)
(*                                                                         *)
(* A state is one binary confusion matrix (tp, fp, tn, fn).  Besides the   *)
(* binary view, the same examples seen as a 2-class problem give the micro *)
(* (counts summed over both classes) and macro (rates averaged over both   *)
(* classes) variants: class "pos" has (tp, fp, tn, fn), class "neg" has    *)
(* (tn, fn, tp, fp).                                                       *)
(*                                                                         *)
(* Square roots are not representable: MCC is given by its sign and its    *)
(* square, the prevalence threshold by tpr and fpr (the harness applies     *)
(* the root).                                                              *)
(***************************************************************************)
EXTENDS Integers, Sequences, FiniteSets, TLC, Json

CONSTANT MaxCount

VARIABLES tp, fp, tn, fn
vars == <<tp, fp, tn, fn>>
Init == tp \in 0..MaxCount /\ fp \in 0..MaxCount /\ tn \in 0..MaxCount /\ fn \in 0..MaxCount
Next == UNCHANGED vars
Spec == Init /\ [][Next]_vars

\* ------------------------------------------------------------ rationals
Q(n, d)   == IF d = 0 THEN <<0, 1>> ELSE IF d < 0 THEN <<-n, -d>> ELSE <<n, d>>     \* n / d with x / 0 = 0
Add(a, b) == <<a[1] * b[2] + b[1] * a[2], a[2] * b[2]>>
Sub(a, b) == <<a[1] * b[2] - b[1] * a[2], a[2] * b[2]>>
Mul(a, b) == <<a[1] * b[1], a[2] * b[2]>>
Div(a, b) == Q(a[1] * b[2], a[2] * b[1])                                           \* a / b with x / 0 = 0
Eq(a, b)  == a[1] * b[2] = b[1] * a[2]
Leq(a, b) == a[1] * b[2] <= b[1] * a[2]
One == <<1, 1>>   Zero == <<0, 1>>   Half(a) == <<a[1], 2 * a[2]>>

\* ------------------------------------------------------------ definitions on one matrix m = [tp, fp, tn, fn]
M(a, b, c, d) == [tp |-> a, fp |-> b, tn |-> c, fn |-> d]
Total(m) == m.tp + m.fp + m.tn + m.fn
Precision(m)   == Q(m.tp, m.tp + m.fp)            \* = ppv = positive_predictive_value
Recall(m)      == Q(m.tp, m.tp + m.fn)            \* = sensitivity = tpr
F1(m)          == Q(2 * m.tp, 2 * m.tp + m.fp + m.fn)
BinaryAcc(m)   == Q(m.tp + m.tn, Total(m))
Specificity(m) == Q(m.tn, m.tn + m.fp)            \* = tnr
FallOut(m)     == Q(m.fp, m.fp + m.tn)            \* = fpr
MissRate(m)    == Q(m.fn, m.fn + m.tp)            \* = fnr
NPV(m)         == Q(m.tn, m.tn + m.fn)            \* = negative_prediction_value = nvp
FDR(m)         == Q(m.fp, m.fp + m.tp)
FOR(m)         == Q(m.fn, m.fn + m.tn)
Threat(m)      == Q(m.tp, m.tp + m.fn + m.fp)     \* = intersection_over_union
PLR(m)         == Div(Recall(m), FallOut(m))
NLR(m)         == Div(MissRate(m), Specificity(m))
DOR(m)         == Div(PLR(m), NLR(m))
Prevalence(m)  == Q(m.tp + m.fn, Total(m))
Informedness(m) == Sub(Add(Recall(m), Specificity(m)), One)
Markedness(m)  == Sub(Add(Precision(m), NPV(m)), One)
BalancedAcc(m) == Half(Add(Recall(m), Specificity(m)))
MccNum(m)      == m.tp * m.tn - m.fp * m.fn
MccDen2(m)     == (m.tp + m.fp) * (m.tp + m.fn) * (m.tn + m.fp) * (m.tn + m.fn)     \* square of the denominator

Names == <<"precision", "ppv", "positive_predictive_value", "recall", "sensitivity", "tpr", "f1_score", "binary_accuracy",
           "specificity", "tnr", "fall_out", "fpr", "miss_rate", "fnr", "negative_prediction_value", "nvp",
           "false_discovery_rate", "false_omission_rate", "threat_score", "intersection_over_union",
           "positive_likelihood_ratio", "negative_likelihood_ratio", "diagnostic_odds_ratio", "prevalence",
           "informedness", "markedness", "balanced_accuracy">>
Value(name, m) ==
  CASE name \in {"precision", "ppv", "positive_predictive_value"} -> Precision(m)
    [] name \in {"recall", "sensitivity", "tpr"} -> Recall(m)
    [] name = "f1_score" -> F1(m)
    [] name = "binary_accuracy" -> BinaryAcc(m)
    [] name \in {"specificity", "tnr"} -> Specificity(m)
    [] name \in {"fall_out", "fpr"} -> FallOut(m)
    [] name \in {"miss_rate", "fnr"} -> MissRate(m)
    [] name \in {"negative_prediction_value", "nvp"} -> NPV(m)
    [] name = "false_discovery_rate" -> FDR(m)
    [] name = "false_omission_rate" -> FOR(m)
    [] name \in {"threat_score", "intersection_over_union"} -> Threat(m)
    [] name = "positive_likelihood_ratio" -> PLR(m)
    [] name = "negative_likelihood_ratio" -> NLR(m)
    [] name = "diagnostic_odds_ratio" -> DOR(m)
    [] name = "prevalence" -> Prevalence(m)
    [] name = "informedness" -> Informedness(m)
    [] name = "markedness" -> Markedness(m)
    [] name = "balanced_accuracy" -> BalancedAcc(m)

Pos == M(tp, fp, tn, fn)
Neg == M(tn, fn, tp, fp)                          \* the same examples from the other class's point of view
Micro == M(tp + tn, fp + fn, tn + tp, fn + fp)    \* counts summed over the two classes
Macro(name) == Half(Add(Value(name, Pos), Value(name, Neg)))

\* ------------------------------------------------------------ laws
Rates == {"precision", "recall", "f1_score", "binary_accuracy", "specificity", "fall_out", "miss_rate",
          "negative_prediction_value", "false_discovery_rate", "false_omission_rate", "threat_score", "prevalence", "balanced_accuracy"}
RatesInRange == \A nme \in Rates : \A m \in {Pos, Neg, Micro} : Leq(Zero, Value(nme, m)) /\ Leq(Value(nme, m), One)
SignedInRange == \A nme \in {"informedness", "markedness"} : Leq(<<-1, 1>>, Value(nme, Pos)) /\ Leq(Value(nme, Pos), One)
\* complements, whenever the denominator is not zero
Complements ==
  /\ (tp + fn > 0 => Eq(Add(Recall(Pos), MissRate(Pos)), One))
  /\ (tn + fp > 0 => Eq(Add(Specificity(Pos), FallOut(Pos)), One))
  /\ (tp + fp > 0 => Eq(Add(Precision(Pos), FDR(Pos)), One))
  /\ (tn + fn > 0 => Eq(Add(NPV(Pos), FOR(Pos)), One))
\* F1 is the harmonic mean of precision and recall (with the zero convention)
F1Harmonic == Eq(F1(Pos), Div(Mul(<<2, 1>>, Mul(Precision(Pos), Recall(Pos))), Add(Precision(Pos), Recall(Pos))))
\* swapping the classes swaps sensitivity and specificity
ClassSymmetry == Eq(Recall(Neg), Specificity(Pos)) /\ Eq(Precision(Neg), NPV(Pos)) /\ MccNum(Neg) = MccNum(Pos)
\* every rate is a ratio of counts: repeating the whole dataset c times changes nothing (and MCC's numerator and squared
\* denominator scale with c^2 and c^4) - the harness replays this with repetition factors that make the counts large
Scaled(c) == M(c * tp, c * fp, c * tn, c * fn)
ScaleInvariant == \A c \in {2, 3} :
                    /\ \A nme \in Rates \cup {"informedness", "markedness"} : Eq(Value(nme, Scaled(c)), Value(nme, Pos))
                    /\ MccNum(Scaled(c)) = c * c * MccNum(Pos) /\ MccDen2(Scaled(c)) = c * c * c * c * MccDen2(Pos)
\* MCC^2 <= 1
MccBounded == MccNum(Pos) * MccNum(Pos) <= MccDen2(Pos)

Emit == PrintT(<<"H", ToJson([tp |-> tp, fp |-> fp, tn |-> tn, fn |-> fn,
                               binary |-> [i \in 1..Len(Names) |-> <<Names[i], Value(Names[i], Pos)>>],
                               micro  |-> [i \in 1..Len(Names) |-> <<Names[i], Value(Names[i], Micro)>>],
                               macro  |-> [i \in 1..Len(Names) |-> <<Names[i], Macro(Names[i])>>],
                               mcc_num |-> MccNum(Pos), mcc_den2 |-> MccDen2(Pos)])>>)
=============================================================================
