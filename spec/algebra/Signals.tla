------------------------------- MODULE Signals -------------------------------
(***************************************************************************)
(* Textbook definitions of the per-example signals (C07):                  *)
(* signals/topk_accuracy.topk_accurate and signals/flip_masks.*.           *)
(*                                                                         *)
(* top-k accuracy: scores are a sequence of pairwise different integers    *)
(* (ties have no defined rank), optionally multiplied by positive weights; *)
(* the label is accurate at k iff fewer than k classes score strictly      *)
(* higher - in particular always for k >= number of classes.               *)
(* flip masks: for a base and a model prediction and a threshold,          *)
(*   binary      = the two sides of the threshold differ                   *)
(*   neg_to_pos  = base <= threshold < model                               *)
(*   pos_to_neg  = base > threshold >= model                               *)
(***************************************************************************)
EXTENDS Integers, Sequences, FiniteSets, TLC, Json

CONSTANTS NClasses, MaxScore, Thresholds

Scores == {s \in [1..NClasses -> 0..MaxScore] : \A i, j \in 1..NClasses : i # j => s[i] # s[j]}
Weights == {[i \in 1..NClasses |-> 1], [i \in 1..NClasses |-> IF i = 1 THEN 3 ELSE 1]}

VARIABLES kind, scores, weights, base, model, thr
vars == <<kind, scores, weights, base, model, thr>>
Init == \/ /\ kind = "topk" /\ scores \in Scores /\ weights \in Weights
           /\ \A i, j \in 1..NClasses : i # j => scores[i] * weights[i] # scores[j] * weights[j]
           /\ base = 0 /\ model = 0 /\ thr = 0
        \/ /\ kind = "flip" /\ base \in 0..MaxScore /\ model \in 0..MaxScore /\ thr \in Thresholds
           /\ scores = <<>> /\ weights = <<>>
Next == UNCHANGED vars
Spec == Init /\ [][Next]_vars

W(i) == scores[i] * weights[i]
Higher(c) == Cardinality({i \in 1..NClasses : W(i) > W(c)})
Accurate(c, k) == Higher(c) < k
Binary == (base > thr) # (model > thr)
NegToPos == base <= thr /\ thr < model
PosToNeg == base > thr /\ thr >= model

\* laws
TopkMonotone == kind = "topk" => \A c \in 1..NClasses : \A k \in 1..NClasses : Accurate(c, k) => Accurate(c, k + 1)
TopkAllAtN == kind = "topk" => \A c \in 1..NClasses : Accurate(c, NClasses) /\ Accurate(c, NClasses + 2)
TopkExactlyK == kind = "topk" => \A k \in 1..NClasses : Cardinality({c \in 1..NClasses : Accurate(c, k)}) = k
FlipPartition == kind = "flip" => (Binary <=> (NegToPos \/ PosToNeg)) /\ ~(NegToPos /\ PosToNeg)

Emit == PrintT(<<"H", ToJson(
  IF kind = "topk"
  THEN [kind |-> kind, scores |-> scores, weights |-> weights,
        accurate |-> [c \in 1..NClasses |-> [k \in 1..(NClasses + 2) |-> Accurate(c, k)]]]
  ELSE [kind |-> kind, base |-> base, model |-> model, thr |-> thr,
        binary |-> Binary, neg_to_pos |-> NegToPos, pos_to_neg |-> PosToNeg])>>)
=============================================================================
