-------------------------------- MODULE Stats --------------------------------
(***************************************************************************)
(* Textbook definitions of the rolling statistics (C07): count / total /   *)
(* mean / population variance with NaN skipping (rolling_stats.Mean,        *)
(* MeanAndVariance, Var), histogram with half-open bins and a closed last   *)
(* bin (rolling_stats.Histogram over np.histogram), and min / max / count   *)
(* (MinMaxAndCount), over a stream of batches of small integers where NaN   *)
(* is the marker value.  Exact: sums and sums of squares are integers, the  *)
(* mean is sum / n, the variance (n * sumsq - sum^2) / n^2.                 *)
(***************************************************************************)
EXTENDS Integers, Sequences, FiniteSets, TLC, Json

CONSTANTS Values,        \* the integers a batch may contain
          NaN,           \* the marker standing for float('nan')
          MaxBatches, MaxLen,
          Lo, Hi, Bins   \* histogram range [Lo, Hi] cut into Bins equal bins (Hi - Lo divisible by Bins)

BatchesOf == UNION {[1..m -> Values \cup {NaN}] : m \in 1..MaxLen}
VARIABLE stream
Init == stream = <<>>
Next == \E b \in BatchesOf : Len(stream) < MaxBatches /\ stream' = Append(stream, b)
Spec == Init /\ [][Next]_stream

RECURSIVE Flat(_)
Flat(ss) == IF ss = <<>> THEN <<>> ELSE Head(ss) \o Flat(Tail(ss))
All == Flat(stream)
Nums == SelectSeq(All, LAMBDA v : v # NaN)
RECURSIVE SumSeq(_)
SumSeq(q) == IF q = <<>> THEN 0 ELSE Head(q) + SumSeq(Tail(q))
Count == Len(Nums)
Total == SumSeq(Nums)
SumSq == SumSeq([i \in 1..Len(Nums) |-> Nums[i] * Nums[i]])
\* mean = Total / Count, var = (Count * SumSq - Total^2) / Count^2; undefined (NaN) when Count = 0
VarNum == Count * SumSq - Total * Total
VarDen == Count * Count

Width == (Hi - Lo) \div Bins
BinOf(v) == IF v = Hi THEN Bins ELSE ((v - Lo) \div Width) + 1
InHist == SelectSeq(Nums, LAMBDA v : Lo <= v /\ v <= Hi)
Hist == [b \in 1..Bins |-> Cardinality({i \in 1..Len(InHist) : BinOf(InHist[i]) = b})]

MinV == IF Nums = <<>> THEN 0 ELSE CHOOSE v \in {Nums[i] : i \in 1..Len(Nums)} : \A i \in 1..Len(Nums) : v <= Nums[i]
MaxV == IF Nums = <<>> THEN 0 ELSE CHOOSE v \in {Nums[i] : i \in 1..Len(Nums)} : \A i \in 1..Len(Nums) : v >= Nums[i]

\* ------------------------------------------------------------ laws
VarNonNegative == VarNum >= 0                               \* Cauchy-Schwarz
VarZeroIffConstant == (Count > 0) => ((VarNum = 0) <=> \A i, j \in 1..Len(Nums) : Nums[i] = Nums[j])
MeanBetweenMinMax == Count > 0 => (MinV * Count <= Total /\ Total <= MaxV * Count)
HistCountsInRange == SumSeq(Hist) = Len(InHist)
\* splitting the stream anywhere and combining the parts gives the same sufficient statistics
SplitInvariant == \A c \in 0..Len(stream) :
   LET a == SelectSeq(Flat(SubSeq(stream, 1, c)), LAMBDA v : v # NaN)
       b == SelectSeq(Flat(SubSeq(stream, c + 1, Len(stream))), LAMBDA v : v # NaN) IN
   Len(a) + Len(b) = Count /\ SumSeq(a) + SumSeq(b) = Total

Emit == stream # <<>> =>
  PrintT(<<"H", ToJson([stream |-> stream, count |-> Count, total |-> Total, var_num |-> VarNum, var_den |-> VarDen,
                         hist |-> Hist, min |-> MinV, max |-> MaxV, n_all |-> Len(All)])>>)
=============================================================================
