------------------------------ MODULE Thresholded ------------------------------
(***************************************************************************)
(* Definition of the thresholded retrieval metrics (C07):                   *)
(* aggregates.retrieval.ThresholdedRetrieval.  An example is a set of       *)
(* relevant items, a ranking of distinct items and a score per ranked item; *)
(* at a threshold t a ranked item counts when its score is above t:         *)
(*   precision(t) = relevant ranked items above t / ranked items above t    *)
(*   recall(t)    = relevant items ranked above t / relevant items          *)
(* (0 where the denominator is 0), f1 their harmonic mean, summed over the  *)
(* examples of all batches.  Scores and thresholds are integers here and    *)
(* are divided by a power of two by the replayer.                           *)
(***************************************************************************)
EXTENDS Integers, Sequences, FiniteSets, TLC, Json

CONSTANTS Vocab, Scores, Thr, MaxExamples, MaxRank

Rankings == UNION {{r \in [1..m -> Vocab] : \A i, j \in 1..m : i # j => r[i] # r[j]} : m \in 0..MaxRank}
Examples == UNION {{[rel |-> rel, rank |-> r, prob |-> p] : p \in [1..Len(r) -> Scores]} : rel \in SUBSET Vocab, r \in Rankings}

VARIABLE stream
Init == stream = <<>>
Next == \E e \in Examples : Len(stream) < MaxExamples /\ stream' = Append(stream, e)
Spec == Init /\ [][Next]_stream

RECURSIVE SumSeq(_)
SumSeq(q) == IF q = <<>> THEN 0 ELSE Head(q) + SumSeq(Tail(q))
Over(f(_)) == SumSeq([i \in 1..Len(stream) |-> f(stream[i])])

Above(e, t) == {j \in 1..Len(e.rank) : e.prob[j] > t}
PPredAt(t) == LET F(e) == Cardinality(Above(e, t)) IN Over(F)
TPPredAt(t) == LET F(e) == Cardinality({j \in Above(e, t) : e.rank[j] \in e.rel}) IN Over(F)
TPTrueAt(t) == LET F(e) == Cardinality({x \in e.rel : \E j \in Above(e, t) : e.rank[j] = x}) IN Over(F)
PTrue == LET F(e) == Cardinality(e.rel) IN Over(F)

\* ------------------------------------------------------------ laws
SameHits == \A t \in Thr : TPPredAt(t) = TPTrueAt(t)             \* items are ranked once
Bounded == \A t \in Thr : TPPredAt(t) <= PPredAt(t) /\ TPTrueAt(t) <= PTrue
Monotone == \A t, u \in Thr : t <= u => (PPredAt(u) <= PPredAt(t) /\ TPPredAt(u) <= TPPredAt(t))
\* an example without relevant items still counts its ranked items (false positives)
FalsePositivesCount == \A t \in Thr : PPredAt(t) - TPPredAt(t) =
    (LET F(e) == Cardinality({j \in Above(e, t) : e.rank[j] \notin e.rel}) IN Over(F))

Emit == stream # <<>> =>
  PrintT(<<"H", ToJson([stream |-> [i \in 1..Len(stream) |-> [rel |-> stream[i].rel, rank |-> stream[i].rank, prob |-> stream[i].prob]],
                         ptrue |-> PTrue,
                         at |-> [t \in Thr |-> <<t, TPTrueAt(t), TPPredAt(t), PPredAt(t)>>]])>>)
=============================================================================
