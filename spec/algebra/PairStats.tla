------------------------------ MODULE PairStats ------------------------------
(***************************************************************************)
(* Textbook definitions of the two-variable rolling statistics (C07):      *)
(* Pearson's r and the reflective (not centred) correlation               *)
(* (rolling_stats.RRegression), Tjur's coefficient of discrimination and   *)
(* its relative form (R2Tjur, R2TjurRelative), the symmetric prediction    *)
(* difference (SymmetricPredictionDifference), the calibration histogram   *)
(* (metrics.classification.CalibrationHistogram) and the binary cross      *)
(* entropy (signals.cross_entropy), over a stream of batches of pairs      *)
(* <<x, y>> of small integers.  Exact: every value is a rational           *)
(* <<numerator, denominator>> (or a squared rational plus a sign where the *)
(* definition takes a square root); the replayer scales the integers to    *)
(* the unit interval where the definition asks for probabilities.          *)
(***************************************************************************)
EXTENDS Integers, Sequences, FiniteSets, TLC, Json

CONSTANTS Xs,            \* values of the first component (predictions: x / Scale)
          Ys,            \* values of the second component ({0, 1} makes the labels binary)
          MaxBatches, MaxLen,
          Scale,         \* predictions are x / Scale; Scale is divisible by Bins
          Bins           \* calibration histogram over [0, 1] cut into Bins equal bins

Pairs == Xs \X Ys
BatchesOf == UNION {[1..m -> Pairs] : m \in 1..MaxLen}
VARIABLE stream
Init == stream = <<>>
Next == \E b \in BatchesOf : Len(stream) < MaxBatches /\ stream' = Append(stream, b)
Spec == Init /\ [][Next]_stream

RECURSIVE Flat(_)
Flat(ss) == IF ss = <<>> THEN <<>> ELSE Head(ss) \o Flat(Tail(ss))
All == Flat(stream)
N == Len(All)
RECURSIVE SumSeq(_)
SumSeq(q) == IF q = <<>> THEN 0 ELSE Head(q) + SumSeq(Tail(q))
Sum(f(_)) == SumSeq([i \in 1..N |-> f(All[i])])
Abs(v) == IF v < 0 THEN -v ELSE v

FX(p) == p[1]
FY(p) == p[2]
FXY(p) == p[1] * p[2]
FXX(p) == p[1] * p[1]
FYY(p) == p[2] * p[2]
Sx == Sum(FX)
Sy == Sum(FY)
Sxy == Sum(FXY)
Sxx == Sum(FXX)
Syy == Sum(FYY)

\* ---- Pearson: r = cov / (sd_x sd_y) = CovN / sqrt(VxN * VyN); undefined when a variable is constant
CovN == N * Sxy - Sx * Sy
VxN == N * Sxx - Sx * Sx
VyN == N * Syy - Sy * Sy
PearsonDefined == VxN > 0 /\ VyN > 0
Sign(v) == IF v > 0 THEN 1 ELSE IF v < 0 THEN -1 ELSE 0
\* reflective correlation: sum xy / sqrt(sum xx * sum yy)
ReflDefined == Sxx > 0 /\ Syy > 0

\* ---- Tjur (labels y in {0, 1}, fitted probability x / Scale):
\*      D = mean(x | y = 1) - mean(x | y = 0) = (Sxy * N0 - (Sx - Sxy) * N1) / (N1 * N0)
Binary == \A i \in 1..N : All[i][2] \in {0, 1}
N1 == Sy
N0 == N - Sy
TjurDefined == Binary /\ N1 > 0 /\ N0 > 0
TjurNum == Sxy * N0 - (Sx - Sxy) * N1
TjurDen == N1 * N0 * Scale
\* relative: mean(x | y = 1) / mean(x | y = 0)
TjurRelDefined == Binary /\ N1 > 0 /\ (Sx - Sxy) # 0
TjurRelNum == Sxy * N0
TjurRelDen == N1 * (Sx - Sxy)

\* ---- symmetric prediction difference: mean of 2 |x - y| / |x + y| (a pair with x + y = 0 contributes 0)
MaxAbsSum == LET s == {Abs(p[1] + p[2]) : p \in Pairs} IN CHOOSE m \in s : \A o \in s : o <= m
RECURSIVE Lcm(_)
Gcd(a, b) == CHOOSE g \in 1..a : a % g = 0 /\ b % g = 0 /\ \A h \in 1..a : (a % h = 0 /\ b % h = 0) => h <= g
Lcm(m) == IF m <= 1 THEN 1 ELSE LET l == Lcm(m - 1) IN (l * m) \div Gcd(m, l)
L == Lcm(MaxAbsSum)
FSpd(p) == IF p[1] + p[2] = 0 THEN 0 ELSE Abs(p[1] - p[2]) * (L \div Abs(p[1] + p[2]))
SpdNum == 2 * Sum(FSpd)
SpdDen == L * N

\* ---- calibration histogram over [0, 1]: labels y (0 / 1) and predictions x / Scale are binned together
\*      (half-open bins, the last one closed); per bin: how many values, the sum of the labels, the sum of the predictions
PerBin == Scale \div Bins
BinOfScaled(v) == IF v = Scale THEN Bins ELSE (v \div PerBin) + 1
CalibDefined == Binary /\ \A i \in 1..N : All[i][1] \in 0..Scale
CountIn(b) == Cardinality({i \in 1..N : BinOfScaled(All[i][1]) = b}) + Cardinality({i \in 1..N : BinOfScaled(All[i][2] * Scale) = b})
FLabIn(b, p) == IF BinOfScaled(p[2] * Scale) = b THEN p[2] ELSE 0
FPredIn(b, p) == IF BinOfScaled(p[1]) = b THEN p[1] ELSE 0
LabelsIn(b) == SumSeq([i \in 1..N |-> FLabIn(b, All[i])])
PredsIn(b) == SumSeq([i \in 1..N |-> FPredIn(b, All[i])])       \* times 1 / Scale

\* ------------------------------------------------------------ laws
CauchySchwarz == CovN * CovN <= VxN * VyN                 \* |r| <= 1
VarNonNegative == VxN >= 0 /\ VyN >= 0
ReflBounded == Sxy * Sxy <= Sxx * Syy
PearsonSymmetric ==                                       \* swapping the variables leaves r alone
  LET sw == [i \in 1..N |-> <<All[i][2], All[i][1]>>] IN
  N * SumSeq([i \in 1..N |-> sw[i][1] * sw[i][2]]) - SumSeq([i \in 1..N |-> sw[i][1]]) * SumSeq([i \in 1..N |-> sw[i][2]]) = CovN
TjurInRange == (TjurDefined /\ \A i \in 1..N : All[i][1] \in 0..Scale) => (-TjurDen <= TjurNum * 1 /\ TjurNum <= TjurDen)
SpdInRange == N > 0 /\ (\A i \in 1..N : All[i][1] >= 0 /\ All[i][2] >= 0) => (0 <= SpdNum /\ SpdNum <= 2 * SpdDen)
CalibCountsAll == CalibDefined => SumSeq([b \in 1..Bins |-> CountIn(b)]) = 2 * N
CalibSums == CalibDefined => (SumSeq([b \in 1..Bins |-> LabelsIn(b)]) = Sy /\ SumSeq([b \in 1..Bins |-> PredsIn(b)]) = Sx)

Emit == stream # <<>> =>
  PrintT(<<"H", ToJson([stream |-> stream, n |-> N,
      pearson |-> IF PearsonDefined THEN <<Sign(CovN), CovN * CovN, VxN * VyN>> ELSE <<>>,
      refl |-> IF ReflDefined THEN <<Sign(Sxy), Sxy * Sxy, Sxx * Syy>> ELSE <<>>,
      tjur |-> IF TjurDefined THEN <<TjurNum, TjurDen>> ELSE <<>>,
      tjur_rel |-> IF TjurRelDefined THEN <<TjurRelNum, TjurRelDen>> ELSE <<>>,
      binary |-> Binary,
      spd |-> <<SpdNum, SpdDen>>,
      calib |-> IF CalibDefined THEN [b \in 1..Bins |-> <<CountIn(b), LabelsIn(b), PredsIn(b)>>] ELSE <<>>])>>)
=============================================================================
