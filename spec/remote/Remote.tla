------------------------------- MODULE Remote -------------------------------
(***************************************************************************)
(* Remote evaluation (C14): CourierClient.get_result / RemoteObject /      *)
(* RemoteIterator on the client (courier_utils.py:210-379, 659-703) and    *)
(* CourierServer._maybe_make on the server (courier_server.py:174-226).    *)
(*                                                                         *)
(* The server keeps objects in a table (the lazy-object cache); clients    *)
(* hold references (ids).  A client request is three steps: Call (client   *)
(* thread: the request leaves), Handle (a server handler thread evaluates  *)
(* it atomically against the table: the linearization point) and Ret (the  *)
(* client sees the answer).  Handlers of different clients interleave      *)
(* freely.  Shutdown may happen at any time; afterwards the server keeps   *)
(* answering until it stops, but converts every exception to a             *)
(* TimeoutError (courier_server.py:214-216); once stopped, calls end with  *)
(* a timeout on the client.                                                *)
(*                                                                         *)
(* Object kinds (same names in harness/remotelib.py):                      *)
(*   box(n):  .val = n   .items = (n, n+1)   .plus(y) = n+y   .me() = self *)
(*            .boom() raises ValueError     .nope raises AttributeError    *)
(*   cnt:     .bump() increments and returns the new count (server state)  *)
(*            .tmo() raises TimeoutError (the evaluated code, not transport) *)
(*            .gboom() blocks inside the handler until the environment      *)
(*            opens a gate, then raises ValueError: an evaluation that      *)
(*            spans a shutdown request                                      *)
(*   list:    iter(h) creates a server-side iterator over Src              *)
(*   iter:    next -> the next element of Src, StopIteration at the end    *)
(***************************************************************************)
EXTENDS Integers, Sequences, FiniteSets, TLC, Json

CONSTANTS Clients, L, MaxCalls, MaxObjs, Kinds,
          AllowShutdown     \* BOOLEAN

NoReq  == [t |-> "none", kind |-> "", id |-> 0, op |-> ""]
NoResp == [k |-> "none"]
NoObj  == [k |-> "none", n |-> 0]
Src(i) == 10 + i                 \* the i-th element of every list (1-based)
I(n)   == [k |-> "int", n |-> n]
Ref(i) == [k |-> "ref", n |-> i]
Err(e) == [k |-> "err", e |-> e]
IsErr(v) == v.k = "err"

BoxOps  == {"val", "items0", "items1", "items2", "plus1", "me_val", "boom", "nope", "tmo", "gboom", "uval", "uplus2"}   \* u...: names with a leading underscore
CntOps  == {"bump", "count"}
IterOps == {"next"}
ListOps == {"iter", "item0", "count11", "sortnone"}
OpsOf(kind) == CASE kind = "box" -> BoxOps [] kind = "cnt" -> CntOps [] kind = "iter" -> IterOps [] kind = "list" -> ListOps [] kind = "nil" -> {"get"}
AllOps == BoxOps \cup CntOps \cup IterOps \cup ListOps \cup {"get"}

VARIABLES store,      \* server table: Seq of objects, id = index
          known,      \* ids a client may use (references travel between clients by pickling)
          pend,       \* [Clients -> request or NoReq]
          resp,       \* [Clients -> response or NoResp]   (set by Handle, consumed by Ret)
          shut,       \* "up" | "shutting" | "stopped" | "restarted" (serving again, like "up")
          calls,      \* number of requests issued
          gate,       \* BOOLEAN: gboom evaluations may finish
          hshut,      \* [Clients -> server phase when the pending request was handled] (history)
          hist        \* [Clients -> Seq of [req, resp, sh]]
vars == <<store, known, pend, resp, shut, calls, gate, hshut, hist>>

Init == /\ store = <<>> /\ known = {} /\ pend = [c \in Clients |-> NoReq] /\ resp = [c \in Clients |-> NoResp]
        /\ shut = "up" /\ calls = 0 /\ hist = [c \in Clients |-> <<>>] /\ hshut = [c \in Clients |-> "up"] /\ gate = FALSE

NewObj(kind) == CASE kind = "box"  -> [k |-> "box", n |-> 3]
                  [] kind = "cnt"  -> [k |-> "cnt", n |-> 0]
                  [] kind = "list" -> [k |-> "list", n |-> 0]
                  [] kind = "iter" -> [k |-> "iter", n |-> 0]
                  [] kind = "nil"  -> [k |-> "nil", n |-> 0]          \* the evaluated code returned None and the result is kept on the server

NoneVal == -7          \* stands for Python's None in answers
\* the meaning of one chained operation on an object: <<value, object afterwards, new object or NoObj>>
Apply(o, op) ==
  CASE o.k = "box" /\ op = "val"    -> <<I(o.n), o, NoObj>>
    [] o.k = "box" /\ op = "items0" -> <<I(o.n), o, NoObj>>
    [] o.k = "box" /\ op = "items1" -> <<I(o.n + 1), o, NoObj>>
    [] o.k = "box" /\ op = "items2" -> <<Err("IndexError"), o, NoObj>>
    [] o.k = "box" /\ op = "plus1"  -> <<I(o.n + 1), o, NoObj>>
    [] o.k = "box" /\ op = "uval"   -> <<I(o.n), o, NoObj>>                   \* obj._val (underscore-named members are members)
    [] o.k = "box" /\ op = "uplus2" -> <<I(o.n + 2), o, NoObj>>               \* obj._plus2()
    [] o.k = "box" /\ op = "me_val" -> <<I(o.n), o, NoObj>>
    [] o.k = "box" /\ op = "boom"   -> <<Err("ValueError"), o, NoObj>>
    [] o.k = "box" /\ op = "tmo"    -> <<Err("TimeoutError"), o, NoObj>>      \* the evaluated code itself raises TimeoutError
    [] o.k = "box" /\ op = "gboom"  -> <<Err("ValueError"), o, NoObj>>        \* blocks until the gate opens, then raises
    [] o.k = "cnt" /\ op = "bump"   -> <<I(o.n + 1), [o EXCEPT !.n = @ + 1], NoObj>>
    [] o.k = "cnt" /\ op = "count"  -> <<I(o.n), o, NoObj>>
    [] o.k = "iter" /\ op = "next"  -> IF o.n < L THEN <<I(Src(o.n + 1)), [o EXCEPT !.n = @ + 1], NoObj>>
                                                  ELSE <<Err("StopIteration"), o, NoObj>>
    [] o.k = "list" /\ op = "iter"  -> <<NoResp, o, [k |-> "iter", n |-> 0]>>     \* answered with a reference
    [] o.k = "nil" /\ op = "get" -> <<I(NoneVal), o, NoObj>>                  \* fetching the kept result: None, not "missing"
    [] o.k = "list" /\ op = "sortnone" -> <<I(NoneVal), o, NoObj>>        \* list.sort(): evaluated on the server, the answer is None
    [] o.k = "list" /\ op = "item0" -> IF L > 0 THEN <<I(Src(1)), o, NoObj>> ELSE <<Err("IndexError"), o, NoObj>>
    [] o.k = "list" /\ op = "count11" -> <<I(IF L >= 1 THEN 1 ELSE 0), o, NoObj>>
    [] OTHER                        -> <<Err("AttributeError"), o, NoObj>>

\* ---- client thread c: the request leaves
CallNew(c, kind) ==
  /\ pend[c] = NoReq /\ calls < MaxCalls /\ Len(store) < MaxObjs /\ shut # "stopped"
  /\ pend' = [pend EXCEPT ![c] = [t |-> "new", kind |-> kind, id |-> 0, op |-> ""]]
  /\ calls' = calls + 1
  /\ UNCHANGED <<store, known, resp, shut, gate, hshut, hist>>

CallOp(c, id, op) ==
  /\ pend[c] = NoReq /\ calls < MaxCalls /\ id \in known
  /\ op \in OpsOf(store[id].k) \cup {"nope"}
  /\ op = "iter" => Len(store) < MaxObjs
  /\ pend' = [pend EXCEPT ![c] = [t |-> "op", kind |-> "", id |-> id, op |-> op]]
  /\ calls' = calls + 1
  /\ UNCHANGED <<store, known, resp, shut, gate, hshut, hist>>

\* ---- a server handler thread evaluates the request of client c (linearization point)
Handle(c) ==
  /\ pend[c] # NoReq /\ resp[c] = NoResp /\ shut # "stopped"
  /\ (pend[c].t = "op" /\ pend[c].op = "gboom") => gate          \* the evaluation is still blocked
  /\ LET r == pend[c] IN
     IF r.t = "new"
     THEN /\ store' = Append(store, NewObj(r.kind))
          /\ resp' = [resp EXCEPT ![c] = Ref(Len(store) + 1)]
     ELSE LET a == Apply(store[r.id], r.op) IN
          /\ store' = IF a[3] = NoObj THEN [store EXCEPT ![r.id] = a[2]] ELSE Append(store, a[3])
          /\ resp' = [resp EXCEPT ![c] =
                        IF a[3] # NoObj THEN Ref(Len(store) + 1)
                        ELSE IF IsErr(a[1]) /\ shut = "shutting" THEN Err("TimeoutError") ELSE a[1]]
  /\ hshut' = [hshut EXCEPT ![c] = shut]
  /\ UNCHANGED <<known, pend, shut, calls, gate, hist>>

\* ---- the call ends at a stopped server: the client gives up with some connection error (outside C14)
GiveUp(c) ==
  /\ pend[c] # NoReq /\ resp[c] = NoResp /\ shut = "stopped"
  /\ resp' = [resp EXCEPT ![c] = Err("Unreachable")]
  /\ hshut' = [hshut EXCEPT ![c] = shut]
  /\ UNCHANGED <<store, known, pend, shut, calls, gate, hist>>

\* ---- client thread c sees the answer
Ret(c) ==
  /\ pend[c] # NoReq /\ resp[c] # NoResp
  /\ hist' = [hist EXCEPT ![c] = Append(@, [req |-> pend[c], resp |-> resp[c], sh |-> hshut[c]])]
  /\ known' = IF resp[c].k = "ref" THEN known \cup {resp[c].n} ELSE known
  /\ pend' = [pend EXCEPT ![c] = NoReq] /\ resp' = [resp EXCEPT ![c] = NoResp]
  /\ UNCHANGED <<store, shut, calls, gate, hshut>>

Shutdown == /\ AllowShutdown /\ shut = "up" /\ shut' = "shutting"
            /\ UNCHANGED <<store, known, pend, resp, calls, gate, hshut, hist>>
Stop     == /\ shut = "shutting" /\ shut' = "stopped"
            /\ UNCHANGED <<store, known, pend, resp, calls, gate, hshut, hist>>
\* start() on the same server object after a stop: it serves again like a fresh one (build_server resets the
\* shutdown flag, courier_server.py:262-269); the object table is the process-wide lazy-object cache and survives
Restart  == /\ AllowShutdown /\ shut = "stopped" /\ \A c \in Clients : pend[c] = NoReq
            /\ shut' = "restarted"
            /\ UNCHANGED <<store, known, pend, resp, calls, gate, hshut, hist>>

OpenGate == /\ ~gate /\ gate' = TRUE
            /\ UNCHANGED <<store, known, pend, resp, shut, calls, hshut, hist>>

Next == \/ \E c \in Clients : \/ \E kind \in Kinds : CallNew(c, kind)
                              \/ \E id \in 1..MaxObjs, op \in AllOps \cup {"nope"} : CallOp(c, id, op)
                              \/ Handle(c) \/ GiveUp(c) \/ Ret(c)
        \/ Shutdown \/ Stop \/ Restart \/ OpenGate
Fair == WF_vars(OpenGate) /\ \A c \in Clients : WF_vars(Handle(c)) /\ WF_vars(GiveUp(c)) /\ WF_vars(Ret(c))
Spec == Init /\ [][Next]_vars /\ Fair

\* ------------------------------------------------------------ properties
\* answers to op on id: those already seen by clients and those on their way back
Answers(id, op) ==
  {[c |-> c, j |-> j, v |-> hist[c][j].resp] : <<c, j>> \in
     {p \in Clients \X (1..MaxCalls) : p[2] <= Len(hist[p[1]]) /\ hist[p[1]][p[2]].req.t = "op"
                                        /\ hist[p[1]][p[2]].req.id = id /\ hist[p[1]][p[2]].req.op = op}}
  \cup {[c |-> c, j |-> Len(hist[c]) + 1, v |-> resp[c]] :
          c \in {d \in Clients : pend[d] # NoReq /\ resp[d] # NoResp /\ pend[d].t = "op" /\ pend[d].id = id /\ pend[d].op = op}}

\* objects stay on the server: an answer is a plain value, an exception or a reference
OnlyValuesTravel == \A c \in Clients : resp[c] # NoResp => resp[c].k \in {"int", "ref", "err"}
\* a remote iterator yields exactly the underlying elements: every element exactly once over all
\* clients, a prefix of the source without gaps, and in increasing order for each client
IterExactlyOnce ==
  \A id \in 1..Len(store) : store[id].k = "iter" =>
    LET got == {a \in Answers(id, "next") : a.v.k = "int"} IN
      /\ \A a, b \in got : a.v.n = b.v.n => a = b
      /\ {a.v.n : a \in got} = {Src(i) : i \in 1..store[id].n}
      /\ \A a, b \in got : (a.c = b.c /\ a.j < b.j) => a.v.n < b.v.n
\* exhaustion is stable: after StopIteration a client never gets another element from that iterator
ExhaustionStable ==
  \A id \in 1..Len(store) : store[id].k = "iter" =>
    \A a, b \in Answers(id, "next") : (a.c = b.c /\ a.j < b.j /\ a.v = Err("StopIteration")) => b.v.k = "err"
\* and StopIteration is only ever answered when all L elements were handed out
StopOnlyAtEnd ==
  \A id \in 1..Len(store) : store[id].k = "iter" =>
    \A a \in Answers(id, "next") : a.v = Err("StopIteration") => store[id].n = L
\* server-side state is shared by all references: bump answers are distinct and gap-free
CounterLinearizable ==
  \A id \in 1..Len(store) : store[id].k = "cnt" =>
    LET got == {a \in Answers(id, "bump") : a.v.k = "int"} IN
      /\ \A a, b \in got : a.v.n = b.v.n => a = b
      /\ {a.v.n : a \in got} = 1..store[id].n
\* while shutting down or stopped the only error a client is answered with is the retriable TimeoutError
ShutdownErrorsAreTimeouts ==
  [][\A c \in Clients : (resp[c] = NoResp /\ resp'[c] # NoResp /\ shut = "shutting" /\ IsErr(resp'[c])) => resp'[c] = Err("TimeoutError")]_vars
\* sequential consistency with the local object: with one client, each answer is what the same
\* operation gives on a local twin (used by the replay; here: answers are functions of the table)
\* every request is answered (no hang), also across shutdown
Answered == \A c \in Clients : (pend[c] # NoReq) ~> (pend[c] = NoReq)

Emit == (calls = MaxCalls /\ \A c \in Clients : pend[c] = NoReq)
          => PrintT(<<"H", ToJson([hist |-> hist, shut |-> shut])>>)
=============================================================================
