--------------------------------- MODULE Lru ---------------------------------
(***************************************************************************)
(* The bounded cache behind cached lazy calls and lazy objects (C17).      *)
(*                                                                         *)
(*   func_utils.LruCache              order / hits / misses / currsize     *)
(*   lazy_fns._maybe_lru_cache        Make(k): hit -> the identical cached *)
(*                                    object, no evaluation; miss ->       *)
(*                                    evaluate once, insert               *)
(*   LazyObject.new / result_         NewObj(k): direct insert;            *)
(*                                    Deref(k): hit -> object, miss ->     *)
(*                                    LazyObjectMissingError (no insert)   *)
(*                                                                         *)
(* `order` lists the keys from least to most recently used.  `gen[k]` is   *)
(* the number of times key k has been evaluated: the object identity the   *)
(* user sees is <<k, gen[k]>>, so "returns the identical object until the  *)
(* cache is cleared or evicts it" is the statement that a hit returns the  *)
(* current generation and only a miss creates a new one.                   *)
(*                                                                         *)
(* Deviation of the code kept on purpose: __setitem__ on a key that is     *)
(* already present replaces the value but does not refresh its recency     *)
(* (only reachable through cache_insert / NewObj on a live key).           *)
(***************************************************************************)
EXTENDS Integers, Sequences, FiniteSets, TLC, Json

CONSTANTS Keys, Cap, MaxOps, Ops   \* Ops: subset of {"make", "new", "deref", "clear"} enabled in this run

VARIABLES order, gen, val, hits, misses, hist
vars == <<order, gen, val, hits, misses, hist>>

InCache(k) == \E j \in 1..Len(order) : order[j] = k
Without(s, k) == SelectSeq(s, LAMBDA x : x # k)
Touch(k) == Append(Without(order, k), k)                  \* move_to_end
Evict(s) == IF Len(s) > Cap THEN Tail(s) ELSE s           \* drop the least recently used

Init == /\ order = <<>>
        /\ gen = [k \in Keys |-> 0]
        /\ val = [k \in Keys |-> 0]       \* generation stored in the cache for k
        /\ hits = 0 /\ misses = 0
        /\ hist = <<>>

\* maybe_make of a cached LazyFn with key k
Make(k) ==
  /\ IF InCache(k)
     THEN /\ order' = Touch(k)
          /\ hits' = hits + 1
          /\ UNCHANGED <<gen, val, misses>>
          /\ hist' = Append(hist, [op |-> "make", k |-> k, hit |-> TRUE, obj |-> val[k], evals |-> gen[k],
                                   order |-> order', hits |-> hits', misses |-> misses])
     ELSE /\ order' = Evict(Append(order, k))
          /\ misses' = misses + 1
          /\ gen' = [gen EXCEPT ![k] = @ + 1]
          /\ val' = [val EXCEPT ![k] = gen'[k]]
          /\ UNCHANGED hits
          /\ hist' = Append(hist, [op |-> "make", k |-> k, hit |-> FALSE, obj |-> gen'[k], evals |-> gen'[k],
                                   order |-> order', hits |-> hits, misses |-> misses'])

\* LazyObject.new(value): cache_insert, no lookup
NewObj(k) ==
  /\ gen' = [gen EXCEPT ![k] = @ + 1]
  /\ val' = [val EXCEPT ![k] = gen'[k]]
  /\ order' = IF InCache(k) THEN order ELSE Evict(Append(order, k))   \* existing key keeps its recency
  /\ UNCHANGED <<hits, misses>>
  /\ hist' = Append(hist, [op |-> "new", k |-> k, obj |-> gen'[k], order |-> order', hits |-> hits, misses |-> misses])

\* maybe_make of a LazyObject reference
Deref(k) ==
  /\ IF InCache(k)
     THEN /\ order' = Touch(k) /\ hits' = hits + 1 /\ UNCHANGED misses
          /\ hist' = Append(hist, [op |-> "deref", k |-> k, hit |-> TRUE, obj |-> val[k],
                                   order |-> order', hits |-> hits', misses |-> misses])
     ELSE /\ misses' = misses + 1 /\ UNCHANGED <<order, hits>>
          /\ hist' = Append(hist, [op |-> "deref", k |-> k, hit |-> FALSE, obj |-> -1,
                                   order |-> order, hits |-> hits, misses |-> misses'])
  /\ UNCHANGED <<gen, val>>

Clear ==
  /\ order # <<>>
  /\ order' = <<>> /\ hits' = 0 /\ misses' = 0
  /\ UNCHANGED <<gen, val>>
  /\ hist' = Append(hist, [op |-> "clear", order |-> <<>>, hits |-> 0, misses |-> 0])

MakeA  == "make"  \in Ops /\ \E k \in Keys : Make(k)
NewA   == "new"   \in Ops /\ \E k \in Keys : NewObj(k)
DerefA == "deref" \in Ops /\ \E k \in Keys : Deref(k)
ClearA == "clear" \in Ops /\ Clear
Next == MakeA \/ NewA \/ DerefA \/ ClearA
Spec == Init /\ [][Next]_vars

\* ------------------------------------------------------------ properties
Bounded  == Len(order) <= Cap
NoDupKey == \A i, j \in 1..Len(order) : i # j => order[i] # order[j]
\* a cached entry is always the latest generation of its key: a hit can never return a stale object
Fresh    == \A k \in Keys : InCache(k) => val[k] = gen[k]
\* eviction is least-recently-used: whenever a key leaves the cache without Clear it was the head
LruEviction ==
  [][\A k \in Keys : (InCache(k) /\ ~InCache(k)' /\ order' # <<>>) => order[1] = k]_vars
\* a cached Make evaluates at most once between evictions/clears: gen changes only on a miss
EvaluateOnce ==
  [][\A k \in Keys : gen'[k] # gen[k] => (~InCache(k) \/ hist'[Len(hist')].op = "new")]_vars

HistBound == Len(hist) <= MaxOps
Emit == Len(hist) = MaxOps => PrintT(<<"H", ToJson(hist)>>)
View == <<order, gen, val, hits, misses>>
\* for the exhaustive config the counters are bounded instead of the history
StateBound == hits + misses <= MaxOps /\ \A k \in Keys : gen[k] <= MaxOps
=============================================================================
