---------------------------- MODULE Trace_Remote ----------------------------
(***************************************************************************)
(* Validates executions of the real CourierServer / CourierClient /        *)
(* RemoteObject / RemoteIterator with concurrent client threads, recorded  *)
(* by harness/remotelib.py, against Remote.tla.  Logged: Call (before the  *)
(* request leaves the client thread) and Ret (after the answer or the      *)
(* exception reached it), ordered by a sequence number taken under one     *)
(* lock.  Not logged: the linearization point Handle(c) on the server's    *)
(* handler thread and the instant the shutdown flag becomes visible; both  *)
(* are silent steps that TLC places between the logged ones.               *)
(***************************************************************************)
EXTENDS Remote, IOUtils, TLCExt

Traces == JsonDeserialize(IOEnv.TRACE_FILE)

VARIABLES tid, l, shutReq
tvars == <<vars, tid, l, shutReq>>

Ev == Traces[tid][l]
More == l <= Len(Traces[tid])

TInit == Init /\ tid \in 1..Len(Traces) /\ l = 1 /\ shutReq = FALSE

Matches(r, e) ==
  CASE e.k = "int" -> r = I(e.n)
    [] e.k = "ref" -> r = Ref(e.n)
    [] e.k = "err" -> r = Err(e.e)
    [] OTHER -> FALSE

EvStep ==
  /\ More
  /\ LET e == Ev IN
     CASE e.ev = "Call" /\ e.t = "new" -> CallNew(e.c, e.kind) /\ UNCHANGED shutReq
       [] e.ev = "Call" /\ e.t = "op"  -> CallOp(e.c, e.id, e.op) /\ UNCHANGED shutReq
       [] e.ev = "Ret"                 -> Matches(resp[e.c], e) /\ Ret(e.c) /\ UNCHANGED shutReq
       [] e.ev = "ShutdownReq"         -> shutReq' = TRUE /\ UNCHANGED vars
       [] e.ev = "ShutdownDone"        -> shut # "up" /\ UNCHANGED <<vars, shutReq>>       \* _request_shutdown() has returned
       [] e.ev = "OpenGate"            -> OpenGate /\ UNCHANGED shutReq
       [] OTHER -> FALSE
  /\ l' = l + 1 /\ UNCHANGED tid

Silent == /\ More
          /\ \/ \E c \in Clients : Handle(c)
             \/ (shutReq /\ Shutdown)
          /\ UNCHANGED <<tid, l, shutReq>>

TNext == EvStep \/ Silent
TSpec == TInit /\ [][TNext]_tvars

Accepted == (l = Len(Traces[tid]) + 1) => PrintT(<<"A", tid>>)
Progress == PrintT(<<"P", tid, l>>)
=============================================================================
