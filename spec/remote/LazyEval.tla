------------------------------ MODULE LazyEval ------------------------------
(***************************************************************************)
(* Meaning of lazy expressions (C17): lazy_fns.LazyFn.result_ /            *)
(* maybe_make.                                                             *)
(*                                                                         *)
(* Expressions (bounded depth) over a small library that exists with the   *)
(* same names in harness/lazylib.py:                                       *)
(*    lit v            a plain value                                       *)
(*    call f args c    traced callable f applied to argument expressions,  *)
(*                     c = cache_result_ flag                              *)
(*      inc(x) = x+1   add(x,y) = x+y   box(x) = Box(val=x, items=(x,x+1)) *)
(*      kwf(z=x, a=y) = 10x + y: both arguments are passed BY KEYWORD, in   *)
(*        the non-alphabetical call-site order z, a; the callee sees its    *)
(*        keywords in call-site order (PEP 468) and the argument            *)
(*        expressions are evaluated in that order                           *)
(*      tick()  -> 100 * (number of calls of tick so far, this one incl.)  *)
(*      boom(x) -> raises ValueError                                        *)
(*    attr e           e.val            (getattr chain on a lazy result)   *)
(*    item e i         e.items[i]       (attribute + index chain)          *)
(*                                                                         *)
(* `Eager(e, n)` is the eager meaning (tick counter n threaded left to     *)
(* right, exceptions abort).  `Ev(e, st)` is what maybe_make does: the     *)
(* same, except that a call with c = TRUE is looked up in the cache under  *)
(* its structural key (flags erased: LazyFn.__eq__ ignores them) and       *)
(* evaluated only on a miss.                                               *)
(*                                                                         *)
(* Properties: with no cached node Ev = Eager (fresh evaluation every      *)
(* time: ticks advance); a cached node is evaluated once and afterwards    *)
(* returns the cached value until Clear; errors are never cached.          *)
(***************************************************************************)
EXTENDS Integers, Sequences, FiniteSets, TLC, Json

CONSTANTS Depth,     \* nesting depth of expressions
          MaxSteps,  \* number of make/clear operations per behaviour
          Lits,      \* literal values
          LitKinds,  \* the Python types a literal may have: subset of {"int", "bool", "float"} (1, True and 1.0 are equal
                     \* and hash alike in Python, yet they are different literals: str(True) is not str(1))
          WithKind   \* whether the type-observing callee `kind` and the bytes-returning callee `enc` take part

\* values are uniformly tagged records so that TLC can compare any two of them
Num(k, x) == [k |-> k, n |-> x, ik |-> "-"]
I(x)   == Num("int", x)
Box(v) == [k |-> "box", n |-> v.n, ik |-> v.k]     \* Box(val=v): .val = v, .items = (v, v+1)
ERR    == [k |-> "err", n |-> 0, ik |-> "-"]
Promote(a, b) == IF "float" \in {a, b} THEN "float" ELSE "int"      \* bool + bool is an int
IsErr(v) == v.k = "err"

Lit(v, k)       == [t |-> "lit", v |-> v, k |-> k]
Call(f, a, c)   == [t |-> "call", f |-> f, args |-> a, c |-> c]
Attr(e)         == [t |-> "attr", e |-> e]
Item(e, i)      == [t |-> "item", e |-> e, i |-> i]

\* integer-valued expressions of depth <= d (boxes only appear under attr/item)
RECURSIVE IntExprs(_)
IntExprs(d) ==
  IF d = 0 THEN {Lit(v, k) : v \in Lits, k \in LitKinds}
  ELSE LET S == IntExprs(d - 1) IN
       S \cup {Call("inc", <<a>>, c) : a \in S, c \in BOOLEAN}
         \cup {Call("add", <<a, b>>, c) : a \in S, b \in S, c \in BOOLEAN}
         \cup {Call("kwf", <<a, b>>, c) : a \in S, b \in S, c \in BOOLEAN}
         \cup {Call("tick", <<>>, c) : c \in BOOLEAN}
         \cup (IF WithKind THEN {Call("kind", <<a>>, c) : a \in S, c \in BOOLEAN} ELSE {})
         \cup {Call("boom", <<a>>, FALSE) : a \in S}
         \cup {Attr(Call("box", <<a>>, c)) : a \in S, c \in BOOLEAN}
         \cup {Item(Call("box", <<a>>, c), i) : a \in S, c \in BOOLEAN, i \in {0, 1}}

\* expressions a behaviour materialises: the integer-valued ones, and a call whose result is a bytes object
\* (a result of type bytes is a value like any other - it is the transport, not the evaluator, that unpickles bytes)
\* and a call whose result is an exception OBJECT (returned, not raised: a value like any other)
TopExprs(d) == IntExprs(d) \cup (IF WithKind /\ d > 0 THEN {Call(f, <<a>>, c) : f \in {"enc", "mkerr"}, a \in IntExprs(d - 1), c \in BOOLEAN} ELSE {})

\* structural key: cache flags erased everywhere (LazyFn.__eq__ / __hash__ ignore them)
RECURSIVE Key(_)
Key(e) == CASE e.t = "lit"  -> e
            [] e.t = "call" -> Call(e.f, [j \in 1..Len(e.args) |-> Key(e.args[j])], FALSE)
            [] e.t = "attr" -> Attr(Key(e.e))
            [] e.t = "item" -> Item(Key(e.e), e.i)

RECURSIVE HasCached(_)
HasCached(e) == CASE e.t = "lit"  -> FALSE
                  [] e.t = "call" -> e.c \/ \E j \in 1..Len(e.args) : HasCached(e.args[j])
                  [] e.t = "attr" -> HasCached(e.e)
                  [] e.t = "item" -> HasCached(e.e)

Apply(f, vs, n) ==    \* <<value, ticks after>>
  CASE f = "inc"  -> <<Num(Promote(vs[1].k, "int"), vs[1].n + 1), n>>
    [] f = "add"  -> <<Num(Promote(vs[1].k, vs[2].k), vs[1].n + vs[2].n), n>>
    [] f = "kwf"  -> <<Num(Promote(vs[1].k, vs[2].k), 10 * vs[1].n + vs[2].n), n>>
    [] f = "kind" -> <<I(CASE vs[1].k = "int" -> 0 [] vs[1].k = "bool" -> 1 [] vs[1].k = "float" -> 2), n>>
    [] f = "enc"  -> <<[k |-> "bytes", n |-> vs[1].n, ik |-> vs[1].k], n>>      \* str(x).encode()
    [] f = "mkerr" -> <<[k |-> "exc", n |-> vs[1].n, ik |-> vs[1].k], n>>       \* ValueError('made(x)'), returned
    [] f = "box"  -> <<Box(vs[1]), n>>
    [] f = "tick" -> <<I(100 * (n + 1)), n + 1>>
    [] f = "boom" -> <<ERR, n>>

\* ---- state threaded through an evaluation: cache (set of <<key, value>>), ticks, hits, misses
Lookup(cache, k) == {p \in cache : p[1] = k}

RECURSIVE Ev(_, _), EvArgs(_, _, _, _)
\* evaluates args j..Len left to right; returns [vs, st, err]
EvArgs(args, j, acc, st) ==
  IF j > Len(args) THEN [vs |-> acc, st |-> st, err |-> FALSE]
  ELSE LET r == Ev(args[j], st) IN
       IF IsErr(r.v) THEN [vs |-> acc, st |-> r.st, err |-> TRUE]
       ELSE EvArgs(args, j + 1, Append(acc, r.v), r.st)

Ev(e, st) ==
  CASE e.t = "lit" -> [v |-> Num(e.k, e.v), st |-> st]
    [] e.t = "attr" ->
         LET r == Ev(e.e, st) IN IF IsErr(r.v) THEN r ELSE [v |-> Num(r.v.ik, r.v.n), st |-> r.st]
    [] e.t = "item" ->
         LET r == Ev(e.e, st) IN
         IF IsErr(r.v) THEN r
         ELSE [v |-> IF e.i = 0 THEN Num(r.v.ik, r.v.n) ELSE Num(Promote(r.v.ik, "int"), r.v.n + e.i), st |-> r.st]
    [] e.t = "call" ->
         LET k   == Key(e)
             hit == IF e.c THEN Lookup(st.cache, k) ELSE {} IN
         IF hit # {}
         THEN [v |-> (CHOOSE p \in hit : TRUE)[2], st |-> [st EXCEPT !.hits = @ + 1]]
         ELSE LET st1 == IF e.c THEN [st EXCEPT !.misses = @ + 1] ELSE st
                  a   == EvArgs(e.args, 1, <<>>, st1) IN
              IF a.err THEN [v |-> ERR, st |-> a.st]
              ELSE LET ap == Apply(e.f, a.vs, a.st.ticks)
                       st2 == [a.st EXCEPT !.ticks = ap[2]] IN
                   IF IsErr(ap[1]) THEN [v |-> ERR, st |-> st2]
                   ELSE [v |-> ap[1],
                         st |-> IF e.c THEN [st2 EXCEPT !.cache = @ \cup {<<k, ap[1]>>}] ELSE st2]

\* eager meaning: no cache at all
RECURSIVE Uncache(_)
Uncache(e) == CASE e.t = "lit"  -> e
                [] e.t = "call" -> Call(e.f, [j \in 1..Len(e.args) |-> Uncache(e.args[j])], FALSE)
                [] e.t = "attr" -> Attr(Uncache(e.e))
                [] e.t = "item" -> Item(Uncache(e.e), e.i)
EmptySt(n) == [cache |-> {}, ticks |-> n, hits |-> 0, misses |-> 0]
Eager(e, n) == Ev(Uncache(e), EmptySt(n))

\* ------------------------------------------------------------ transitions
VARIABLES expr, st, hist
vars == <<expr, st, hist>>

Init == /\ expr \in TopExprs(Depth)
        /\ st = EmptySt(0)
        /\ hist = <<>>

\* str() of the value
RenderNum(k, n) == CASE k = "bool"  -> (IF n = 1 THEN "True" ELSE "False")
                     [] k = "float" -> ToString(n) \o ".0"
                     [] OTHER       -> ToString(n)
Render(v) == IF v.k = "bytes" THEN "b'" \o RenderNum(v.ik, v.n) \o "'"
             ELSE IF v.k = "exc" THEN "made(" \o RenderNum(v.ik, v.n) \o ")"
             ELSE RenderNum(v.k, v.n)
Obs(v, s) == [v |-> IF IsErr(v) THEN "ValueError" ELSE Render(v), ticks |-> s.ticks,
              size |-> Cardinality(s.cache), hits |-> s.hits, misses |-> s.misses]

Make ==
  /\ Len(hist) < MaxSteps
  /\ LET r == Ev(expr, st) IN
       /\ st' = r.st
       /\ hist' = Append(hist, [op |-> "make"] @@ Obs(r.v, r.st))
  /\ UNCHANGED expr

\* make the j-th argument on its own (shares cache entries with the enclosing call)
MakeArg(j) ==
  /\ Len(hist) < MaxSteps
  /\ expr.t = "call" /\ j \in 1..Len(expr.args) /\ expr.args[j].t = "call"
  /\ LET r == Ev(expr.args[j], st) IN
       /\ st' = r.st
       /\ hist' = Append(hist, [op |-> "makearg", j |-> j] @@ Obs(r.v, r.st))
  /\ UNCHANGED expr

Clear ==
  /\ Len(hist) < MaxSteps /\ hist # <<>>
  /\ st.cache # {} \/ st.hits + st.misses > 0
  /\ st' = [st EXCEPT !.cache = {}, !.hits = 0, !.misses = 0]
  /\ hist' = Append(hist, [op |-> "clear"] @@ Obs(I(0), st'))
  /\ UNCHANGED expr

Next == Make \/ (\E j \in 1..2 : MakeArg(j)) \/ Clear
Spec == Init /\ [][Next]_vars

\* ------------------------------------------------------------ properties
\* without cached nodes, materialising IS the eager meaning, every time (fresh evaluation)
NoCacheIsEager ==
  ~HasCached(expr) => LET r == Ev(expr, st) e == Eager(expr, st.ticks)
                      IN r.v = e.v /\ r.st.ticks = e.st.ticks /\ r.st.cache = st.cache
\* with an empty cache, a cached expression still evaluates to the eager value
\* (a cached node is memoised, also within one evaluation, so this is stated for expressions
\*  whose cached nodes are pure: add(tick(c), tick(c)) is 200 memoised and 300 eagerly)
RECURSIVE HasTick(_), CachedPure(_)
HasTick(e) == CASE e.t = "lit"  -> FALSE
                [] e.t = "call" -> e.f = "tick" \/ \E j \in 1..Len(e.args) : HasTick(e.args[j])
                [] e.t = "attr" -> HasTick(e.e)
                [] e.t = "item" -> HasTick(e.e)
CachedPure(e) == CASE e.t = "lit"  -> TRUE
                   [] e.t = "call" -> (e.c => ~HasTick(e)) /\ \A j \in 1..Len(e.args) : CachedPure(e.args[j])
                   [] e.t = "attr" -> CachedPure(e.e)
                   [] e.t = "item" -> CachedPure(e.e)
FirstMakeIsEager ==
  (st.cache = {} /\ CachedPure(expr)) => Ev(expr, st).v = Eager(expr, st.ticks).v
\* a cached top-level call, once made, returns the same value without evaluating anything
CachedIsStable ==
  (expr.t = "call" /\ expr.c /\ Lookup(st.cache, Key(expr)) # {}) =>
     LET r == Ev(expr, st) IN r.st.ticks = st.ticks /\ r.st.cache = st.cache
                               /\ r.v = (CHOOSE p \in Lookup(st.cache, Key(expr)) : TRUE)[2]
\* errors are never cached; one value per key
CacheSound == /\ \A p \in st.cache : ~IsErr(p[2])
              /\ \A p, q \in st.cache : p[1] = q[1] => p = q

Emit == Len(hist) = MaxSteps => PrintT(<<"H", ToJson([expr |-> expr, steps |-> hist])>>)
=============================================================================
