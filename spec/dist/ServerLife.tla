----------------------------- MODULE ServerLife -----------------------------
(***************************************************************************)
(* Life-cycle of one CourierServer object (courier_server.py:254-335):     *)
(* start() / stop() called by the owning process, and the serving thread   *)
(* run_until_shutdown() that announces the server to its clients, waits    *)
(* for a shutdown request (or for the auto-shutdown deadline) and then     *)
(* stops the transport server.  A worker "rejoins" (C06) by start() after  *)
(* stop() on the same object or on a new one.                              *)
(*                                                                         *)
(* Every critical section of the code is one action:                       *)
(*   StartCS(c)   start(): under _states_lock - build_server (a new         *)
(*                transport server and shutdownReq := FALSE only if there  *)
(*                is none), Start it, create + start a serving thread      *)
(*                unless the recorded one is still alive                   *)
(*   StopReq(c)   stop(): _request_shutdown - shutdownReq := TRUE, notify  *)
(*   Join(c)      the caller joins the thread start()/stop() returned      *)
(*   TBoot(t)     run_until_shutdown entry (NOT under _states_lock):       *)
(*                build_server, Start                                       *)
(*   TLoop(t)     the loop under _shutdown_lock: leave if a shutdown is     *)
(*                requested, otherwise send the alive notice and wait       *)
(*   TWake(t)     the wait returns (notified)                               *)
(*   TDeadNote(t) _shutdown_server: the death notice (before the lock)      *)
(*   TStopCS(t)   _shutdown_server under _states_lock: if has_started then  *)
(*                Stop the transport server and forget it                   *)
(*   TEnd(t)      the thread function returns (is_alive() turns FALSE)      *)
(*                                                                         *)
(* JoinFirst = TRUE models the discipline "join what stop() returned       *)
(* before calling start() again" inside start() itself.                    *)
(***************************************************************************)
EXTENDS Integers, Sequences, FiniteSets, TLC, Json

CONSTANTS Scripts,      \* [caller -> sequence of "start" | "stop" | "join" | "shutdown"]   (shutdown = the request alone: RPC / signal)
          MaxThreads,   \* serving threads that may be created
          JoinFirst,    \* start() first waits for a serving thread that has been asked to shut down
          Foreground,   \* the owning process runs run_until_shutdown() itself (the worker binaries do): a serving thread
                        \* exists from the beginning and self._thread stays None
          StopNeedsThread  \* _shutdown_server stops the transport only if has_started, which requires self._thread (as pinned)

Callers == DOMAIN Scripts
Threads == 1..MaxThreads

VARIABLES pos,          \* [Callers -> index of the next operation]
          built,        \* self._server is not None
          started,      \* the transport server is started
          shutdownReq,  \* self._shutdown_requested
          cur,          \* self._thread: 0 = None, else the thread id
          tpc,          \* [Threads -> "unborn" | "boot" | "loop" | "wait" | "deadnote" | "stopcs" | "end" | "dead"]
          nthreads,     \* threads created so far
          notices,      \* alive / dead notices sent to the clients, in order
          joined        \* [Callers -> thread the caller holds from its last start()/stop()]
vars == <<pos, built, started, shutdownReq, cur, tpc, nthreads, notices, joined>>

Alive(t) == t # 0 /\ tpc[t] \notin {"unborn", "dead"}
HasStarted == built /\ started /\ cur # 0
Op(c) == IF pos[c] <= Len(Scripts[c]) THEN Scripts[c][pos[c]] ELSE "done"

Init == /\ pos = [c \in Callers |-> 1] /\ built = TRUE /\ started = FALSE /\ shutdownReq = FALSE /\ cur = 0
        /\ tpc = [t \in Threads |-> IF Foreground /\ t = 1 THEN "boot" ELSE "unborn"] /\ nthreads = (IF Foreground THEN 1 ELSE 0)
        /\ notices = <<>> /\ joined = [c \in Callers |-> 0]

StartCS(c) ==
  /\ Op(c) = "start"
  /\ JoinFirst => ~(shutdownReq /\ Alive(cur))          \* the repaired start() waits for the pending shutdown to finish
  /\ built' = TRUE
  /\ shutdownReq' = IF built THEN shutdownReq ELSE FALSE
  /\ started' = TRUE
  /\ IF Alive(cur)
     THEN UNCHANGED <<cur, tpc, nthreads>> /\ joined' = [joined EXCEPT ![c] = cur]
     ELSE /\ nthreads < MaxThreads
          /\ nthreads' = nthreads + 1 /\ cur' = nthreads + 1
          /\ tpc' = [tpc EXCEPT ![nthreads + 1] = "boot"]
          /\ joined' = [joined EXCEPT ![c] = nthreads + 1]
  /\ pos' = [pos EXCEPT ![c] = @ + 1]
  /\ UNCHANGED notices

StopReq(c) ==
  /\ Op(c) = "stop" /\ cur # 0                          \* stop() asserts that a thread was recorded
  /\ shutdownReq' = TRUE
  /\ tpc' = [t \in Threads |-> IF tpc[t] = "wait" THEN "loop" ELSE tpc[t]]      \* notify_all
  /\ joined' = [joined EXCEPT ![c] = cur]
  /\ pos' = [pos EXCEPT ![c] = @ + 1]
  /\ UNCHANGED <<built, started, cur, nthreads, notices>>

ShutdownReq(c) ==
  /\ Op(c) = "shutdown"
  /\ shutdownReq' = TRUE
  /\ tpc' = [t \in Threads |-> IF tpc[t] = "wait" THEN "loop" ELSE tpc[t]]
  /\ pos' = [pos EXCEPT ![c] = @ + 1]
  /\ UNCHANGED <<built, started, cur, nthreads, notices, joined>>

Join(c) ==
  /\ Op(c) = "join" /\ ~Alive(joined[c])
  /\ pos' = [pos EXCEPT ![c] = @ + 1]
  /\ UNCHANGED <<built, started, shutdownReq, cur, tpc, nthreads, notices, joined>>

TBoot(t) ==
  /\ tpc[t] = "boot"
  /\ built' = TRUE /\ shutdownReq' = (IF built THEN shutdownReq ELSE FALSE) /\ started' = TRUE
  /\ tpc' = [tpc EXCEPT ![t] = "loop"]
  /\ UNCHANGED <<pos, cur, nthreads, notices, joined>>

TLoop(t) ==
  /\ tpc[t] = "loop"
  /\ IF shutdownReq
     THEN tpc' = [tpc EXCEPT ![t] = "deadnote"] /\ UNCHANGED notices
     ELSE tpc' = [tpc EXCEPT ![t] = "wait"] /\ notices' = Append(notices, "alive")
  /\ UNCHANGED <<pos, built, started, shutdownReq, cur, nthreads, joined>>

TDeadNote(t) ==
  /\ tpc[t] = "deadnote"
  /\ notices' = Append(notices, "dead")
  /\ tpc' = [tpc EXCEPT ![t] = "stopcs"]
  /\ UNCHANGED <<pos, built, started, shutdownReq, cur, nthreads, joined>>

TStopCS(t) ==
  /\ tpc[t] = "stopcs"
  /\ IF (IF StopNeedsThread THEN HasStarted ELSE built /\ started)
     THEN built' = FALSE /\ started' = FALSE ELSE UNCHANGED <<built, started>>
  /\ tpc' = [tpc EXCEPT ![t] = "end"]
  /\ UNCHANGED <<pos, shutdownReq, cur, nthreads, notices, joined>>

TEnd(t) ==
  /\ tpc[t] = "end"
  /\ tpc' = [tpc EXCEPT ![t] = "dead"]
  /\ UNCHANGED <<pos, built, started, shutdownReq, cur, nthreads, notices, joined>>

Next == (\E c \in Callers : StartCS(c) \/ StopReq(c) \/ ShutdownReq(c) \/ Join(c))
        \/ (\E t \in Threads : TBoot(t) \/ TLoop(t) \/ TDeadNote(t) \/ TStopCS(t) \/ TEnd(t))
Spec == Init /\ [][Next]_vars

\* ---------------------------------------------------------------- properties
Serving == {t \in Threads : tpc[t] \in {"boot", "loop", "wait"}}
Quiescent == /\ \A c \in Callers : Op(c) = "done" \/ ~ENABLED (StartCS(c) \/ StopReq(c) \/ ShutdownReq(c) \/ Join(c))
             /\ \A t \in Threads : tpc[t] \in {"unborn", "wait", "dead"}
CallersDone == \A c \in Callers : Op(c) = "done"
\* never two threads serving the same server object
OneServingThread == Cardinality(Serving) <= 1
\* once everything has settled and no shutdown is pending: a started server has its serving thread, a stopped one has none,
\* and the last notice the clients received says which of the two it is
Settled == (Quiescent /\ CallersDone) =>
             /\ (started /\ ~shutdownReq) => (Cardinality(Serving) = 1 /\ notices # <<>> /\ notices[Len(notices)] = "alive")
             /\ ~started => (Serving = {} /\ (notices # <<>> => notices[Len(notices)] = "dead"))
             /\ ~(started /\ shutdownReq)                     \* a requested shutdown is carried out
\* a start() that returned while no later stop() was issued leaves the server serving (single sequential caller)
LastOp(c) == Scripts[c][Len(Scripts[c])]
StartIsNotLost ==
  (Cardinality(Callers) = 1 /\ Quiescent /\ CallersDone /\ \E c \in Callers : LastOp(c) \in {"start"}) => (started /\ Cardinality(Serving) = 1)

Outcome == [started |-> started, serving |-> Cardinality(Serving), threads |-> nthreads,
            last |-> IF notices = <<>> THEN "none" ELSE notices[Len(notices)], req |-> shutdownReq]
Emit == (Quiescent /\ CallersDone) => PrintT(<<"H", ToJson(Outcome)>>)
=============================================================================
