------------------------------ MODULE Registry ------------------------------
(***************************************************************************)
(* The process-wide liveness table (C20, first half):                      *)
(* courier_utils.WorkerRegistry (42-83), the server-side heartbeat handler *)
(* CourierServer._heartbeat (courier_server.py:228-239) and the client     *)
(* side refresh from completed calls (CourierClient._is_heartbeat_fresh).  *)
(*                                                                         *)
(* hb is the recorded heartbeat of ONE address: 0 = never seen, Dead = the *)
(* worker was pronounced dead, otherwise a time.  Reading the clock and    *)
(* writing the table are separate steps, so handlers can overtake each     *)
(* other.                                                                  *)
(***************************************************************************)
EXTENDS Integers, FiniteSets, TLC

CONSTANTS Handlers,      \* server-side heartbeat handlers
          AliveFlag,     \* [Handlers -> BOOLEAN]  heartbeat(is_alive)
          Calls,         \* client-side calls whose completion refreshes the table
          MaxTime,
          RegisterMax    \* BOOLEAN: register() keeps the maximum (repair) instead of assigning

Dead == -1
VARIABLES hb, now, hpc, ht, cpc, ct, deadAt
vars == <<hb, now, hpc, ht, cpc, ct, deadAt>>

Init == /\ hb = 0 /\ now = 1 /\ deadAt = 0
        /\ hpc = [h \in Handlers |-> "idle"] /\ ht = [h \in Handlers |-> 0]
        /\ cpc = [c \in Calls |-> "idle"] /\ ct = [c \in Calls |-> 0]

Tick == now < MaxTime /\ now' = now + 1 /\ UNCHANGED <<hb, hpc, ht, cpc, ct, deadAt>>

\* _heartbeat: self._last_heartbeat = time.time(); the value is passed to register()
HStart(h) == /\ hpc[h] = "idle"
             /\ ht' = [ht EXCEPT ![h] = now] /\ hpc' = [hpc EXCEPT ![h] = "write"]
             /\ UNCHANGED <<hb, now, cpc, ct, deadAt>>
Max(a, b) == IF a > b THEN a ELSE b
\* registry.register(addr, t) / registry.unregister(addr) under the registry lock
HWrite(h) == /\ hpc[h] = "write"
             /\ IF AliveFlag[h]
                THEN hb' = (IF RegisterMax /\ hb # Dead THEN Max(hb, ht[h]) ELSE ht[h]) /\ UNCHANGED deadAt
                ELSE hb' = Dead /\ deadAt' = now
             /\ hpc' = [hpc EXCEPT ![h] = "done"]
             /\ UNCHANGED <<now, ht, cpc, ct>>
\* a client call is issued (its time is remembered) ...
CIssue(c) == /\ cpc[c] = "idle" /\ ct' = [ct EXCEPT ![c] = now] /\ cpc' = [cpc EXCEPT ![c] = "pending"]
             /\ UNCHANGED <<hb, now, hpc, ht, deadAt>>
\* ... and when it has completed, refresh(addr, issue time): never for a dead worker, never backwards
CRefresh(c) == /\ cpc[c] = "pending"
               /\ hb' = (IF hb = Dead THEN Dead ELSE Max(hb, ct[c]))
               /\ cpc' = [cpc EXCEPT ![c] = "done"]
               /\ UNCHANGED <<now, hpc, ht, ct, deadAt>>

Next == Tick \/ (\E h \in Handlers : HStart(h) \/ HWrite(h)) \/ (\E c \in Calls : CIssue(c) \/ CRefresh(c))
Spec == Init /\ [][Next]_vars

\* recorded heartbeats never move backwards (except by the explicit death notice)
Monotone == [][hb' >= hb \/ hb' = Dead \/ hb = Dead]_vars
\* a late completion of a client call never revives a dead worker
DeadNotRevivedByRefresh == [][(hb = Dead /\ hb' # Dead) => \E h \in Handlers : hpc[h] = "write" /\ hpc'[h] = "done"]_vars
\* an alive-heartbeat whose handler started before the death notice was recorded must not revive the worker
NoStaleRevival == [][(hb = Dead /\ hb' # Dead) => hb' >= deadAt]_vars
\* liveness is a function of the recorded heartbeat and the threshold only
IsAlive(t, thr) == hb # Dead /\ t - hb < thr
=============================================================================
