------------------------------ MODULE Ownership ------------------------------
(***************************************************************************)
(* Ownership of workers by worker pools (C20, second half):                *)
(* courier_worker.Worker.is_available / acquire_by / release and           *)
(* WorkerPool._acquire_all / release_all (courier_worker.py:186-285).      *)
(*                                                                         *)
(* Worker objects are shared by all pools that name the same address       *)
(* (CourierClient is a singleton per configuration).  lock[w] is           *)
(* Worker._lock, owner[w] is Worker._worker_pool.  Each pool thread runs   *)
(* a program of pool-level operations; every unlocked read and every       *)
(* critical section under Worker._states_lock is one action:               *)
(*                                                                         *)
(*   Avail(t, w)    is_available(pool): not lock.locked() or owner is pool *)
(*   Acquire(t, w)  acquire_by(pool) under the state lock                  *)
(*   Release(t, w)  release(): unlock if locked, owner := None             *)
(*   ReleaseBy(t,w) repaired release_all: check and release under the      *)
(*                  state lock (Fix = TRUE)                                *)
(*   Scan / Acq2 / Use   operation "idle_run" = WorkerPool.run without the  *)
(*                  call: next_idle_worker(maybe_acquire=True) (first the   *)
(*                  unlocked is_locked(pool) scan, then acquire_by on the   *)
(*                  others, courier_worker.py:354-372) followed by the      *)
(*                  unguarded worker.release() of run's finally (428)       *)
(***************************************************************************)
EXTENDS Integers, Sequences, FiniteSets, TLC

CONSTANTS Threads,      \* pool threads
          PoolOf,       \* [Threads -> pool id]
          WorkerSeq,    \* the pools' worker list (same order in every pool)
          Prog,         \* [Threads -> Seq of "acquire_all" | "release_all" | "idle_run"]
          Fix           \* BOOLEAN: release_all checks ownership under the worker's state lock

VARIABLES lock, owner, pc, ip, wi, seen,
          got,         \* number of workers the running _acquire_all has acquired so far
          unacq,       \* next_idle_worker: indices of the workers not locked by this pool (second phase)
          mine         \* next_idle_worker: index of the worker it returned (0 = none)
vars == <<lock, owner, pc, ip, wi, seen, got, unacq, mine>>

None == "none"
WSeq == WorkerSeq
Workers == {WorkerSeq[j] : j \in 1..Len(WorkerSeq)}
NW == Len(WorkerSeq)

Init == /\ lock = [w \in Workers |-> FALSE]
        /\ owner = [w \in Workers |-> None]
        /\ pc = [t \in Threads |-> "next"]
        /\ ip = [t \in Threads |-> 1]
        /\ wi = [t \in Threads |-> 1]
        /\ unacq = [t \in Threads |-> <<>>] /\ mine = [t \in Threads |-> 0]
        /\ seen = [t \in Threads |-> FALSE]
        /\ got = [t \in Threads |-> 0]

Op(t) == Prog[t][ip[t]]
CurW(t) == WSeq[wi[t]]

\* fetch the next operation of the thread's program
Fetch(t) ==
  /\ pc[t] = "next" /\ ip[t] <= Len(Prog[t])
  /\ pc' = [pc EXCEPT ![t] = IF Op(t) = "idle_run" THEN "scan" ELSE IF Op(t) = "release_all" /\ Fix THEN "act" ELSE "avail"]
  /\ wi' = [wi EXCEPT ![t] = 1]
  /\ got' = [got EXCEPT ![t] = 0]
  /\ unacq' = [unacq EXCEPT ![t] = <<>>] /\ mine' = [mine EXCEPT ![t] = 0]
  /\ UNCHANGED <<lock, owner, ip, seen>>

\* `if len(result) == num_workers: break` with the default num_workers = 0: _acquire_all gives up
\* after a worker it could not acquire while it holds none (a quirk of the code, kept as it is)
AdvanceWorker(t, nextpc) ==
  IF wi[t] < NW /\ ~(Op(t) = "acquire_all" /\ got'[t] = 0)
  THEN wi' = [wi EXCEPT ![t] = @ + 1] /\ pc' = [pc EXCEPT ![t] = nextpc] /\ UNCHANGED ip
  ELSE wi' = [wi EXCEPT ![t] = 1] /\ pc' = [pc EXCEPT ![t] = "next"] /\ ip' = [ip EXCEPT ![t] = @ + 1]

\* worker.is_available(self): the unlocked reads
Avail(t) ==
  /\ pc[t] = "avail"
  /\ LET w == CurW(t)
         a == ~lock[w] \/ owner[w] = PoolOf[t] IN
     IF a
     THEN pc' = [pc EXCEPT ![t] = "act"] /\ seen' = [seen EXCEPT ![t] = TRUE] /\ UNCHANGED <<wi, ip, got>>
     ELSE got' = got /\ AdvanceWorker(t, "avail") /\ UNCHANGED seen
  /\ UNCHANGED <<lock, owner, unacq, mine>>

\* acquire_by(pool) / release() under the worker's state lock
Act(t) ==
  /\ pc[t] = "act"
  /\ LET w == CurW(t) p == PoolOf[t] IN
     IF Op(t) = "acquire_all"
     THEN /\ IF owner[w] # p /\ ~lock[w]
             THEN lock' = [lock EXCEPT ![w] = TRUE] /\ owner' = [owner EXCEPT ![w] = p]
             ELSE UNCHANGED <<lock, owner>>
          /\ got' = [got EXCEPT ![t] = IF owner'[w] = p THEN @ + 1 ELSE @]
     ELSE IF Fix
          THEN IF ~lock[w] \/ owner[w] = p
               THEN lock' = [lock EXCEPT ![w] = FALSE] /\ owner' = [owner EXCEPT ![w] = None]
               ELSE UNCHANGED <<lock, owner>>
          ELSE lock' = [lock EXCEPT ![w] = FALSE] /\ owner' = [owner EXCEPT ![w] = None]
  /\ (Op(t) # "acquire_all" => UNCHANGED got)
  /\ AdvanceWorker(t, IF Op(t) = "release_all" /\ Fix THEN "act" ELSE "avail")
  /\ UNCHANGED <<seen, unacq, mine>>

\* ---- idle_run: next_idle_worker(maybe_acquire=True), then worker.release()
EndOp(t) == pc' = [pc EXCEPT ![t] = "next"] /\ ip' = [ip EXCEPT ![t] = @ + 1] /\ wi' = [wi EXCEPT ![t] = 1]
\* first loop: worker.is_locked(self), an unlocked read of lock and owner
Scan(t) ==
  /\ pc[t] = "scan"
  /\ LET w == CurW(t) IN
     IF lock[w] /\ owner[w] = PoolOf[t]
     THEN /\ mine' = [mine EXCEPT ![t] = wi[t]] /\ pc' = [pc EXCEPT ![t] = "use"] /\ UNCHANGED <<unacq, wi, ip>>
     ELSE /\ unacq' = [unacq EXCEPT ![t] = Append(@, wi[t])]
          /\ IF wi[t] < NW THEN wi' = [wi EXCEPT ![t] = @ + 1] /\ UNCHANGED <<pc, ip>>
                           ELSE wi' = [wi EXCEPT ![t] = 1] /\ pc' = [pc EXCEPT ![t] = "acq2"] /\ UNCHANGED ip
          /\ UNCHANGED mine
  /\ UNCHANGED <<lock, owner, seen, got>>
\* second loop: acquire_by(self) on the workers that were not ours (wi indexes unacq here)
Acq2(t) ==
  /\ pc[t] = "acq2"
  /\ LET w == WSeq[unacq[t][wi[t]]] p == PoolOf[t] IN
     /\ IF owner[w] # p /\ ~lock[w]
        THEN lock' = [lock EXCEPT ![w] = TRUE] /\ owner' = [owner EXCEPT ![w] = p]
        ELSE UNCHANGED <<lock, owner>>
     /\ IF owner'[w] = p
        THEN mine' = [mine EXCEPT ![t] = unacq[t][wi[t]]] /\ pc' = [pc EXCEPT ![t] = "use"] /\ UNCHANGED <<wi, ip>>
        ELSE /\ UNCHANGED mine
             /\ IF wi[t] < Len(unacq[t]) THEN wi' = [wi EXCEPT ![t] = @ + 1] /\ UNCHANGED <<pc, ip>> ELSE EndOp(t)
  /\ UNCHANGED <<seen, got, unacq>>
\* run's `finally: worker.release()`: unguarded, under the worker's state lock
Use(t) ==
  /\ pc[t] = "use"
  /\ LET w == WSeq[mine[t]] IN
     lock' = [lock EXCEPT ![w] = FALSE] /\ owner' = [owner EXCEPT ![w] = None]
  /\ EndOp(t)
  /\ UNCHANGED <<seen, got, unacq, mine>>

Terminated == (\A t \in Threads : pc[t] = "next" /\ ip[t] > Len(Prog[t])) /\ UNCHANGED vars
Step(t) == Fetch(t) \/ Avail(t) \/ Act(t) \/ Scan(t) \/ Acq2(t) \/ Use(t)
Next == (\E t \in Threads : Step(t)) \/ Terminated
Spec == Init /\ [][Next]_vars /\ \A t \in Threads : WF_vars(Step(t))

\* ---------------------------------------------------------------- properties
\* at any time at most one pool owns a worker, and owner and lock agree
Consistent == \A w \in Workers : lock[w] <=> owner[w] # None
\* a pool only ever releases workers it owns or that are free
ReleaseOnlyOwn ==
  [][\A w \in Workers : (owner[w] # None /\ owner'[w] = None) =>
        \E t \in Threads : PoolOf[t] = owner[w] /\ \/ (pc[t] = "act" /\ CurW(t) = w)
                                                    \/ (pc[t] = "use" /\ WSeq[mine[t]] = w)]_vars
\* after a pool's release_all (its last operation) none of ITS workers remains acquired by it
Done(t) == pc[t] = "next" /\ ip[t] > Len(Prog[t])
ReleasedAtEnd ==
  \A t \in Threads : (Done(t) /\ Len(Prog[t]) > 0 /\ Prog[t][Len(Prog[t])] = "release_all"
                      /\ \A u \in Threads : PoolOf[u] = PoolOf[t] => Done(u))
                     => \A w \in Workers : owner[w] # PoolOf[t]
Termination == <>(\A t \in Threads : Done(t))
=============================================================================
