---------------------------- MODULE AsCompleted -----------------------------
(***************************************************************************)
(* orchestrate.as_completed (orchestrate.py:470-555): one-shot tasks run   *)
(* on the workers of a pool, retried on time-outs, with the bookkeeping of *)
(* "preferred" (proven) workers and the release of workers that are no     *)
(* longer needed once the task iterator is exhausted (C06: every task's    *)
(* result exactly once, for all pool sizes; all workers released).         *)
(*                                                                         *)
(* One round of the loop is three phases:                                  *)
(*   submit   while there is work (a task to retry, or the iterator is not *)
(*            known to be exhausted) and an idle worker: the worker is     *)
(*            ACQUIRED, then a task is taken (the retry list first, else   *)
(*            the iterator - which may turn out to be exhausted, leaving   *)
(*            the worker acquired and idle) and submitted                  *)
(*   check    every finished call is consumed: ok -> the result is         *)
(*            delivered and the worker becomes preferred; time-out -> the  *)
(*            worker stops being preferred and the task goes to the retry  *)
(*            list                                                         *)
(*   release  once exhausted with nothing to retry: keep as many idle      *)
(*            workers in reserve as there are running workers that are not *)
(*            proven yet (chosen among the idle preferred workers if there *)
(*            are any, else among the idle acquired ones), release the     *)
(*            other idle acquired workers                                  *)
(* Calls finish at any time (Finish), with outcome ok or time-out; the     *)
(* worker is idle again at once, the finished call stays in the loop's     *)
(* list until the next check phase looks at it.                            *)
(*                                                                         *)
(* Clamp = FALSE is the pinned code: the reserve is drawn with             *)
(* random.sample(candidates, k) where k may exceed the number of           *)
(* candidates - the loop dies with ValueError (pc = "crash").              *)
(* Clamp = TRUE draws min(k, |candidates|) workers (the repair).           *)
(***************************************************************************)
EXTENDS Integers, FiniteSets, Sequences, TLC, Json

CONSTANTS Workers, NTasks, MaxTimeouts, Clamp,
          MaxErrors,       \* non-retriable application errors that may be injected
          ReleaseOnError   \* the error leaves the loop through a finally that releases the workers (the repair)

VARIABLES nxt,        \* next task the iterator will hand out (NTasks + 1: it will raise StopIteration)
          exhausted,  \* the loop has seen StopIteration
          st,         \* [Tasks -> "new" | "retry" | "open" | "ok" | "timeout" | "error" | "done"]: "open" = its call is in flight;
                      \*   "ok" / "timeout" = the call has finished, the loop has not looked yet (still in running_tasks)
          on,         \* [Tasks -> worker of the current / last call]
          acquired,   \* workers this pool holds
          preferred,  \* workers whose last call succeeded
          delivered,  \* [Tasks -> number of times the task's result was yielded]
          timeouts,   \* time-outs injected so far
          pc,         \* "submit" | "check" | "release" | "final" | "done" | "crash" | "raised" (a task's error reached the caller)
          errors,     \* application errors injected so far
          hist
vars == <<nxt, exhausted, st, on, acquired, preferred, delivered, timeouts, pc, errors, hist>>

Tasks == 1..NTasks
NoW == "none"
InList == {t \in Tasks : st[t] \in {"open", "ok", "timeout", "error"}}       \* running_tasks
Retry == {t \in Tasks : st[t] = "retry"}
Busy == {on[t] : t \in {x \in Tasks : st[x] = "open"}}                \* a worker is idle again as soon as its call has finished
Idle == Workers \ Busy
Running == {on[t] : t \in InList}                                     \* set(task.worker for task in running_tasks)
Work == Retry # {} \/ ~exhausted

Init ==
  /\ nxt = 1 /\ exhausted = FALSE /\ st = [t \in Tasks |-> "new"] /\ on = [t \in Tasks |-> NoW]
  /\ acquired = {} /\ preferred = {} /\ delivered = [t \in Tasks |-> 0] /\ timeouts = 0 /\ pc = "submit" /\ errors = 0 /\ hist = <<>>

\* next_idle_worker(workers, maybe_acquire=True): preferred workers first
IdleChoice == IF Idle \cap preferred # {} THEN Idle \cap preferred ELSE Idle

Submit(w) ==
  /\ pc = "submit" /\ Work /\ w \in IdleChoice
  /\ acquired' = acquired \cup {w}
  /\ IF Retry # {}
     THEN \E t \in Retry : /\ st' = [st EXCEPT ![t] = "open"] /\ on' = [on EXCEPT ![t] = w]
                           /\ hist' = Append(hist, [ev |-> "submit", t |-> t, again |-> TRUE])
                           /\ UNCHANGED <<nxt, exhausted>>
     ELSE IF nxt <= NTasks
          THEN /\ st' = [st EXCEPT ![nxt] = "open"] /\ on' = [on EXCEPT ![nxt] = w] /\ nxt' = nxt + 1
               /\ hist' = Append(hist, [ev |-> "submit", t |-> nxt, again |-> FALSE])
               /\ UNCHANGED exhausted
          ELSE /\ exhausted' = TRUE                              \* the worker stays acquired and idle
               /\ hist' = Append(hist, [ev |-> "exhausted", t |-> 0, again |-> FALSE])
               /\ UNCHANGED <<nxt, st, on>>
  /\ UNCHANGED <<preferred, delivered, timeouts, pc, errors>>

EndSubmit ==
  /\ pc = "submit" /\ (~Work \/ Idle = {})
  /\ pc' = "check"
  /\ UNCHANGED <<nxt, exhausted, st, on, acquired, preferred, delivered, timeouts, errors, hist>>

Finish(t, o) ==
  /\ pc \in {"submit", "check", "release"} /\ st[t] = "open"
  /\ o = "timeout" => timeouts < MaxTimeouts
  /\ o = "error" => errors < MaxErrors
  /\ st' = [st EXCEPT ![t] = o]
  /\ timeouts' = IF o = "timeout" THEN timeouts + 1 ELSE timeouts
  /\ errors' = IF o = "error" THEN errors + 1 ELSE errors
  /\ hist' = Append(hist, [ev |-> IF o = "error" THEN "fail" ELSE "finish", t |-> t, again |-> o = "timeout"])
  /\ UNCHANGED <<nxt, exhausted, on, acquired, preferred, delivered, pc>>

\* the for loop over running_tasks, in list order (= order of submission; two finished calls of one worker are
\* consumed oldest first, so the later outcome decides whether the worker is preferred)
\* a finished call that carries a non-retriable error: `raise exc` out of the loop (results of calls listed before it
\* have been yielded).  Without a finally the workers stay acquired.
CheckRaises ==
  /\ pc = "check" /\ \E t \in Tasks : st[t] = "error"
  /\ \E early \in SUBSET {t \in Tasks : st[t] = "ok"} :
       /\ delivered' = [t \in Tasks |-> delivered[t] + IF t \in early THEN 1 ELSE 0]
       /\ st' = [t \in Tasks |-> IF t \in early THEN "done" ELSE st[t]]
  /\ pc' = "raised"
  /\ acquired' = IF ReleaseOnError THEN {} ELSE acquired
  /\ UNCHANGED <<nxt, exhausted, on, preferred, timeouts, errors, hist>>

Check ==
  /\ pc = "check" /\ ~\E t \in Tasks : st[t] = "error"
  /\ LET oks == {t \in Tasks : st[t] = "ok"}
         tos == {t \in Tasks : st[t] = "timeout"} IN
     /\ delivered' = [t \in Tasks |-> delivered[t] + IF t \in oks THEN 1 ELSE 0]
     /\ \E pref \in SUBSET Workers :
          \* workers with only successes become preferred, with only time-outs stop being; with both: either (list order)
          /\ \A w \in Workers :
               LET okw == \E t \in oks : on[t] = w
                   tow == \E t \in tos : on[t] = w IN
               IF okw /\ ~tow THEN w \in pref
               ELSE IF tow /\ ~okw THEN w \notin pref
               ELSE IF ~okw /\ ~tow THEN (w \in pref <=> w \in preferred)
               ELSE TRUE
          /\ preferred' = pref
     /\ st' = [t \in Tasks |-> IF t \in oks THEN "done" ELSE IF t \in tos THEN "retry" ELSE st[t]]
  /\ pc' = "release"
  /\ UNCHANGED <<nxt, exhausted, on, acquired, timeouts, errors, hist>>

Again == IF ~exhausted \/ Retry # {} \/ InList # {} THEN "submit" ELSE "final"

Release ==
  /\ pc = "release"
  /\ IF exhausted /\ Retry = {}
     THEN LET cand == IF preferred \ Running # {} THEN preferred \ Running ELSE acquired \ Running
              k    == Cardinality(Running \ preferred) IN
          IF cand = {} THEN /\ acquired' = acquired \cap Running /\ pc' = Again
          ELSE IF k > Cardinality(cand) /\ ~Clamp
               THEN /\ pc' = "crash" /\ UNCHANGED acquired              \* ValueError: Sample larger than population
               ELSE \E reserved \in SUBSET cand :
                      /\ Cardinality(reserved) = IF k > Cardinality(cand) THEN Cardinality(cand) ELSE k
                      /\ acquired' = acquired \cap (Running \cup reserved)
                      /\ pc' = Again
     ELSE /\ pc' = Again /\ UNCHANGED acquired
  /\ UNCHANGED <<nxt, exhausted, st, on, preferred, delivered, timeouts, errors, hist>>

Final ==
  /\ pc = "final" /\ acquired' = {} /\ pc' = "done"
  /\ UNCHANGED <<nxt, exhausted, st, on, preferred, delivered, timeouts, errors, hist>>

Next == (\E w \in Workers : Submit(w)) \/ (\E t \in Tasks, o \in {"ok", "timeout", "error"} : Finish(t, o))
        \/ EndSubmit \/ Check \/ CheckRaises \/ Release \/ Final
Spec == Init /\ [][Next]_vars
Fair == Spec /\ WF_vars(Next) /\ \A t \in Tasks : WF_vars(Finish(t, "ok"))

\* ---------------------------------------------------------------- properties
NoCrash == pc # "crash"
AtMostOnce == \A t \in Tasks : delivered[t] <= 1
ExactlyOnceAtEnd == pc = "done" => \A t \in Tasks : delivered[t] = 1
\* a non-retriable error surfaces: the run never ends normally with a result missing
ErrorSurfaces == (\E t \in Tasks : st[t] = "error") => pc # "done"
RunningAreHeld == pc # "raised" => Busy \subseteq acquired        \* (calls still open when an error surfaces are abandoned)
AllReleased == pc \in {"done", "raised"} => acquired = {}
Terminates == <>(pc \in {"done", "crash", "raised"})

View == <<nxt, exhausted, st, on, acquired, preferred, delivered, timeouts, pc, errors>>
Emit == pc \in {"done", "crash", "raised"} => PrintT(<<"H", ToJson([workers |-> Cardinality(Workers), tasks |-> NTasks,
                                                            end |-> pc, events |-> hist])>>)
=============================================================================
