-------------------------------- MODULE Sched --------------------------------
(***************************************************************************)
(* The retrying control loop of WorkerPool.iterate (courier_worker.py:     *)
(* 426-587) with its per-task client coroutine CourierClient.async_iterate *)
(* (courier_utils.py:731-778), under transport faults (C06).               *)
(*                                                                         *)
(* Tasks are generator tasks (pipeline shards) of L batches that end with  *)
(* an aggregation state.  The loop thread and the coroutines (event-loop   *)
(* thread) are different processes: the loop body is split where it reads  *)
(* something a coroutine writes (`task.done()`, `is_alive`), the coroutine *)
(* at every await and between `generator_result_queue.put(state)` and its  *)
(* completion.                                                             *)
(*                                                                         *)
(* Faults (bounded by Budget): a call ends with deadline-exceeded, a       *)
(* worker dies (its pending call never answers, heartbeats stop), a dead   *)
(* worker rejoins with an empty server, an application error.  One worker  *)
(* is never faulted (UsableWorker).                                        *)
(***************************************************************************)
EXTENDS Integers, Sequences, FiniteSets, TLC

CONSTANTS Tasks, Workers, L, Budget, Threshold, UsableWorker,
          RecheckDone   \* BOOLEAN: (hypothetical repair) the loop re-reads task.done() before re-queueing

VARIABLES todo,       \* tasks waiting for a worker (set; the code keeps a list and pops the last)
          runOn,      \* [Tasks -> worker or "none"]
          co,         \* [Tasks -> coroutine phase] "none" | "init" | "next" | "put" | "done" | "timeout" | "error" | "cancelled"
          pos,        \* [Tasks -> batches received in the current attempt]
          outputs,    \* [Tasks -> [1..L -> times delivered]]
          states,     \* [Tasks -> number of aggregation states forwarded]
          alive,      \* [Workers -> BOOLEAN]
          budget, timeouts, finished, loopEnd
vars == <<todo, runOn, co, pos, outputs, states, alive, budget, timeouts, finished, loopEnd>>

None == "none"
Init == /\ todo = Tasks /\ runOn = [t \in Tasks |-> None] /\ co = [t \in Tasks |-> "none"]
        /\ pos = [t \in Tasks |-> 0] /\ outputs = [t \in Tasks |-> [i \in 1..L |-> 0]]
        /\ states = [t \in Tasks |-> 0] /\ alive = [w \in Workers |-> TRUE]
        /\ budget = Budget /\ timeouts = 0 /\ finished = {} /\ loopEnd = "run"

Busy(w) == \E t \in Tasks : runOn[t] = w
Running == {t \in Tasks : runOn[t] # None}

\* ---- loop thread
Submit(t, w) ==
  /\ loopEnd = "run" /\ t \in todo /\ ~Busy(w) /\ alive[w]
  /\ todo' = todo \ {t} /\ runOn' = [runOn EXCEPT ![t] = w]
  /\ co' = [co EXCEPT ![t] = "init"] /\ pos' = [pos EXCEPT ![t] = 0]
  /\ UNCHANGED <<outputs, states, alive, budget, timeouts, finished, loopEnd>>

\* `if task.done()`: finished / timed out / failed
PollDone(t) ==
  /\ loopEnd = "run" /\ runOn[t] # None /\ co[t] \in {"done", "timeout", "error"}
  /\ runOn' = [runOn EXCEPT ![t] = None]
  /\ CASE co[t] = "done"    -> finished' = finished \cup {t} /\ UNCHANGED <<todo, timeouts, loopEnd>>
       [] co[t] = "timeout" -> /\ todo' = todo \cup {t} /\ timeouts' = timeouts + 1
                               /\ loopEnd' = IF timeouts + 1 > Threshold THEN "too-many-timeouts" ELSE "run"
                               /\ UNCHANGED finished
       [] co[t] = "error"   -> loopEnd' = "task-failed" /\ UNCHANGED <<todo, timeouts, finished>>
  /\ co' = [co EXCEPT ![t] = "none"]
  /\ UNCHANGED <<pos, outputs, states, alive, budget>>

\* `elif task.is_alive ... else`: the task is not done and its worker looks dead: cancel and re-queue.
\* The coroutine may be anywhere, also between forwarding the state and completing.
PollDead(t) ==
  /\ loopEnd = "run" /\ runOn[t] # None /\ ~alive[runOn[t]]
  /\ co[t] \notin {"done", "timeout", "error"} \/ (~RecheckDone /\ FALSE)
  /\ ~(RecheckDone /\ co[t] = "put")        \* repaired: a coroutine that already forwarded its state is waited for
  /\ runOn' = [runOn EXCEPT ![t] = None]
  /\ co' = [co EXCEPT ![t] = "none"]
  /\ todo' = todo \cup {t} /\ timeouts' = timeouts + 1
  /\ loopEnd' = IF timeouts + 1 > Threshold THEN "too-many-timeouts" ELSE "run"
  /\ UNCHANGED <<pos, outputs, states, alive, budget, finished>>

LoopExit ==
  /\ loopEnd = "run" /\ todo = {} /\ Running = {}
  /\ loopEnd' = "ok"
  /\ UNCHANGED <<todo, runOn, co, pos, outputs, states, alive, budget, timeouts, finished>>

\* ---- coroutine of task t (event-loop thread): one remote call completes successfully
CallOk(t) ==
  /\ runOn[t] # None /\ alive[runOn[t]]
  /\ \/ /\ co[t] = "init" /\ co' = [co EXCEPT ![t] = "next"] /\ UNCHANGED <<pos, outputs, states>>
     \/ /\ co[t] = "next" /\ pos[t] < L
        /\ pos' = [pos EXCEPT ![t] = @ + 1]
        /\ outputs' = [outputs EXCEPT ![t][pos[t] + 1] = @ + 1]
        /\ UNCHANGED <<co, states>>
     \/ /\ co[t] = "next" /\ pos[t] = L            \* the end marker arrives: forward the returned state
        /\ states' = [states EXCEPT ![t] = @ + 1]
        /\ co' = [co EXCEPT ![t] = "put"] /\ UNCHANGED <<pos, outputs>>
  /\ UNCHANGED <<todo, runOn, alive, budget, timeouts, finished, loopEnd>>

CoFinish(t) ==
  /\ co[t] = "put" /\ co' = [co EXCEPT ![t] = "done"]
  /\ UNCHANGED <<todo, runOn, pos, outputs, states, alive, budget, timeouts, finished, loopEnd>>

\* ---- faults
Deadline(t) ==
  /\ budget > 0 /\ runOn[t] # None /\ runOn[t] # UsableWorker /\ co[t] \in {"init", "next"}
  /\ co' = [co EXCEPT ![t] = "timeout"] /\ budget' = budget - 1
  /\ UNCHANGED <<todo, runOn, pos, outputs, states, alive, timeouts, finished, loopEnd>>
AppError(t) ==
  /\ budget > 0 /\ runOn[t] # None /\ co[t] \in {"init", "next"}
  /\ co' = [co EXCEPT ![t] = "error"] /\ budget' = budget - 1
  /\ UNCHANGED <<todo, runOn, pos, outputs, states, alive, timeouts, finished, loopEnd>>
Die(w) ==
  /\ budget > 0 /\ w # UsableWorker /\ alive[w]
  /\ alive' = [alive EXCEPT ![w] = FALSE] /\ budget' = budget - 1
  /\ UNCHANGED <<todo, runOn, co, pos, outputs, states, timeouts, finished, loopEnd>>

\* a dead worker rejoins (its server is restarted, as a new process would be): it is alive again and has lost
\* whatever generator it was serving - the calls of a coroutine still attached to it end with a retriable error
Rejoin(w) ==
  /\ budget > 0 /\ ~alive[w]
  /\ alive' = [alive EXCEPT ![w] = TRUE] /\ budget' = budget - 1
  /\ co' = [t \in Tasks |-> IF runOn[t] = w /\ co[t] \in {"init", "next"} THEN "timeout" ELSE co[t]]
  /\ UNCHANGED <<todo, runOn, pos, outputs, states, timeouts, finished, loopEnd>>

Terminated == loopEnd # "run" /\ UNCHANGED vars
Next == \/ \E t \in Tasks, w \in Workers : Submit(t, w)
        \/ \E t \in Tasks : PollDone(t) \/ PollDead(t) \/ CallOk(t) \/ CoFinish(t) \/ Deadline(t) \/ AppError(t)
        \/ \E w \in Workers : Die(w) \/ Rejoin(w)
        \/ LoopExit \/ Terminated
Spec == Init /\ [][Next]_vars /\ WF_vars(Next)

\* ---------------------------------------------------------------- properties (C06)
NoAppErrors == TRUE
\* when the loop ends normally every shard's state was forwarded exactly once ...
StateExactlyOnce == loopEnd = "ok" => \A t \in Tasks : states[t] = 1
\* ... never more than once at any time
StateAtMostOnce == \A t \in Tasks : states[t] <= 1
\* ... and every output batch was delivered at least once
OutputsAtLeastOnce == loopEnd = "ok" => \A t \in Tasks : \A i \in 1..L : outputs[t][i] >= 1
\* fault-free runs (Budget = 0) deliver every output batch and every state exactly once (C16)
FaultFreeExactlyOnce ==
  (Budget = 0 /\ loopEnd = "ok") => \A t \in Tasks : states[t] = 1 /\ \A i \in 1..L : outputs[t][i] = 1
\* the final merge refuses a partial set of states: strict_states_cnt (transform.py:368-373, 595-600)
MergeStrict(given, expected) == IF expected # 0 /\ given # expected THEN "error" ELSE "merged"
\* an application error surfaces as an error end, never as a silent success
ErrorSurfaces == [][\A t \in Tasks : (co[t] = "error" /\ co'[t] = "none") => loopEnd' = "task-failed"]_vars
\* with a usable worker and the retry budget not exhausted the loop terminates
Termination == <>(loopEnd # "run")
=============================================================================
