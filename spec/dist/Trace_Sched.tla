----------------------------- MODULE Trace_Sched -----------------------------
(***************************************************************************)
(* Validates executions of the real WorkerPool.iterate (with the client    *)
(* coroutine CourierClient.async_iterate and PrefetchedCourierServer       *)
(* workers over the in-process transport), recorded by checks/c06.py,      *)
(* against Sched.tla.  Logged, in one global order (sequence number taken  *)
(* under one lock):                                                        *)
(*   Submit(t, w)   the loop creates the coroutine of task t on worker w   *)
(*   Done(w, kind)  a remote call of the coroutine running on w completed: *)
(*                  init | elem | end | deadline | error                   *)
(*   State(t)       the coroutine forwarded the shard's aggregation state  *)
(*   Die(w)         the worker stopped answering (fault plan)              *)
(*   End(kind)      the loop ended: ok | too-many-timeouts | task-failed   *)
(* Not logged (silent, placed by TLC): the loop's polls PollDone /          *)
(* PollDead, the coroutine's completion CoFinish, LoopExit.  A call that    *)
(* completes for a coroutine the loop has already given up on is a          *)
(* stuttering step (StaleDone).  Every invariant of Sched.tla is evaluated  *)
(* at every step of every trace.                                            *)
(***************************************************************************)
EXTENDS Sched, Json, IOUtils, TLCExt

Traces == JsonDeserialize(IOEnv.TRACE_FILE)

VARIABLES tid, l
tvars == <<vars, tid, l>>

Ev == Traces[tid][l]
More == l <= Len(Traces[tid])
TInit == Init /\ tid \in 1..Len(Traces) /\ l = 1

OnWorker(w) == {t \in Tasks : runOn[t] = w}

EvStep ==
  /\ More
  /\ LET e == Ev IN
     CASE e.ev = "Submit" -> Submit(e.t, e.w)
       [] e.ev = "Done" ->
            IF OnWorker(e.w) = {} \/ (\E t \in OnWorker(e.w) : co[t] \in {"done", "timeout", "error", "put"})
            THEN UNCHANGED vars                                   \* StaleDone: nobody is waiting for this answer any more
            ELSE \E t \in OnWorker(e.w) :
                   CASE e.kind = "init"     -> co[t] = "init" /\ CallOk(t)
                     [] e.kind = "elem"     -> co[t] = "next" /\ pos[t] < L /\ CallOk(t)
                     [] e.kind = "end"      -> co[t] = "next" /\ pos[t] = L /\ CallOk(t)
                     [] e.kind = "deadline" -> co[t] \in {"init", "next"} /\ co' = [co EXCEPT ![t] = "timeout"]
                                                /\ UNCHANGED <<todo, runOn, pos, outputs, states, alive, budget, timeouts, finished, loopEnd>>
                     [] e.kind = "error"    -> co[t] \in {"init", "next"} /\ co' = [co EXCEPT ![t] = "error"]
                                                /\ UNCHANGED <<todo, runOn, pos, outputs, states, alive, budget, timeouts, finished, loopEnd>>
                     [] OTHER -> FALSE
       [] e.ev = "State" -> co[e.t] \in {"put", "done"} /\ states[e.t] >= 1 /\ UNCHANGED vars
       [] e.ev = "Die"   -> alive' = [alive EXCEPT ![e.w] = FALSE]
                            /\ UNCHANGED <<todo, runOn, co, pos, outputs, states, budget, timeouts, finished, loopEnd>>
       [] e.ev = "End"   -> (IF e.kind = "ok" THEN LoopExit ELSE loopEnd = e.kind /\ UNCHANGED vars)
       [] OTHER -> FALSE
  /\ l' = l + 1 /\ UNCHANGED tid

Silent == /\ More
          /\ \E t \in Tasks : PollDone(t) \/ PollDead(t) \/ CoFinish(t)
          /\ UNCHANGED <<tid, l>>

TNext == EvStep \/ Silent
TSpec == TInit /\ [][TNext]_tvars

Accepted == (l = Len(Traces[tid]) + 1) => PrintT(<<"A", tid>>)
Progress == PrintT(<<"P", tid, l>>)
=============================================================================
