--------------------------- MODULE Trace_Prefetch ---------------------------
(***************************************************************************)
(* Validates executions of the real PrefetchedCourierServer, recorded by   *)
(* harness/prefetch.py, against Prefetch.tla.  Many traces per TLC run:     *)
(* the initial state picks a trace id; every step consumes one recorded     *)
(* event, binding its arguments; the unlogged steps are Stop(g) (the         *)
(* internal _stop_prefetch) and Take(r) (a handler dequeues one item),       *)
(* composed silently before an event.                                       *)
(***************************************************************************)
EXTENDS Prefetch, Json, IOUtils, TLCExt

Traces == JsonDeserialize(IOEnv.TRACE_FILE)

VARIABLES tid, l
tvars == <<vars, tid, l>>

Ev == Traces[tid][l]
More == l <= Len(Traces[tid])

TInit == /\ Init /\ tid \in 1..Len(Traces) /\ l = 1

Consume == l' = l + 1 /\ UNCHANGED tid
RId(e) == e.r

EvStep ==
  /\ More
  /\ LET e == Ev IN
     CASE e.ev = "Yield"     -> (Yield(e.g) /\ yielded'[e.g] = e.i) \/ (LateYield(e.g) /\ e.i > yielded[e.g])
       [] e.ev = "GenEnd"    -> GenEnd(e.g, e.how)
       [] e.ev = "ThreadEnd" -> ThreadEnd(e.g)
       [] e.ev = "InitCall"  -> InitCall(e.r)
       [] e.ev = "Install"   -> Install(e.r, e.len, e.fail) /\ cur' = e.g
       [] e.ev = "InitRet"   -> InitRet(e.r, e.ok)
       [] e.ev = "Shutdown"  -> Shutdown
       \* the shutdown callback has returned: whatever generator is installed has been stopped or has ended
       [] e.ev = "ShutdownDone" -> shutdown /\ (IF cur = 0 THEN TRUE ELSE ended[cur] # "run") /\ UNCHANGED vars
       [] e.ev = "NextCall"  -> NextCall(e.r, e.k)
       [] e.ev = "NextRet"   ->
            /\ NextRet(e.r, e.n, e.mk)
            \* the items are the ones this request took from the generator installed when the request was made
            /\ \A j \in 1..e.n : e.items[j] = <<req[e.r].g, taken[e.r][j]>>
       [] OTHER -> FALSE
  /\ Consume

\* silent: the server stops its current generator (init of a newer one, stop_prefetch, shutdown)
Silent == /\ More /\ ((cur # 0 /\ Stop(cur)) \/ \E r \in Reqs : Take(r)) /\ UNCHANGED <<tid, l>>

TNext == EvStep \/ Silent
TSpec == TInit /\ [][TNext]_tvars

\* acceptance is reported per trace; rejected = never printed
Accepted == (l = Len(Traces[tid]) + 1) => PrintT(<<"A", tid>>)
Progress == PrintT(<<"P", tid, l>>)
=============================================================================
