------------------------------ MODULE IterQueue ------------------------------
(***************************************************************************)
(* iter_utils.IteratorQueue at the level of its locks and condition        *)
(* variables (iter_utils.py:472-795), for C04 / C05.                       *)
(*                                                                         *)
(* One action = one scheduler segment of the real code: the code between   *)
(* two yield points of the deterministic scheduler (harness/sched), which  *)
(* are exactly: lock acquire, Condition.wait wake-up, inner-queue          *)
(* get_nowait / put_nowait / empty, a read of `enqueue_done`, and next()   *)
(* of the producer's input iterator.  Lock release and notify are merged   *)
(* into the segment that precedes them.  The action <-> code table is in   *)
(* spec/queue/actions.md; the replay driver asserts it step by step.       *)
(*                                                                         *)
(*   E, D   the enqueue / dequeue Conditions (their locks): ownE, ownD     *)
(*   S      the states RLock: ownS                                         *)
(*   waitE / waitD  FIFO of threads inside Condition.wait (CPython's       *)
(*          deque of waiters); `notified` = woken, lock not yet re-taken   *)
(*   q      the inner queue.Queue / SimpleQueue, cap = 0 means unbounded   *)
(*   start, stop, maxenq, exc, exhausted, returned   the states of 531-536 *)
(*                                                                         *)
(* Processes: producers run enqueue_from_iterator over N[p] items, the     *)
(* iterator raising at item FailAt[p] (0 = never) and returning p;         *)
(* consumers call get() or get_batch(K, Block) until end of stream;        *)
(* stoppers call maybe_stop([exc]).                                        *)
(***************************************************************************)
EXTENDS Integers, Sequences, FiniteSets, TLC

CONSTANTS Prods, Cons, Stoppers,
          Cap,          \* 0 = unbounded
          N,            \* [Prods -> Nat] items per producer
          FailAt,       \* [Prods -> Nat] 1-based index of the failing next(), 0 = none
          Mode,         \* [Cons -> {"get", "batch"}]
          K,            \* [Cons -> Nat] max_batch_size for batch mode (0 = unlimited)
          Block,        \* [Cons -> BOOLEAN]
          StopExc,      \* [Stoppers -> BOOLEAN]  maybe_stop(exc) vs maybe_stop()
          DeclaredMax,  \* max_enqueuer passed to the constructor (0 = not declared)
          Timeout,      \* BOOLEAN: a timeout is configured (wait may time out)
          IgnoreError,  \* BOOLEAN: the queue's ignore_error flag
          Shared,       \* BOOLEAN: producers are pool workers drawing from ONE shared input through
                        \* _ThreadSafeIterator (piter_fn / pmap); FALSE: one input per producer (piter_multiplex)
          SrcN, SrcFail,\* shared input: number of items, failing position (0 = none)
          PoolSize,     \* worker threads of the executor the producers run on (0 = one per producer): a producer
                        \* task starts only when a worker is free (piter_multiplex with more inputs than workers)
          Steps,        \* [Cons -> Int] DequeueIterator num_steps for mode "diter" (-1 = until exhausted)
          Fixes         \* subset of {"stop_notify_enqueuers", "stopped_flag", "batch_recheck_done",
                        \*            "batch_keeps_partial_on_error"}:
                        \* the repairs recorded in known_findings.json that the working tree contains.
                        \* The empty set is the pinned commit; TLC rejects it (see checks/c04, c05).

VARIABLES pc, ownE, ownD, ownS, waitE, waitD, notified, q,
          start, stop, maxenq, exc, exhausted, returned, stopped,
          idx, item,          \* producer locals: items taken so far, item in flight
          ownL, srcIdx,       \* shared input: the _ThreadSafeIterator lock and the source position
          cnt,                \* DequeueIterator._cnt per consumer
          pend,               \* mode "diter": how the inner iterator ended, reported once MultiplexIterator.__next__ returns
          res, val,           \* consumer locals: batch under construction, element just dequeued
          received, ended     \* observable outcome per consumer
vars == <<pc, ownE, ownD, ownS, waitE, waitD, notified, q, start, stop, maxenq, exc, exhausted, returned, stopped,
          idx, item, ownL, srcIdx, cnt, pend, res, val, received, ended>>

Procs == Prods \cup Cons \cup Stoppers
NoOne == "none"

Done == exc \/ stopped \/ (maxenq # 0 /\ start = stop /\ stop = maxenq)   \* enqueue_done
DoneWith(e, mx, st, sp) == e \/ (mx # 0 /\ st = sp /\ sp = mx)

Min(a, b) == IF a < b THEN a ELSE b
Max(a, b) == IF a > b THEN a ELSE b

\* Condition.notify / notify_all on a FIFO of waiters: <<new waiters, newly notified>>
Notify1(w)   == IF w = <<>> THEN <<w, {}>> ELSE <<Tail(w), {Head(w)}>>
NotifyAll(w) == <<<<>>, {w[j] : j \in 1..Len(w)}>>
Without(w, p) == SelectSeq(w, LAMBDA x : x # p)

Init ==
  /\ pc = [p \in Procs |-> IF p \in Prods THEN (IF PoolSize = 0 THEN "p_start" ELSE "p_wait")
                           ELSE IF p \in Cons THEN (IF Mode[p] = "get" THEN "c_acqD"
                                                    ELSE IF Mode[p] = "diter" /\ Steps[p] = 0 THEN "x1_acqS"
                                                    ELSE "b_acqD")
                           ELSE "s_acqS"]
  /\ ownL = NoOne /\ srcIdx = 0 /\ cnt = [c \in Cons |-> 0] /\ pend = [c \in Cons |-> <<"run">>]
  /\ ownE = NoOne /\ ownD = NoOne /\ ownS = NoOne
  /\ waitE = <<>> /\ waitD = <<>> /\ notified = {}
  /\ q = <<>>
  /\ start = 0 /\ stop = 0 /\ maxenq = DeclaredMax /\ exc = FALSE /\ exhausted = FALSE
  /\ returned = <<>>
  /\ stopped = FALSE
  /\ idx = [p \in Prods |-> 0]
  /\ item = [p \in Prods |-> <<p, 0>>]
  /\ res = [c \in Cons |-> <<>>]
  /\ val = [c \in Cons |-> <<"none", 0>>]
  /\ received = [c \in Cons |-> <<>>]
  /\ ended = [c \in Cons |-> <<"run">>]

Goto(p, l) == pc' = [pc EXCEPT ![p] = l]
UNCH_LOCKS == UNCHANGED <<ownE, ownD, ownS>>
UNCH_WAIT  == UNCHANGED <<waitE, waitD, notified>>
UNCH_STATE == UNCHANGED <<start, stop, maxenq, exc, exhausted, returned, stopped>>
UNCH_PLOC  == UNCHANGED <<idx, item, ownL, srcIdx>>
UNCH_CLOC  == UNCHANGED <<res, val>>
UNCH_OBS   == UNCHANGED <<received, ended, cnt, pend>>

(***************************************************************************)
(* Producer: enqueue_from_iterator (773-795), put (701-717),               *)
(* put_nowait (691-699), _start_enqueue (719-722), _stop_enqueue (724-742) *)
(***************************************************************************)
PSlot(p) ==                        \* the executor hands a free worker thread to the queued task
  /\ pc[p] = "p_wait"
  /\ Cardinality({r \in Prods : pc[r] \notin {"p_wait", "done"}}) < PoolSize
  /\ Goto(p, "p_start")
  /\ UNCH_LOCKS /\ UNCH_WAIT /\ UNCH_STATE /\ UNCHANGED q /\ UNCH_PLOC /\ UNCH_CLOC /\ UNCH_OBS

PStart(p) ==                       \* with S: start += 1; max = max(max, start)
  /\ pc[p] = "p_start" /\ ownS = NoOne
  /\ start' = start + 1
  /\ maxenq' = Max(maxenq, start + 1)
  /\ Goto(p, "p_loop")
  /\ UNCHANGED <<ownE, ownD, ownS, waitE, waitD, notified, q, stop, exc, exhausted, returned, stopped>>
  /\ UNCH_PLOC /\ UNCH_CLOC /\ UNCH_OBS

PLoop(p) ==                        \* while not self.enqueue_done  (777)
  /\ pc[p] = "p_loop"
  /\ Goto(p, IF Done THEN "done" ELSE "p_next")
  /\ UNCH_LOCKS /\ UNCH_WAIT /\ UNCH_STATE /\ UNCHANGED q /\ UNCH_PLOC /\ UNCH_CLOC /\ UNCH_OBS

PNext(p) ==                        \* next(iterator): value / raises / StopIteration(p)   (779-795)
  /\ pc[p] = "p_next" /\ ~Shared
  /\ IF FailAt[p] = idx[p] + 1
     THEN \* the iterator raises: ignore_error -> continue, else self._exception = e; _stop_enqueue()
          IF IgnoreError
          THEN /\ idx' = [idx EXCEPT ![p] = @ + 1]          \* the harness iterator skips the bad element
               /\ Goto(p, "p_loop") /\ UNCHANGED <<exc, item>>
          ELSE /\ exc' = TRUE /\ Goto(p, "p_stopF") /\ UNCHANGED <<idx, item>>
     ELSE IF idx[p] = N[p]
          THEN /\ Goto(p, "p_stopR") /\ UNCHANGED <<exc, idx, item>>
          ELSE /\ idx' = [idx EXCEPT ![p] = @ + 1]
               /\ item' = [item EXCEPT ![p] = <<p, idx[p] + 1>>]
               /\ Goto(p, "p_acqE") /\ UNCHANGED exc
  /\ UNCH_LOCKS /\ UNCH_WAIT /\ UNCHANGED <<q, start, stop, maxenq, exhausted, returned, stopped, ownL, srcIdx>>
  /\ UNCH_CLOC /\ UNCH_OBS

PAcqL(p) ==                        \* _ThreadSafeIterator.__next__: with self._lock  (iter_utils.py:805-807)
  /\ pc[p] = "p_next" /\ Shared /\ ownL = NoOne
  /\ ownL' = p /\ Goto(p, "p_src")
  /\ UNCH_LOCKS /\ UNCH_WAIT /\ UNCH_STATE /\ UNCHANGED <<q, idx, item, srcIdx>> /\ UNCH_CLOC /\ UNCH_OBS

PSrc(p) ==                         \* next(self._iterator) of the shared input, then the lock is released
  /\ pc[p] = "p_src"
  /\ ownL' = NoOne
  /\ IF SrcFail = srcIdx + 1
     THEN IF IgnoreError
          THEN /\ srcIdx' = srcIdx + 1 /\ Goto(p, "p_loop") /\ UNCHANGED <<exc, item>>
          ELSE /\ exc' = TRUE /\ Goto(p, "p_stopF") /\ UNCHANGED <<srcIdx, item>>
     ELSE IF srcIdx = SrcN
          THEN /\ Goto(p, "p_stopR") /\ UNCHANGED <<exc, srcIdx, item>>
          ELSE /\ srcIdx' = srcIdx + 1
               /\ item' = [item EXCEPT ![p] = <<"src", srcIdx + 1>>]
               /\ Goto(p, "p_acqE") /\ UNCHANGED exc
  /\ UNCH_LOCKS /\ UNCH_WAIT /\ UNCHANGED <<q, start, stop, maxenq, exhausted, returned, stopped, idx>>
  /\ UNCH_CLOC /\ UNCH_OBS

PAcqE(p) ==                        \* with self._enqueue_lock  (703)
  /\ pc[p] = "p_acqE" /\ ownE = NoOne
  /\ ownE' = p /\ Goto(p, "p_chk")
  /\ UNCHANGED <<ownD, ownS, q>> /\ UNCH_WAIT /\ UNCH_STATE /\ UNCH_PLOC /\ UNCH_CLOC /\ UNCH_OBS

PChk(p) ==                         \* while not self.enqueue_done  (704); done -> leave `with` (release E), back to 777
  /\ pc[p] = "p_chk"
  /\ IF Done THEN ownE' = NoOne /\ Goto(p, "p_loop")
             ELSE UNCHANGED ownE /\ Goto(p, "p_try")
  /\ UNCHANGED <<ownD, ownS, q>> /\ UNCH_WAIT /\ UNCH_STATE /\ UNCH_PLOC /\ UNCH_CLOC /\ UNCH_OBS

PTry(p) ==                         \* self._queue.put_nowait(value)  (694): ok or queue.Full
  /\ pc[p] = "p_try"
  /\ IF Cap = 0 \/ Len(q) < Cap
     THEN q' = Append(q, item[p]) /\ Goto(p, "p_prog")
     ELSE UNCHANGED q /\ Goto(p, "p_fullchk")
  /\ UNCH_LOCKS /\ UNCH_WAIT /\ UNCH_STATE /\ UNCH_PLOC /\ UNCH_CLOC /\ UNCH_OBS

PProg(p) ==                        \* with S: cnt += 1 (695-699); then _release_and_notify: E.release() (478)
  /\ pc[p] = "p_prog" /\ ownS = NoOne
  /\ ownE' = NoOne /\ Goto(p, "p_notD")
  /\ UNCHANGED <<ownD, ownS, q>> /\ UNCH_WAIT /\ UNCH_STATE /\ UNCH_PLOC /\ UNCH_CLOC /\ UNCH_OBS

PNotD(p) ==                        \* with D: D.notify()  (480-484)
  /\ pc[p] = "p_notD" /\ ownD = NoOne
  /\ waitD' = Notify1(waitD)[1] /\ notified' = notified \cup Notify1(waitD)[2]
  /\ Goto(p, "p_reacqE")
  /\ UNCH_LOCKS /\ UNCHANGED <<waitE, q>> /\ UNCH_STATE /\ UNCH_PLOC /\ UNCH_CLOC /\ UNCH_OBS

PReacqE(p) ==                      \* finally: E.acquire() (486); return; leave `with E` -> release
  /\ pc[p] = "p_reacqE" /\ ownE = NoOne
  /\ Goto(p, "p_loop")
  /\ UNCH_LOCKS /\ UNCH_WAIT /\ UNCH_STATE /\ UNCHANGED q /\ UNCH_PLOC /\ UNCH_CLOC /\ UNCH_OBS

PFullChk(p) ==                     \* except Full: if self.enqueue_done: break (713); else E.wait() (715)
  /\ pc[p] = "p_fullchk"
  /\ IF Done
     THEN /\ ownE' = NoOne /\ Goto(p, "p_loop") /\ UNCHANGED waitE
     ELSE /\ ownE' = NoOne /\ waitE' = Append(waitE, p) /\ Goto(p, "p_waitE")
  /\ UNCHANGED <<ownD, ownS, waitD, notified, q>> /\ UNCH_STATE /\ UNCH_PLOC /\ UNCH_CLOC /\ UNCH_OBS

PWake(p) ==                        \* notified inside E.wait(): re-acquire E, `continue` -> 704
  /\ pc[p] = "p_waitE" /\ p \in notified /\ ownE = NoOne
  /\ ownE' = p /\ notified' = notified \ {p} /\ Goto(p, "p_chk")
  /\ UNCHANGED <<ownD, ownS, waitE, waitD, q>> /\ UNCH_STATE /\ UNCH_PLOC /\ UNCH_CLOC /\ UNCH_OBS

PTimeout(p) ==                     \* E.wait(timeout) returned False: TimeoutError -> except Exception in 783
  /\ Timeout /\ pc[p] = "p_waitE" /\ p \notin notified /\ ownE = NoOne
  /\ waitE' = Without(waitE, p)
  /\ IF IgnoreError THEN Goto(p, "p_loop") /\ UNCHANGED exc
                    ELSE exc' = TRUE /\ Goto(p, "p_stopF")
  /\ UNCH_LOCKS /\ UNCHANGED <<waitD, notified, q, start, stop, maxenq, exhausted, returned, stopped>>
  /\ UNCH_PLOC /\ UNCH_CLOC /\ UNCH_OBS

PStop(p) ==                        \* _stop_enqueue: with S: stop = min(stop+1, start); returned.extend(values)
  /\ pc[p] \in {"p_stopR", "p_stopF"} /\ ownS = NoOne
  /\ ownS' = p
  /\ stop' = Min(stop + 1, start)
  /\ returned' = IF pc[p] = "p_stopR" /\ ~Shared THEN Append(returned, p) ELSE returned   \* map() generators return nothing
  /\ Goto(p, "p_stopchk")
  /\ UNCHANGED <<ownE, ownD, q, start, maxenq, exc, exhausted, stopped>> /\ UNCH_WAIT /\ UNCH_PLOC /\ UNCH_CLOC /\ UNCH_OBS

PStopChk(p) ==                     \* if self.enqueue_done (736): S.release() (478) ... else leave `with S`
  /\ pc[p] = "p_stopchk"
  /\ ownS' = NoOne
  /\ Goto(p, IF Done THEN "p_stopnot" ELSE "done")
  /\ UNCHANGED <<ownE, ownD, q>> /\ UNCH_WAIT /\ UNCH_STATE /\ UNCH_PLOC /\ UNCH_CLOC /\ UNCH_OBS

PStopNot(p) ==                     \* with D: D.notify_all()
  /\ pc[p] = "p_stopnot" /\ ownD = NoOne
  /\ waitD' = <<>> /\ notified' = notified \cup NotifyAll(waitD)[2]
  /\ Goto(p, "p_stopreacq")
  /\ UNCH_LOCKS /\ UNCHANGED <<waitE, q>> /\ UNCH_STATE /\ UNCH_PLOC /\ UNCH_CLOC /\ UNCH_OBS

PStopReacq(p) ==                   \* finally: S.acquire(); [repair: second _release_and_notify -> S.release()]; leave `with S`
  /\ pc[p] = "p_stopreacq" /\ ownS = NoOne
  /\ Goto(p, IF "stop_notify_enqueuers" \in Fixes THEN "p_stopnotE" ELSE "done")
  /\ UNCH_LOCKS /\ UNCH_WAIT /\ UNCH_STATE /\ UNCHANGED q /\ UNCH_PLOC /\ UNCH_CLOC /\ UNCH_OBS

PStopNotE(p) ==                    \* repair: with E: E.notify_all()  (producers parked on a full queue)
  /\ pc[p] = "p_stopnotE" /\ ownE = NoOne
  /\ waitE' = <<>> /\ notified' = notified \cup NotifyAll(waitE)[2]
  /\ Goto(p, "p_stopreacq2")
  /\ UNCH_LOCKS /\ UNCHANGED <<waitD, q>> /\ UNCH_STATE /\ UNCH_PLOC /\ UNCH_CLOC /\ UNCH_OBS

PStopReacq2(p) ==                  \* finally: S.acquire(); leave `with S`
  /\ pc[p] = "p_stopreacq2" /\ ownS = NoOne
  /\ Goto(p, "done")
  /\ UNCH_LOCKS /\ UNCH_WAIT /\ UNCH_STATE /\ UNCHANGED q /\ UNCH_PLOC /\ UNCH_CLOC /\ UNCH_OBS

(***************************************************************************)
(* get_nowait (593-617), shared by get and get_batch.  `pre` is "c" or "b".*)
(* Raising from get_nowait: Kind = "exc" | "stop".                         *)
(***************************************************************************)
EndKind == IF exc THEN "exc" ELSE "stop"

\* what a consumer in get() mode does when get_nowait raises StopIteration / the exception:
\* the exception leaves `with D` (release D) and ends the consumer.
CEnd(c, kind) ==
  /\ ended' = [ended EXCEPT ![c] = IF kind = "stop" THEN <<"stop", returned>> ELSE <<kind>>]
  /\ Goto(c, "done")

CAcqD(c) ==                        \* with self._dequeue_lock (673)
  /\ pc[c] = "c_acqD" /\ ownD = NoOne
  /\ ownD' = c /\ Goto(c, "c_acqS")
  /\ UNCHANGED <<ownE, ownS, q>> /\ UNCH_WAIT /\ UNCH_STATE /\ UNCH_PLOC /\ UNCH_CLOC /\ UNCH_OBS

CAcqS(c) ==                        \* self._states_lock.acquire() (595)
  /\ pc[c] = "c_acqS" /\ ownS = NoOne
  /\ ownS' = c /\ Goto(c, "c_inner")
  /\ UNCHANGED <<ownE, ownD, q>> /\ UNCH_WAIT /\ UNCH_STATE /\ UNCH_PLOC /\ UNCH_CLOC /\ UNCH_OBS

CInner(c) ==                       \* self._queue.get_nowait() (597) / except Empty: if self._exhausted: raise (604)
  /\ pc[c] = "c_inner"
  /\ IF q # <<>>
     THEN /\ val' = [val EXCEPT ![c] = Head(q)] /\ q' = Tail(q)
          /\ Goto(c, "c_emptychk") /\ UNCHANGED <<ownD, ownS, ended>>
     ELSE /\ UNCHANGED <<q, val>>
          /\ IF exhausted
             THEN ownS' = NoOne /\ ownD' = NoOne /\ CEnd(c, EndKind)
             ELSE Goto(c, "c_edone") /\ UNCHANGED <<ownD, ownS, ended>>
  /\ UNCHANGED <<ownE, res, received, cnt, pend>> /\ UNCH_WAIT /\ UNCH_STATE /\ UNCH_PLOC

CEDone(c) ==                       \* if self.enqueue_done: _set_exhausted(); raise (606-608) else raise Empty -> D.wait()
  /\ pc[c] = "c_edone"
  /\ IF Done
     THEN /\ exhausted' = TRUE
          /\ waitD' = <<>> /\ notified' = notified \cup NotifyAll(waitD)[2]
          /\ ownS' = NoOne /\ ownD' = NoOne /\ CEnd(c, EndKind)
     ELSE /\ ownS' = NoOne /\ ownD' = NoOne
          /\ waitD' = Append(waitD, c) /\ Goto(c, "c_waitD")
          /\ UNCHANGED <<exhausted, notified, ended>>
  /\ UNCHANGED <<ownE, waitE, q, start, stop, maxenq, exc, returned, stopped, received, cnt, pend>> /\ UNCH_PLOC /\ UNCH_CLOC

CEmptyChk(c) ==                    \* if self._queue.empty() ... (599)
  /\ pc[c] = "c_emptychk"
  /\ IF q = <<>> THEN Goto(c, "c_donechk") /\ UNCHANGED <<ownS, ownD>>
                 ELSE ownS' = NoOne /\ ownD' = NoOne /\ Goto(c, "c_notE")   \* return; _release_and_notify: D.release()
  /\ UNCHANGED <<ownE, q>> /\ UNCH_WAIT /\ UNCH_STATE /\ UNCH_PLOC /\ UNCH_CLOC /\ UNCH_OBS

CDoneChk(c) ==                     \* ... and self.enqueue_done: _set_exhausted() (599-600); return; D.release()
  /\ pc[c] = "c_donechk"
  /\ IF Done THEN /\ exhausted' = TRUE /\ waitD' = <<>> /\ notified' = notified \cup NotifyAll(waitD)[2]
             ELSE UNCHANGED <<exhausted, waitD, notified>>
  /\ ownS' = NoOne /\ ownD' = NoOne /\ Goto(c, "c_notE")
  /\ UNCHANGED <<ownE, waitE, q, start, stop, maxenq, exc, returned, stopped>> /\ UNCH_PLOC /\ UNCH_CLOC /\ UNCH_OBS

CNotE(c) ==                        \* with E: E.notify() (480-484)
  /\ pc[c] = "c_notE" /\ ownE = NoOne
  /\ waitE' = Notify1(waitE)[1] /\ notified' = notified \cup Notify1(waitE)[2]
  /\ Goto(c, "c_reacqD")
  /\ UNCH_LOCKS /\ UNCHANGED <<waitD, q>> /\ UNCH_STATE /\ UNCH_PLOC /\ UNCH_CLOC /\ UNCH_OBS

CReacqD(c) ==                      \* finally: D.acquire() (486); return value; leave `with D`
  /\ pc[c] = "c_reacqD" /\ ownD = NoOne
  /\ received' = [received EXCEPT ![c] = Append(@, val[c])]
  /\ Goto(c, "c_acqD")
  /\ UNCH_LOCKS /\ UNCH_WAIT /\ UNCH_STATE /\ UNCHANGED <<q, ended, cnt, pend>> /\ UNCH_PLOC /\ UNCH_CLOC

CWake(c) ==                        \* D.wait() returned True: `continue` (686-688)
  /\ pc[c] = "c_waitD" /\ c \in notified /\ ownD = NoOne
  /\ ownD' = c /\ notified' = notified \ {c} /\ Goto(c, "c_acqS")
  /\ UNCHANGED <<ownE, ownS, waitE, waitD, q>> /\ UNCH_STATE /\ UNCH_PLOC /\ UNCH_CLOC /\ UNCH_OBS

CTimeout(c) ==                     \* D.wait(timeout) returned False: raise TimeoutError (689)
  /\ Timeout /\ pc[c] = "c_waitD" /\ c \notin notified /\ ownD = NoOne
  /\ waitD' = Without(waitD, c)
  /\ ended' = [ended EXCEPT ![c] = <<"timeout">>] /\ Goto(c, "done")
  /\ UNCH_LOCKS /\ UNCHANGED <<waitE, notified, q, received, cnt, pend>> /\ UNCH_STATE /\ UNCH_PLOC /\ UNCH_CLOC

(***************************************************************************)
(* get_batch(K, block) (619-669)                                           *)
(***************************************************************************)
Full(c, r) == K[c] > 0 /\ Len(r) >= K[c]
\* top of `while not max_batch_size or len(result) < max_batch_size` with D held
BTop(c, r) == IF Full(c, r) THEN ownD' = NoOne /\ Goto(c, "b_final")
                            ELSE UNCHANGED ownD /\ Goto(c, "b_acqS")

\* get_nowait raised StopIteration / the exception inside get_batch (659-663)
BRaise(c, kind) ==
  IF (res[c] # <<>> /\ (kind = "stop" \/ "batch_keeps_partial_on_error" \in Fixes)) \/ (kind = "exc" /\ IgnoreError)
  THEN /\ ownD' = NoOne /\ Goto(c, "b_final") /\ UNCHANGED <<ended, pend, res>>    \* break
  ELSE /\ ownD' = NoOne /\ res' = [res EXCEPT ![c] = <<>>]                         \* raise e: the batch is dropped
       /\ LET e == IF kind = "stop" THEN <<"stop", returned>> ELSE <<kind>> IN
            IF Mode[c] = "diter"
            THEN pend' = [pend EXCEPT ![c] = e] /\ UNCHANGED ended /\ Goto(c, "x2_acqS")   \* MultiplexIterator.__next__: maybe_stop()
            ELSE ended' = [ended EXCEPT ![c] = e] /\ UNCHANGED pend /\ Goto(c, "done")

BAcqD(c) ==
  /\ pc[c] = "b_acqD" /\ ownD = NoOne
  /\ res' = [res EXCEPT ![c] = <<>>]
  /\ ownD' = c /\ Goto(c, "b_acqS")          \* K = 0 or 0 < K: the loop is entered
  /\ UNCHANGED <<ownE, ownS, q, val>> /\ UNCH_WAIT /\ UNCH_STATE /\ UNCH_PLOC /\ UNCH_OBS

BAcqS(c) ==
  /\ pc[c] = "b_acqS" /\ ownS = NoOne
  /\ ownS' = c /\ Goto(c, "b_inner")
  /\ UNCHANGED <<ownE, ownD, q>> /\ UNCH_WAIT /\ UNCH_STATE /\ UNCH_PLOC /\ UNCH_CLOC /\ UNCH_OBS

BInner(c) ==
  /\ pc[c] = "b_inner"
  /\ IF q # <<>>
     THEN /\ val' = [val EXCEPT ![c] = Head(q)] /\ q' = Tail(q)
          /\ Goto(c, "b_emptychk") /\ UNCHANGED <<ownD, ownS, ended, pend, res>>
     ELSE /\ UNCHANGED <<q, val>>
          /\ IF exhausted
             THEN ownS' = NoOne /\ BRaise(c, EndKind)
             ELSE Goto(c, "b_edone") /\ UNCHANGED <<ownD, ownS, ended, pend, res>>
  /\ UNCHANGED <<ownE, received, cnt>> /\ UNCH_WAIT /\ UNCH_STATE /\ UNCH_PLOC

BEDone(c) ==                       \* Empty and not exhausted: enqueue_done? (606)  else the Empty handler of get_batch (641-655)
  /\ pc[c] = "b_edone"
  /\ IF Done
     THEN /\ exhausted' = TRUE /\ waitD' = <<>> /\ notified' = notified \cup NotifyAll(waitD)[2]
          /\ ownS' = NoOne /\ BRaise(c, EndKind)
     ELSE /\ ownS' = NoOne
          /\ UNCHANGED <<exhausted, waitD, notified, ended, pend, res>>
          /\ IF (~Block[c] /\ res[c] # <<>>) \/ (Block[c] /\ K[c] > 0 /\ Len(res[c]) = K[c])
             THEN ownD' = NoOne /\ Goto(c, "b_final")                           \* break
             ELSE IF res[c] # <<>>
                  THEN ownD' = NoOne /\ Goto(c, "b_midnotE")                    \* _release_and_notify(D, E)
                  ELSE UNCHANGED ownD /\ Goto(c, "b_emptyre")
  /\ UNCHANGED <<ownE, waitE, q, start, stop, maxenq, exc, returned, stopped, val, received, cnt>> /\ UNCH_PLOC

BMidNotE(c) ==
  /\ pc[c] = "b_midnotE" /\ ownE = NoOne
  /\ waitE' = Notify1(waitE)[1] /\ notified' = notified \cup Notify1(waitE)[2]
  /\ Goto(c, "b_midreacqD")
  /\ UNCH_LOCKS /\ UNCHANGED <<waitD, q>> /\ UNCH_STATE /\ UNCH_PLOC /\ UNCH_CLOC /\ UNCH_OBS

BMidReacqD(c) ==
  /\ pc[c] = "b_midreacqD" /\ ownD = NoOne
  /\ ownD' = c /\ Goto(c, "b_emptyre")
  /\ UNCHANGED <<ownE, ownS, q>> /\ UNCH_WAIT /\ UNCH_STATE /\ UNCH_PLOC /\ UNCH_CLOC /\ UNCH_OBS

BEmptyRe(c) ==                     \* if not self._queue.empty() [repair: or self.enqueue_done]: continue  else D.wait()
  /\ pc[c] = "b_emptyre"
  /\ IF q # <<>>
     THEN BTop(c, res[c]) /\ UNCHANGED waitD
     ELSE IF "batch_recheck_done" \in Fixes
          THEN Goto(c, "b_donere") /\ UNCHANGED <<ownD, waitD>>
          ELSE ownD' = NoOne /\ waitD' = Append(waitD, c) /\ Goto(c, "b_waitD")
  /\ UNCHANGED <<ownE, ownS, waitE, notified, q>> /\ UNCH_STATE /\ UNCH_PLOC /\ UNCH_CLOC /\ UNCH_OBS

BDoneRe(c) ==                      \* repair: ... or self.enqueue_done: continue  else D.wait()
  /\ pc[c] = "b_donere"
  /\ IF Done
     THEN BTop(c, res[c]) /\ UNCHANGED waitD
     ELSE ownD' = NoOne /\ waitD' = Append(waitD, c) /\ Goto(c, "b_waitD")
  /\ UNCHANGED <<ownE, ownS, waitE, notified, q>> /\ UNCH_STATE /\ UNCH_PLOC /\ UNCH_CLOC /\ UNCH_OBS

BWake(c) ==                        \* D.wait() returned True: `continue` (654-655); the batch is never full here
  /\ pc[c] = "b_waitD" /\ c \in notified /\ ownD = NoOne
  /\ notified' = notified \ {c}
  /\ ownD' = c /\ Goto(c, "b_acqS")
  /\ UNCHANGED <<ownE, ownS, waitE, waitD, q>> /\ UNCH_STATE /\ UNCH_PLOC /\ UNCH_CLOC /\ UNCH_OBS

BTimeout(c) ==
  /\ Timeout /\ pc[c] = "b_waitD" /\ c \notin notified /\ ownD = NoOne
  /\ waitD' = Without(waitD, c)
  /\ res' = [res EXCEPT ![c] = <<>>]
  /\ IF Mode[c] = "diter"
     THEN pend' = [pend EXCEPT ![c] = <<"timeout">>] /\ UNCHANGED ended /\ Goto(c, "x2_acqS")
     ELSE ended' = [ended EXCEPT ![c] = <<"timeout">>] /\ UNCHANGED pend /\ Goto(c, "done")
  /\ UNCH_LOCKS /\ UNCHANGED <<waitE, notified, q, val, received, cnt>> /\ UNCH_STATE /\ UNCH_PLOC

BEmptyChk(c) ==                    \* after a successful inner get: if self._queue.empty() (599)
  /\ pc[c] = "b_emptychk"
  /\ IF q = <<>>
     THEN Goto(c, "b_donechk") /\ UNCHANGED <<ownS, ownD, res>>
     ELSE /\ ownS' = NoOne /\ res' = [res EXCEPT ![c] = Append(@, val[c])]
          /\ BTop(c, Append(res[c], val[c]))
  /\ UNCHANGED <<ownE, q, val>> /\ UNCH_WAIT /\ UNCH_STATE /\ UNCH_PLOC /\ UNCH_OBS

BDoneChk(c) ==
  /\ pc[c] = "b_donechk"
  /\ IF Done THEN /\ exhausted' = TRUE /\ waitD' = <<>> /\ notified' = notified \cup NotifyAll(waitD)[2]
             ELSE UNCHANGED <<exhausted, waitD, notified>>
  /\ ownS' = NoOne /\ res' = [res EXCEPT ![c] = Append(@, val[c])]
  /\ BTop(c, Append(res[c], val[c]))
  /\ UNCHANGED <<ownE, waitE, q, start, stop, maxenq, exc, returned, stopped, val>> /\ UNCH_PLOC /\ UNCH_OBS

BFinal(c) ==                       \* with E: E.notify() (664-665); return result
  /\ pc[c] = "b_final" /\ ownE = NoOne
  /\ waitE' = Notify1(waitE)[1] /\ notified' = notified \cup Notify1(waitE)[2]
  /\ IF Mode[c] = "diter" /\ Steps[c] >= 0
     THEN \* DequeueIterator hands out the batch element by element until num_steps is reached
          LET room == Steps[c] - cnt[c]
              take == IF Len(res[c]) < room THEN Len(res[c]) ELSE room IN
          /\ received' = [received EXCEPT ![c] = @ \o SubSeq(res[c], 1, take)]
          /\ cnt' = [cnt EXCEPT ![c] = @ + take]
          /\ Goto(c, IF cnt[c] + take = Steps[c] THEN "x1_acqS" ELSE "b_acqD")
     ELSE /\ received' = [received EXCEPT ![c] = @ \o res[c]]
          /\ cnt' = [cnt EXCEPT ![c] = IF Mode[c] = "diter" THEN @ + Len(res[c]) ELSE @]
          /\ Goto(c, "b_acqD")
  /\ UNCH_LOCKS /\ UNCHANGED <<waitD, q, ended, pend>> /\ UNCH_STATE /\ UNCH_PLOC /\ UNCH_CLOC

(***************************************************************************)
(* maybe_stop (744-771)                                                    *)
(***************************************************************************)
\* maybe_stop as a sequence of four segments of process p whose labels start with `pre`;
\* used by external stoppers (pre = "s_") and by DequeueIterator / MultiplexIterator ("x1_", "x2_")
GStopAcqS(p, pre, withExc) ==      \* with S: stop = start = max; maybe self._exception = exc
  /\ pc[p] = pre \o "acqS" /\ ownS = NoOne
  /\ ownS' = p
  /\ stop' = maxenq /\ start' = maxenq
  /\ exc' = (exc \/ withExc)
  /\ stopped' = (stopped \/ "stopped_flag" \in Fixes)
  /\ Goto(p, pre \o "assert")
  /\ UNCHANGED <<ownE, ownD, q, maxenq, exhausted, returned>> /\ UNCH_WAIT /\ UNCH_PLOC /\ UNCH_CLOC /\ UNCH_OBS

GStopAssert(p, pre) ==             \* assert self.enqueue_done (762); leave `with S`
  /\ pc[p] = pre \o "assert"
  /\ ownS' = NoOne
  /\ Goto(p, IF Done THEN pre \o "acqE" ELSE "s_assertfail")
  /\ UNCHANGED <<ownE, ownD, q>> /\ UNCH_WAIT /\ UNCH_STATE /\ UNCH_PLOC /\ UNCH_CLOC /\ UNCH_OBS

GStopAcqE(p, pre) ==               \* with E: E.notify_all()
  /\ pc[p] = pre \o "acqE" /\ ownE = NoOne
  /\ waitE' = <<>> /\ notified' = notified \cup NotifyAll(waitE)[2]
  /\ Goto(p, pre \o "acqD")
  /\ UNCH_LOCKS /\ UNCHANGED <<waitD, q>> /\ UNCH_STATE /\ UNCH_PLOC /\ UNCH_CLOC /\ UNCH_OBS

GStopAcqD(p, pre, withExc, after) ==   \* with D: _set_exhausted() or D.notify_all()
  /\ pc[p] = pre \o "acqD" /\ ownD = NoOne
  /\ exhausted' = (exhausted \/ withExc)
  /\ waitD' = <<>> /\ notified' = notified \cup NotifyAll(waitD)[2]
  /\ Goto(p, after)
  /\ UNCH_LOCKS /\ UNCHANGED <<waitE, q, start, stop, maxenq, exc, returned, stopped>> /\ UNCH_PLOC /\ UNCH_CLOC /\ UNCH_OBS

SAcqS(s)   == GStopAcqS(s, "s_", StopExc[s])
SAssert(s) == GStopAssert(s, "s_")
SAcqE(s)   == GStopAcqE(s, "s_")
SAcqD(s)   == GStopAcqD(s, "s_", StopExc[s], "done")

(***************************************************************************)
(* DequeueIterator(num_steps) inside MultiplexIterator (813-837, 373-408):  *)
(* consumer mode "diter".  get_batch() without arguments is batch mode with *)
(* K = 0, Block = FALSE; the elements of a returned batch are handed out    *)
(* without further synchronisation until num_steps is reached, then         *)
(* maybe_stop() (x1_), StopIteration, MultiplexIterator.maybe_stop():       *)
(* queue.maybe_stop() again (x2_) and thread_pool.shutdown() (d_join).      *)
(***************************************************************************)
X1AcqS(c)   == GStopAcqS(c, "x1_", FALSE)
X1Assert(c) == GStopAssert(c, "x1_")
X1AcqE(c)   == GStopAcqE(c, "x1_")
X1AcqD(c)   == GStopAcqD(c, "x1_", FALSE, "x2_acqS")
X2AcqS(c)   == GStopAcqS(c, "x2_", FALSE)
X2Assert(c) == GStopAssert(c, "x2_")
X2AcqE(c)   == GStopAcqE(c, "x2_")
X2AcqD(c)   == GStopAcqD(c, "x2_", FALSE, "d_join")

DJoin(c) ==                        \* thread_pool.shutdown(wait=True): every worker thread has finished
  /\ pc[c] = "d_join"
  /\ \A p \in Prods : pc[p] = "done"
  /\ Goto(c, "done")
  /\ ended' = [ended EXCEPT ![c] = IF pend[c][1] = "run" THEN <<"stopped">> ELSE pend[c]]
  /\ UNCH_LOCKS /\ UNCH_WAIT /\ UNCH_STATE /\ UNCHANGED <<q, received, cnt, pend>> /\ UNCH_PLOC /\ UNCH_CLOC

(***************************************************************************)
ProdStep(p) == \/ PSlot(p) \/ PStart(p) \/ PLoop(p) \/ PNext(p) \/ PAcqL(p) \/ PSrc(p) \/ PAcqE(p) \/ PChk(p) \/ PTry(p) \/ PProg(p)
               \/ PNotD(p) \/ PReacqE(p) \/ PFullChk(p) \/ PWake(p) \/ PTimeout(p)
               \/ PStop(p) \/ PStopChk(p) \/ PStopNot(p) \/ PStopReacq(p) \/ PStopNotE(p) \/ PStopReacq2(p)
ConsStep(c) == \/ CAcqD(c) \/ CAcqS(c) \/ CInner(c) \/ CEDone(c) \/ CEmptyChk(c) \/ CDoneChk(c)
               \/ CNotE(c) \/ CReacqD(c) \/ CWake(c) \/ CTimeout(c)
               \/ BAcqD(c) \/ BAcqS(c) \/ BInner(c) \/ BEDone(c) \/ BMidNotE(c) \/ BMidReacqD(c)
               \/ BEmptyRe(c) \/ BDoneRe(c) \/ BWake(c) \/ BTimeout(c) \/ BEmptyChk(c) \/ BDoneChk(c) \/ BFinal(c)
               \/ X1AcqS(c) \/ X1Assert(c) \/ X1AcqE(c) \/ X1AcqD(c)
               \/ X2AcqS(c) \/ X2Assert(c) \/ X2AcqE(c) \/ X2AcqD(c) \/ DJoin(c)
StopStep(s) == SAcqS(s) \/ SAssert(s) \/ SAcqE(s) \/ SAcqD(s)

AllDone == \A p \in Procs : pc[p] \in {"done", "s_assertfail"}
Terminated == AllDone /\ UNCHANGED vars

Next == \/ \E p \in Prods : ProdStep(p)
        \/ \E c \in Cons : ConsStep(c)
        \/ \E s \in Stoppers : StopStep(s)
        \/ Terminated

Fairness == /\ \A p \in Prods : WF_vars(ProdStep(p))
            /\ \A c \in Cons : WF_vars(ConsStep(c))
            /\ \A s \in Stoppers : WF_vars(StopStep(s))
Spec == Init /\ [][Next]_vars /\ Fairness

(***************************************************************************)
(* Properties                                                              *)
(***************************************************************************)
Range(s) == {s[j] : j \in 1..Len(s)}
AllItems(p) == {<<p, j>> : j \in 1..idx[p]}

\* lock discipline
TypeOK == /\ ownE \in Procs \cup {NoOne} /\ ownD \in Procs \cup {NoOne} /\ ownS \in Procs \cup {NoOne}
          /\ stop <= start

\* C04 safety -------------------------------------------------------------
InFlight(c) == Range(res[c]) \cup (IF pc[c] \in {"c_emptychk", "c_donechk", "c_notE", "c_reacqD", "b_emptychk", "b_donechk"}
                                   THEN {val[c]} ELSE {})
Held(c) == Range(received[c]) \cup InFlight(c)
\* every element is held by at most one place (consumer or queue) and never twice
NoDup == /\ \A c1, c2 \in Cons : c1 # c2 => Held(c1) \cap Held(c2) = {}
         /\ \A c \in Cons : \A i, j \in 1..Len(received[c]) : i # j => received[c][i] # received[c][j]
         /\ \A c \in Cons : Held(c) \cap Range(q) = {}
         /\ \A i, j \in 1..Len(q) : i # j => q[i] # q[j]
\* only produced elements are ever received (causality)
Causal == \A c \in Cons : \A e \in Held(c) :
            e[2] >= 1 /\ (IF Shared THEN e[1] = "src" /\ e[2] <= srcIdx ELSE e[2] <= idx[e[1]])
\* per-producer order inside every consumer's sequence and inside the queue
Ordered(s) == \A i, j \in 1..Len(s) : (i < j /\ s[i][1] = s[j][1]) => s[i][2] < s[j][2]
PerProducerOrder == ~Shared => (Ordered(q) /\ \A c \in Cons : Ordered(received[c]))

NoFault == (\A p \in Prods : FailAt[p] = 0) /\ Stoppers = {} /\ ~Timeout /\ SrcFail = 0
           /\ \A c \in Cons : Steps[c] < 0
\* fault-free terminal states: every produced element received exactly once, end-of-stream carries all returns
FaultFreeEnd ==
  (NoFault /\ AllDone) =>
     /\ UNION {Range(received[c]) : c \in Cons}
          = (IF Shared THEN {<<"src", j>> : j \in 1..SrcN} ELSE UNION {{<<p, j>> : j \in 1..N[p]} : p \in Prods})
     /\ \A c \in Cons : ended[c][1] = "stop"
                        /\ (~Shared => (Range(ended[c][2]) = Prods /\ Len(ended[c][2]) = Cardinality(Prods)))
     /\ q = <<>>
\* a clean end-of-stream is only ever reported after every declared producer finished
EndOnlyWhenDone ==
  (DeclaredMax > 0 /\ Stoppers = {}) =>
    \A c \in Cons : ended[c][1] = "stop"
                       => \A p \in Prods : pc[p] \in {"done", "p_stopchk", "p_stopnot", "p_stopreacq", "p_stopnotE", "p_stopreacq2"}

\* C05 safety -------------------------------------------------------------
\* after a producer failure (no ignore_error, no external stop) every consumer that ends, ends with
\* that exception (or a timeout when one is configured): never a clean end of stream
FailureSeen ==
  (Stoppers = {} /\ DeclaredMax > 0 /\ ~IgnoreError /\ exc) =>
     \A c \in Cons : pc[c] = "done" => ended[c][1] \in {"exc", "timeout"}
\* ... unless it ended cleanly before the failure happened, which requires all producers to have
\* stopped: impossible while one of them is still to fail (checked through EndOnlyWhenDone)

\* liveness ----------------------------------------------------------------
Termination == <>AllDone
\* with a timeout configured nobody can stay blocked: also Termination, checked in timeout configs
=============================================================================
