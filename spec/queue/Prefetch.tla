------------------------------ MODULE Prefetch ------------------------------
(***************************************************************************)
(* The prefetching generator protocol of PrefetchedCourierServer           *)
(* (courier_server.py:335-472) as seen by its clients (C15).               *)
(*                                                                         *)
(* Property-level specification: the weakest transition system whose       *)
(* behaviours are exactly the request/response histories the property      *)
(* allows.  Requests are split into Call and Ret so that they may overlap   *)
(* with each other and with the prefetch thread.                           *)
(*                                                                         *)
(*   gens[g]   = [len, fail, ret]   the g-th generator given to             *)
(*               init_generator: yields items <<g,1>>..<<g,len>>, raises at *)
(*               position `fail` (0 = never), returns `ret`                 *)
(*   yielded[g]  items the prefetch thread has obtained from generator g    *)
(*   delivered[g] items already handed to clients in next-batch responses   *)
(*   ended[g]    "run" | "done" | "fail" | "stop"  how generator g ended    *)
(*   marker[g]   the requesters an end marker for g has been sent to        *)
(*               (each client reading g sees exactly one)                   *)
(*   cur         generator currently installed in the server (0 = none)     *)
(*   req[r]      open requests                                              *)
(*                                                                         *)
(* A next-batch response for a request issued while generator g was         *)
(* installed carries: the next n <= k undelivered items of g, in order;     *)
(* fewer than k items only if g has ended and everything it yielded before  *)
(* ending is delivered with this response; then (and only then) exactly one *)
(* end marker: StopIteration(ret) after a normal end, the generator's       *)
(* exception after a failure, a retriable TimeoutError if g was stopped by  *)
(* a newer init_generator / shutdown (also later for requests that arrive   *)
(* when no or a stopped generator is installed).                            *)
(***************************************************************************)
EXTENDS Integers, Sequences, FiniteSets, TLC

CONSTANTS MaxGens, MaxLen, Prefetch, MaxK, Reqs

VARIABLES gens, yielded, delivered, ended, marker, threadAlive, cur, req, shutdown, lastRet,
          mine,       \* [Reqs -> generator the client installed itself, 0 = none]: a client's requests are about ITS generator
          taken       \* [Reqs -> item numbers the open next-batch request has taken from the queue so far]
vars == <<gens, yielded, delivered, ended, marker, threadAlive, cur, req, shutdown, lastRet, mine, taken>>

NoReq == [kind |-> "none", g |-> 0, k |-> 0]
G == 1..Len(gens)

Init ==
  /\ gens = <<>> /\ yielded = <<>> /\ delivered = <<>> /\ ended = <<>> /\ marker = <<>> /\ threadAlive = <<>>
  /\ cur = 0 /\ req = [r \in Reqs |-> NoReq] /\ shutdown = FALSE /\ lastRet = <<>>
  /\ mine = [r \in Reqs |-> 0]
  /\ taken = [r \in Reqs |-> <<>>]

\* ---------------------------------------------------------------- prefetch thread
Yield(g) ==                       \* next(generator) returned item yielded[g]+1
  /\ g \in G /\ ended[g] = "run" /\ threadAlive[g]
  /\ yielded[g] < gens[g].len /\ gens[g].fail # yielded[g] + 1
  /\ yielded' = [yielded EXCEPT ![g] = @ + 1]
  /\ UNCHANGED <<gens, delivered, ended, marker, threadAlive, cur, req, shutdown, lastRet, mine, taken>>

\* a next(generator) that was in flight when the generator was stopped completes afterwards: the item
\* is discarded by put() (the queue is done), nothing observable changes
LateYield(g) ==
  /\ g \in G /\ ended[g] = "stop" /\ threadAlive[g]
  /\ UNCHANGED <<gens, yielded, delivered, ended, marker, threadAlive, cur, req, shutdown, lastRet, mine, taken>>

GenEnd(g, how) ==                 \* StopIteration / exception out of the generator
  /\ g \in G /\ ended[g] = "run" /\ threadAlive[g]
  /\ how \in {"done", "fail"}
  /\ IF gens[g].fail = yielded[g] + 1 THEN how = "fail" ELSE (how = "done" /\ yielded[g] = gens[g].len)
  /\ ended' = [ended EXCEPT ![g] = how]
  /\ UNCHANGED <<gens, yielded, delivered, marker, threadAlive, cur, req, shutdown, lastRet, mine, taken>>

ThreadEnd(g) ==                   \* enqueue_from_iterator returned / raised
  /\ g \in G /\ threadAlive[g] /\ ended[g] # "run"
  /\ threadAlive' = [threadAlive EXCEPT ![g] = FALSE]
  /\ UNCHANGED <<gens, yielded, delivered, ended, marker, cur, req, shutdown, lastRet, mine, taken>>

\* ---------------------------------------------------------------- init_generator
InitCall(r) ==
  /\ req[r] = NoReq /\ Len(gens) < MaxGens
  /\ req' = [req EXCEPT ![r] = [kind |-> "init", g |-> 0, k |-> 0]]
  /\ UNCHANGED <<gens, yielded, delivered, ended, marker, threadAlive, cur, shutdown, lastRet, mine, taken>>

\* the handler installs the new generator (under the generator lock): the previous generator,
\* if it had not ended, has been stopped before
Install(r, len, fail) ==
  /\ req[r].kind = "init" /\ req[r].g = 0
  /\ cur # 0 => ended[cur] # "run"
  /\ gens' = Append(gens, [len |-> len, fail |-> fail])
  /\ yielded' = Append(yielded, 0) /\ delivered' = Append(delivered, 0)
  /\ ended' = Append(ended, "run") /\ marker' = Append(marker, {})
  /\ threadAlive' = Append(threadAlive, TRUE)
  /\ cur' = Len(gens) + 1
  /\ req' = [req EXCEPT ![r].g = Len(gens) + 1]
  /\ mine' = [mine EXCEPT ![r] = Len(gens) + 1]
  /\ UNCHANGED <<shutdown, lastRet, taken>>

InitRet(r, ok) ==
  /\ req[r].kind = "init"
  /\ IF ok THEN req[r].g # 0 ELSE (req[r].g = 0 /\ shutdown)   \* refused: "Shutdown requested, cannot take new generator"
  /\ req' = [req EXCEPT ![r] = NoReq]
  /\ UNCHANGED <<gens, yielded, delivered, ended, marker, threadAlive, cur, shutdown, lastRet, mine, taken>>

\* _stop_prefetch of generator g (by a newer init, by stop_prefetch, by shutdown): only an
\* unexhausted generator is stopped
Stop(g) ==
  /\ g \in G /\ g = cur
  /\ ended[g] = "run" \/ (ended[g] \in {"done", "fail"} /\ marker[g] = {})
  /\ ended' = [ended EXCEPT ![g] = "stop"]          \* whatever was not delivered yet is replaced by a retriable error
  /\ UNCHANGED <<gens, yielded, delivered, marker, threadAlive, cur, req, shutdown, lastRet, mine, taken>>

Shutdown ==
  /\ ~shutdown /\ shutdown' = TRUE
  /\ UNCHANGED <<gens, yielded, delivered, ended, marker, threadAlive, cur, req, lastRet, mine, taken>>

\* ---------------------------------------------------------------- next_batch_from_generator
NextCall(r, k) ==
  /\ req[r] = NoReq /\ k \in 1..MaxK
  /\ req' = [req EXCEPT ![r] = [kind |-> "next", g |-> IF mine[r] # 0 THEN mine[r] ELSE cur, k |-> k]]
  /\ taken' = [taken EXCEPT ![r] = <<>>]
  /\ UNCHANGED <<gens, yielded, delivered, ended, marker, threadAlive, cur, shutdown, lastRet, mine>>

\* the handler takes the next item out of the prefetch queue (get_batch dequeues one element at a time; two requests
\* reading the same generator interleave here, and their responses may leave in either order)
Take(r) ==
  /\ req[r].kind = "next" /\ req[r].g # 0
  /\ LET g == req[r].g IN
       /\ Len(taken[r]) < req[r].k /\ delivered[g] < yielded[g]
       /\ taken' = [taken EXCEPT ![r] = Append(@, delivered[g] + 1)]
       /\ delivered' = [delivered EXCEPT ![g] = @ + 1]
  /\ UNCHANGED <<gens, yielded, ended, marker, threadAlive, cur, req, shutdown, lastRet, mine>>

\* mk: "none" | "stop" (StopIteration) | "exc" (the generator's exception) | "timeout" (retriable)
NextRet(r, n, mk) ==
  /\ req[r].kind = "next"
  /\ LET g == req[r].g IN
     IF g = 0
     THEN n = 0 /\ mk = "timeout" /\ UNCHANGED marker                  \* no generator installed
     ELSE /\ n = Len(taken[r])                                       \* exactly the items this request took, in order
          /\ IF mk = "none"
             THEN /\ n = req[r].k                                    \* a full batch, or ...
                  /\ UNCHANGED marker
             ELSE /\ ended[g] # "run"
                  \* ... fewer only at the end: everything the generator yielded has been taken by someone
                  /\ CASE mk = "stop"    -> ended[g] = "done" /\ delivered[g] = yielded[g] /\ r \notin marker[g]
                       [] mk = "exc"     -> ended[g] = "fail" /\ delivered[g] = yielded[g] /\ r \notin marker[g]
                       [] mk = "timeout" -> ended[g] = "stop" \/ shutdown
                       [] OTHER -> FALSE
                  /\ marker' = [marker EXCEPT ![g] = IF mk \in {"stop", "exc"} THEN @ \cup {r} ELSE @]
  /\ req' = [req EXCEPT ![r] = NoReq]
  /\ lastRet' = <<r, n, mk>>
  /\ UNCHANGED <<gens, yielded, delivered, ended, threadAlive, cur, shutdown, mine, taken>>

Next ==
  \/ \E g \in 1..MaxGens : Yield(g) \/ ThreadEnd(g) \/ Stop(g) \/ \E how \in {"done", "fail"} : GenEnd(g, how)
  \/ \E r \in Reqs : InitCall(r) \/ (\E len \in 0..MaxLen, fail \in 0..(MaxLen + 1) : Install(r, len, fail))
                     \/ (\E ok \in BOOLEAN : InitRet(r, ok))
  \/ Shutdown
  \/ \E r \in Reqs : (\E k \in 1..MaxK : NextCall(r, k)) \/ Take(r)
                     \/ (\E n \in 0..MaxK, mk \in {"none", "stop", "exc", "timeout"} : NextRet(r, n, mk))
Spec == Init /\ [][Next]_vars

\* ---------------------------------------------------------------- what the acceptor guarantees
Ordered     == \A g \in G : delivered[g] <= yielded[g] /\ yielded[g] <= gens[g].len
FailPrefix  == \A g \in G : gens[g].fail # 0 => yielded[g] < gens[g].fail
OneMarker   == \A g \in G : marker[g] # {} => (ended[g] \in {"done", "fail"} /\ delivered[g] = yielded[g])
\* a clean end marker is only sent after every element of the generator was delivered
CompleteOnStop == \A g \in G : (marker[g] # {} /\ ended[g] = "done") => delivered[g] = gens[g].len
AtMostOneRunning == Cardinality({g \in G : threadAlive[g] /\ ended[g] = "run"}) <= 1
=============================================================================
