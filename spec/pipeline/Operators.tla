----------------------------- MODULE Operators ------------------------------
(***************************************************************************)
(* Reference interpreter for chains of pipeline operators (C08, C12):      *)
(* TreeTransform.select / apply / assign / filter / sink / batch           *)
(* (transform.py:958-1118) executed by TreeFn / Assign / Select / FilterFn *)
(* / Sink (tree_fns.py:193-358).                                           *)
(*                                                                         *)
(* Records are TreeOps trees.  A key specification element is a path or a  *)
(* literal on the input side, a path (possibly SELF / SKIP) or a mapping   *)
(* {new key -> key of the function's dict result} on the output side.      *)
(* Functions come from a fixed library that exists under the same names in *)
(* harness/oplib.py.                                                       *)
(*                                                                         *)
(* The meaning of a program on a stream is defined record by record (the   *)
(* runner is a chain of lazy iterators: record i passes every operator     *)
(* before record i+1 is read):                                             *)
(*   select  new record made of the selected values under the output keys  *)
(*   apply   new record made of the function's outputs                     *)
(*   assign  the input record plus exactly the output keys                 *)
(*   filter  keeps the record iff the function's single output is truthy   *)
(*           (a filter function returns one value; tuple-valued predicates  *)
(*           are outside the universe)                                      *)
(*   sink    write(selected inputs); the record is forwarded unchanged     *)
(*   batch   (last operator) groups consecutive records                    *)
(* The first error ends the stream; sinks are closed at the end.           *)
(* `skip` (C12): with error skipping a record whose function call raises   *)
(* is dropped instead; errors outside the function call still end it.      *)
(***************************************************************************)
EXTENDS Integers, Sequences, FiniteSets, TLC, Json, TreeOps

CONSTANTS MaxOps,      \* program length
          Universe,    \* which operator instances may appear: "core" | "keys" | "fail"
          Skip         \* BOOLEAN: error skipping enabled (C12)

\* ------------------------------------------------------------------ data
\* "t" holds a 1-tuple: a value that is itself a tuple must travel as ONE value
Rec(a, b, x) == Dict(<<"a", "b", "n", "t">>, <<Leaf(a), Leaf(b), Dict(<<"x">>, <<Leaf(x)>>), Tuple(<<Leaf(a)>>)>>)
R1 == Rec(1, 2, 5)
R2 == Rec(4, 3, 6)
R3 == Rec(3, 3, 1)
R4 == Rec(6, 1, 2)
Streams == << <<>>, <<R1>>, <<R1, R2>>, <<R2, R1, R3, R4>> >>

\* ------------------------------------------------------------------ key specifications
IP(p) == [t |-> "path", p |-> p, v |-> 0]
IL(v) == [t |-> "lit",  p |-> <<>>, v |-> v]
OP(p) == [t |-> "path", p |-> p, names |-> <<>>, from |-> <<>>]
OM(names, from) == [t |-> "map", p |-> <<>>, names |-> names, from |-> from]
K(s)  == <<PKey(s)>>
K2(s, u) == <<PKey(s), PKey(u)>>
SELF == <<PSelf>>
SKIP == <<PSkip>>

Op(op, fn, ins, kw, outs, bs) == [op |-> op, fn |-> fn, ins |-> ins, kw |-> kw, outs |-> outs, bs |-> bs]
Select(ins, outs)     == Op("select", "", ins, <<>>, outs, 0)
Apply(fn, ins, outs)  == Op("apply", fn, ins, <<>>, outs, 0)
ApplyKw(fn, ins, kw, outs) == Op("apply", fn, ins, kw, outs, 0)
Assign(outs, fn, ins) == Op("assign", fn, ins, <<>>, outs, 0)
AssignKw(outs, fn, ins, kw) == Op("assign", fn, ins, kw, outs, 0)
Filter(fn, ins)       == Op("filter", fn, ins, <<>>, <<>>, 0)
Sink(ins)             == Op("sink", "", ins, <<>>, <<>>, 0)
SinkKw(ins, kw)       == Op("sink", "", ins, kw, <<>>, 0)
Batch(n)              == Op("batch", "", <<>>, <<>>, <<>>, n)

\* ------------------------------------------------------------------ function library
\* result: [ok, tup, vals]: a Python tuple of vals (tup) or the single value vals[1]
FOk(v)   == [ok |-> TRUE, tup |-> FALSE, vals |-> <<v>>]
FTup(vs) == [ok |-> TRUE, tup |-> TRUE, vals |-> vs]
FErr     == [ok |-> FALSE, tup |-> FALSE, vals |-> <<>>]
IsLeaf(t) == t.k = "leaf"
Pos(s, x) == IF \E j \in 1..Len(s) : s[j] = x THEN CHOOSE j \in 1..Len(s) : s[j] = x ELSE 0

Call(f, a) ==      \* positional call
  CASE f = "inc"    -> IF Len(a) = 1 /\ IsLeaf(a[1]) THEN FOk(Leaf(a[1].v + 1)) ELSE FErr
    [] f = "sub"    -> IF Len(a) = 2 /\ IsLeaf(a[1]) /\ IsLeaf(a[2]) THEN FOk(Leaf(a[1].v - a[2].v)) ELSE FErr
    [] f = "pair"   -> IF Len(a) = 1 /\ IsLeaf(a[1]) THEN FTup(<<Leaf(a[1].v), Leaf(a[1].v + 10)>>) ELSE FErr
    [] f = "swap"   -> IF Len(a) = 2 THEN FTup(<<a[2], a[1]>>) ELSE FErr
    [] f = "const7" -> IF Len(a) = 0 THEN FOk(Leaf(7)) ELSE FErr
    [] f = "odd"    -> IF Len(a) = 1 /\ IsLeaf(a[1]) THEN FOk(Leaf(a[1].v % 2)) ELSE FErr
    [] f = "mod3"   -> IF Len(a) = 1 /\ IsLeaf(a[1]) THEN FOk(Leaf(a[1].v % 3)) ELSE FErr      \* truthy values other than True
    [] f = "gt"     -> IF Len(a) = 2 /\ IsLeaf(a[1]) /\ IsLeaf(a[2]) THEN FOk(Leaf(IF a[1].v > a[2].v THEN 1 ELSE 0)) ELSE FErr
    [] f = "mkdict" -> IF Len(a) = 1 /\ IsLeaf(a[1]) THEN FOk(Dict(<<"p", "q">>, <<Leaf(a[1].v), Leaf(a[1].v + 1)>>)) ELSE FErr
    [] f = "sumab"  -> IF Len(a) = 1 /\ ~IsErr(Get(a[1], K("a"))) /\ ~IsErr(Get(a[1], K("b")))
                          /\ IsLeaf(Get(a[1], K("a"))) /\ IsLeaf(Get(a[1], K("b")))
                       THEN FOk(Leaf(Get(a[1], K("a")).v + Get(a[1], K("b")).v)) ELSE FErr
    [] f = "ident"  -> IF Len(a) = 1 THEN FOk(a[1]) ELSE FErr
    [] f = "failodd" -> IF Len(a) = 1 /\ IsLeaf(a[1]) /\ a[1].v % 2 = 0 THEN FOk(Leaf(a[1].v + 100)) ELSE FErr   \* raises on odd input
    [] f = "fail3"  -> IF Len(a) = 1 /\ IsLeaf(a[1]) /\ a[1].v # 3 THEN FOk(Leaf(a[1].v + 100)) ELSE FErr       \* raises on 3
    [] OTHER        -> FErr
\* keyword call: only sub(x, y) and odd(x) take keywords in this library
CallKw(f, a, kw) ==
  CASE f = "sub" -> IF Len(a) = 2 /\ {kw[1], kw[2]} = {"x", "y"} THEN Call("sub", <<a[Pos(kw, "x")], a[Pos(kw, "y")]>>) ELSE FErr
    [] f = "odd" -> IF Len(a) = 1 /\ kw = <<"x">> THEN Call("odd", a) ELSE FErr
    [] OTHER     -> FErr

\* ------------------------------------------------------------------ one operator on one record
GetIns(r, ins) == [j \in 1..Len(ins) |-> IF ins[j].t = "lit" THEN Leaf(ins[j].v) ELSE Get(r, ins[j].p)]
AnyErr(s) == \E j \in 1..Len(s) : IsErr(s[j])

\* TreeFn._normalize_outputs (tree_fns.py:176-191)
Normalize(res, outs) ==
  LET vals == IF res.tup THEN res.vals ELSE <<res.vals[1]>> IN
  IF Len(outs) > 0 /\ outs[1].t = "path" /\ outs[1].p = SELF /\ Len(vals) > 1 THEN <<Tuple(vals)>> ELSE vals

RECURSIVE SetMulti(_, _, _, _)
SetMulti(base, paths, vals, j) ==
  IF j > Len(paths) THEN base
  ELSE LET b == Set(base, paths[j], vals[j]) IN IF IsErr(b) THEN ERRT ELSE SetMulti(b, paths, vals, j + 1)

SetOut(base, o, val) ==
  IF o.t = "map"
  THEN LET vs == [j \in 1..Len(o.from) |-> Get(val, K(o.from[j]))] IN
       IF AnyErr(vs) THEN ERRT ELSE SetMulti(base, [j \in 1..Len(o.names) |-> K(o.names[j])], vs, 1)
  ELSE Set(base, o.p, val)

RECURSIVE SetOuts(_, _, _, _)
SetOuts(base, outs, vals, j) ==
  IF j > Len(outs) THEN base
  ELSE LET b == SetOut(base, outs[j], vals[j]) IN IF IsErr(b) THEN ERRT ELSE SetOuts(b, outs, vals, j + 1)

\* TreeFn._get_outputs (tree_fns.py:215-228)
GetOutputs(outs, vals, base) ==
  IF Len(outs) = 1 /\ Len(vals) > 1
  THEN (IF outs[1].t = "map" THEN ERRT ELSE Set(base, outs[1].p, Tuple(vals)))
  ELSE IF Len(outs) # Len(vals) THEN ERRT
  ELSE SetOuts(base, outs, vals, 1)

Truthy(t) == CASE t.k = "leaf" -> t.v # 0
               [] t.k \in {"dict", "list", "tuple"} -> Len(t.kids) > 0
               [] OTHER -> FALSE

\* [st, rec, w]: st = "ok" | "drop" | "err" | "skip" (function call raised: skippable)
Step(st, rec, w) == [st |-> st, rec |-> rec, w |-> w]
EvalOp(o, r) ==
  LET ins == GetIns(r, o.ins) IN
  IF AnyErr(ins) THEN Step("err", r, <<>>)
  ELSE IF o.op = "sink" THEN Step("ok", r, <<ins>>)
  ELSE LET res == IF o.op = "select" THEN FTup(ins)
                  ELSE IF o.kw = <<>> THEN Call(o.fn, ins) ELSE CallKw(o.fn, ins, o.kw) IN
       IF ~res.ok THEN Step("skip", r, <<>>)
       ELSE IF o.op = "filter"
            THEN LET vals == Normalize(res, <<>>) IN
                 IF Len(vals) # 1 THEN Step("err", r, <<>>)
                 ELSE Step(IF Truthy(vals[1]) THEN "ok" ELSE "drop", r, <<>>)
            ELSE LET vals == Normalize(res, o.outs)
                     out  == GetOutputs(o.outs, vals, IF o.op = "assign" THEN r ELSE Null) IN
                 IF IsErr(out) THEN Step("err", r, <<>>) ELSE Step("ok", out, <<>>)

\* ------------------------------------------------------------------ a program on a stream
\* one record through ops j..Len(prog); sinks is [op index -> writes]
RECURSIVE Through(_, _, _, _)
Through(prog, j, r, sinks) ==
  IF j > Len(prog) THEN [st |-> "ok", rec |-> r, sinks |-> sinks]
  ELSE IF prog[j].op = "batch" THEN Through(prog, j + 1, r, sinks)
  ELSE LET s == EvalOp(prog[j], r)
           sk == IF prog[j].op = "sink" /\ s.st = "ok" THEN [sinks EXCEPT ![j] = @ \o s.w] ELSE sinks IN
       IF s.st = "ok" THEN Through(prog, j + 1, s.rec, sk)
       ELSE IF s.st = "skip" THEN [st |-> IF Skip THEN "drop" ELSE "err", rec |-> r, sinks |-> sk]
       ELSE [st |-> s.st, rec |-> r, sinks |-> sk]

RECURSIVE Run(_, _, _, _, _)
Run(prog, stream, i, out, sinks) ==
  IF i > Len(stream) THEN [out |-> out, err |-> FALSE, sinks |-> sinks]
  ELSE LET t == Through(prog, 1, stream[i], sinks) IN
       IF t.st = "err" THEN [out |-> out, err |-> TRUE, sinks |-> t.sinks]
       ELSE Run(prog, stream, i + 1, IF t.st = "ok" THEN Append(out, t.rec) ELSE out, t.sinks)

\* transform.output_keys (transform.py:915-926): what batch() groups by
RECURSIVE OutKeys(_, _, _)
OutKeys(prog, j, acc) ==
  IF j > Len(prog) THEN acc
  ELSE LET o == prog[j]
           \* SKIP is a placeholder for an ignored output, not a key of the record
           mine == UNION {IF o.outs[m].t = "map" THEN {K(o.outs[m].names[n]) : n \in 1..Len(o.outs[m].names)} ELSE {o.outs[m].p}
                          : m \in 1..Len(o.outs)} \ {SKIP} IN
       CASE o.op \in {"apply", "select"} -> OutKeys(prog, j + 1, mine)       \* the record is replaced
         [] o.op = "assign" -> OutKeys(prog, j + 1, acc \cup mine)
         [] o.op = "sink"   -> OutKeys(prog, j + 1, acc)                  \* a sink forwards its input: it names no key of the record
         [] OTHER           -> OutKeys(prog, j + 1, acc)

\* batch(n) as the last operator: groups of n consecutive records; on an error only full groups were emitted
Chunks(s, n) == [c \in 1..((Len(s) + n - 1) \div n) |-> SubSeq(s, (c - 1) * n + 1, IF c * n < Len(s) THEN c * n ELSE Len(s))]
BatchRecs(recs, keys) ==      \* one output batch
  IF keys = {} \/ keys = {SELF} THEN List(recs)
  ELSE [k |-> "dictset", v |-> 0, keys |-> <<>>, kids |-> <<>>,
        cols |-> {<<p, [j \in 1..Len(recs) |-> Get(recs[j], p)]>> : p \in keys}]

Eval(prog, stream) ==
  LET r == Run(prog, stream, 1, <<>>, [j \in 1..Len(prog) |-> <<>>]) IN
  IF Len(prog) > 0 /\ prog[Len(prog)].op = "batch"
  THEN LET n == prog[Len(prog)].bs
           full == IF r.err THEN SubSeq(r.out, 1, (Len(r.out) \div n) * n) ELSE r.out
           keys == OutKeys(prog, 1, {}) IN
       [out |-> [c \in 1..Len(Chunks(full, n)) |-> BatchRecs(Chunks(full, n)[c], keys)], err |-> r.err, sinks |-> r.sinks]
  ELSE r

\* ------------------------------------------------------------------ build-time rules (_check_assign_keys)
AssignKeys(o) == UNION {IF o.outs[m].t = "map" THEN {K(o.outs[m].names[n]) : n \in 1..Len(o.outs[m].names)} ELSE {o.outs[m].p}
                        : m \in 1..Len(o.outs)} \ {SKIP}
RECURSIVE BuildErrFrom(_, _)
BuildErrFrom(prog, j) ==
  IF j > Len(prog) THEN FALSE
  ELSE LET o == prog[j]
           before == OutKeys(SubSeq(prog, 1, j - 1), 1, {}) IN
       \/ (o.op = "assign" /\ (AssignKeys(o) \cap before # {}
                               \/ (SELF \in (before \cup AssignKeys(o)) /\ Cardinality(before \cup AssignKeys(o)) > 1)))
       \* one operator naming the same output twice, or SELF next to another key, cannot route both values
       \/ (o.op \in {"assign", "apply", "select"}
           /\ (\/ \E m, n \in 1..Len(o.outs) : m < n /\ o.outs[m].t = "path" /\ o.outs[n].t = "path" /\ o.outs[m].p = o.outs[n].p /\ o.outs[m].p # SKIP
               \/ (SELF \in AssignKeys(o) /\ Cardinality(AssignKeys(o)) > 1)))
       \/ BuildErrFrom(prog, j + 1)
BuildError(prog) == BuildErrFrom(prog, 1)

\* ------------------------------------------------------------------ operator universes
A == K("a")   B == K("b")   C == K("c")   D == K("d")   NX == K2("n", "x")   NY == K2("n", "y")   MZ == K2("m", "z")
Core == {
  Select(<<IP(A)>>, <<OP(A)>>), Select(<<IP(A), IP(B)>>, <<OP(A), OP(B)>>), Select(<<IP(B), IP(A)>>, <<OP(C), OP(D)>>),
  Apply("inc", <<IP(A)>>, <<OP(SELF)>>), Apply("inc", <<IP(A)>>, <<OP(C)>>), Apply("pair", <<IP(A)>>, <<OP(C), OP(D)>>),
  Apply("sub", <<IP(A), IP(B)>>, <<OP(C)>>), Apply("ident", <<IP(SELF)>>, <<OP(SELF)>>), Apply("swap", <<IP(A), IP(B)>>, <<OP(A), OP(B)>>),
  Assign(<<OP(C)>>, "inc", <<IP(A)>>), Assign(<<OP(C), OP(D)>>, "pair", <<IP(A)>>), Assign(<<OP(A)>>, "inc", <<IP(A)>>),
  Assign(<<OP(D)>>, "sub", <<IP(B), IP(A)>>), Assign(<<OP(D)>>, "inc", <<IP(C)>>),
  Filter("odd", <<IP(A)>>), Filter("gt", <<IP(A), IP(B)>>), Filter("odd", <<IP(C)>>),
  Sink(<<IP(SELF)>>), Sink(<<IP(A), IP(B)>>),
  Batch(2) }
Keys == {
  Select(<<IP(NX)>>, <<OP(NX)>>), Select(<<IP(A), IP(NX)>>, <<OP(C), OP(D)>>), Select(<<IP(SELF)>>, <<OP(SELF)>>), Select(<<IP(A)>>, <<OP(SELF)>>),
  Select(<<IP(A), IP(B)>>, <<OP(SELF)>>), Select(<<IP(A), IL(7)>>, <<OP(C), OP(D)>>), Select(<<IP(A), IP(B)>>, <<OP(SKIP), OP(D)>>),
  Apply("pair", <<IP(A)>>, <<OP(SELF)>>), Apply("pair", <<IP(A)>>, <<OP(C)>>), Apply("pair", <<IP(A)>>, <<OP(C), OP(SKIP)>>), Apply("pair", <<IP(A)>>, <<OP(SKIP), OP(C)>>),
  ApplyKw("sub", <<IP(A), IP(B)>>, <<"y", "x">>, <<OP(C)>>), Apply("sumab", <<IP(SELF)>>, <<OP(C)>>), Apply("const7", <<>>, <<OP(C)>>),
  Apply("sub", <<IP(A), IL(7)>>, <<OP(C)>>), Apply("mkdict", <<IP(A)>>, <<OM(<<"c">>, <<"q">>)>>), Apply("inc", <<IP(NX)>>, <<OP(NY)>>),
  Apply("mkdict", <<IP(A)>>, <<OP(SELF)>>),
  Assign(<<OP(D), OP(SKIP)>>, "pair", <<IP(B)>>), Assign(<<OP(C)>>, "pair", <<IP(A)>>), Assign(<<OP(NY)>>, "inc", <<IP(NX)>>), Assign(<<OP(C), OP(SKIP)>>, "pair", <<IP(A)>>),
  Assign(<<OM(<<"c", "d">>, <<"q", "p">>)>>, "mkdict", <<IP(A)>>), Assign(<<OP(C)>>, "sumab", <<IP(SELF)>>),
  Assign(<<OP(C)>>, "const7", <<>>), Assign(<<OP(MZ)>>, "inc", <<IP(A)>>), AssignKw(<<OP(C)>>, "sub", <<IP(A), IP(B)>>, <<"y", "x">>),
  Assign(<<OP(C), OP(D)>>, "inc", <<IP(A)>>), Assign(<<OP(C)>>, "sub", <<IP(A), IL(7)>>), Assign(<<OP(SELF)>>, "inc", <<IP(A)>>),
  Assign(<<OP(C), OP(C)>>, "pair", <<IP(A)>>), Apply("pair", <<IP(A)>>, <<OP(C), OP(SELF)>>), Apply("pair", <<IP(A)>>, <<OP(C), OP(C)>>),
  Filter("odd", <<IP(NX)>>), Filter("odd", <<IP(SELF)>>), Filter("mod3", <<IP(B)>>), Filter("ident", <<IP(K("n"))>>),
  Assign(<<OP(C), OP(NY)>>, "pair", <<IP(A)>>), Assign(<<OP(NY), OP(C)>>, "pair", <<IP(A)>>), Op("filter", "odd", <<IP(A)>>, <<"x">>, <<>>, 0),
  Sink(<<IP(A)>>), Sink(<<IP(NX), IL(7)>>), SinkKw(<<IP(A)>>, <<"x">>),
  Select(<<IP(C)>>, <<OP(C)>>), Assign(<<OP(D)>>, "inc", <<IP(C)>>), Filter("odd", <<IP(C)>>),
  \* index keys: positions of tuple / list records and list-building output paths
  Select(<<IP(<<PIdx(0)>>)>>, <<OP(C)>>), Select(<<IP(<<PIdx(1)>>), IP(<<PIdx(0)>>)>>, <<OP(C), OP(D)>>),
  Apply("inc", <<IP(<<PIdx(1)>>)>>, <<OP(SELF)>>), Filter("odd", <<IP(<<PIdx(0)>>)>>),
  Assign(<<OP(<<PKey("l"), PIdx(0)>>)>>, "inc", <<IP(A)>>), Apply("swap", <<IP(A), IP(B)>>, <<OP(<<PIdx(0)>>), OP(<<PIdx(1)>>)>>),
  Select(<<IP(K("t"))>>, <<OP(C)>>), Select(<<IP(A), IP(K("t"))>>, <<OP(D), OP(C)>>),      \* (a FUNCTION returning a tuple means several outputs: not used on t)
  Select(<<IP(<<PKey("l"), PIdx(0)>>)>>, <<OP(C)>>), Select(<<IP(A)>>, <<OP(<<PIdx(0)>>)>>), Assign(<<OP(<<PIdx(0)>>)>>, "inc", <<IP(<<PIdx(1)>>)>>) }
Fail == {
  Apply("failodd", <<IP(A)>>, <<OP(C)>>), Assign(<<OP(C)>>, "failodd", <<IP(A)>>), Assign(<<OP(D)>>, "fail3", <<IP(B)>>),
  Filter("failodd", <<IP(A)>>), Apply("fail3", <<IP(A)>>, <<OP(SELF)>>),
  Assign(<<OP(C)>>, "inc", <<IP(A)>>), Filter("gt", <<IP(A), IP(B)>>), Sink(<<IP(SELF)>>), Select(<<IP(A), IP(B)>>, <<OP(A), OP(B)>>),
  Assign(<<OP(D)>>, "inc", <<IP(C)>>), Batch(2) }
Ops == CASE Universe = "core" -> Core [] Universe = "keys" -> Core \cup Keys [] Universe = "fail" -> Fail

\* ------------------------------------------------------------------ transitions: programs grow one operator at a time
VARIABLE prog
Init == prog = <<>>
Extend(o) == /\ Len(prog) < MaxOps
             /\ (Len(prog) > 0 => prog[Len(prog)].op # "batch")        \* batch is only modelled as the last operator
             /\ prog' = Append(prog, o)
Next == \E o \in Ops : Extend(o)
Spec == Init /\ [][Next]_prog

\* ------------------------------------------------------------------ laws of the interpreter itself
NS == Len(Streams)
E(s) == Eval(prog, Streams[s])
IsSubSeqOf(s, t) ==      \* order-preserving sub-sequence (records of the fixed streams are pairwise different)
  /\ \A j \in 1..Len(s) : \E m \in 1..Len(t) : t[m] = s[j]
  /\ \A j, m \in 1..Len(s) : j < m => (CHOOSE x \in 1..Len(t) : t[x] = s[j]) < (CHOOSE x \in 1..Len(t) : t[x] = s[m])
OnlyOps(kinds) == \A j \in 1..Len(prog) : prog[j].op \in kinds
PlainAssign(o) == o.op = "assign" /\ \A m \in 1..Len(o.outs) : o.outs[m].t = "path" /\ o.outs[m].p \notin {SELF, SKIP}
\* filter (and sink) programs yield an order-preserving sub-sequence of their input
FilterLaw == OnlyOps({"filter", "sink"}) => \A s \in 1..NS : IsSubSeqOf(E(s).out, Streams[s])
\* assign adds exactly the named keys: every other top-level key of the input record is read back unchanged
AssignLaw ==
  (OnlyOps({"assign"}) /\ \A j \in 1..Len(prog) : PlainAssign(prog[j]) /\ \A m \in 1..Len(prog[j].outs) : Len(prog[j].outs[m].p) = 1) =>
     \A s \in 1..NS : ~E(s).err =>
        LET keep == {A, B, K("n")} \ UNION {AssignKeys(prog[j]) : j \in 1..Len(prog)} IN
        /\ (~Skip => Len(E(s).out) = Len(Streams[s]))
        /\ Len(E(s).out) <= Len(Streams[s])
        \* every delivered record carries the untouched keys of one input record (its own: the records differ in a)
        /\ \A i \in 1..Len(E(s).out) : \E m \in 1..Len(Streams[s]) :
              \A q \in keep : Get(E(s).out[i], q) = Get(Streams[s][m], q)
        /\ (~Skip => \A i \in 1..Len(Streams[s]) : \A q \in keep : Get(E(s).out[i], q) = Get(Streams[s][i], q))
\* a sink sees exactly the records that reach it, once each
SinkLaw ==
  \A s \in 1..NS : \A j \in 1..Len(prog) : (prog[j].op = "sink" /\ ~E(s).err /\ ~Skip) =>
     Len(E(s).sinks[j]) = Len(Eval(SubSeq(prog, 1, j - 1), Streams[s]).out)
\* operators compose: running the last operator on the output of the prefix gives the same stream
ComposeLaw ==
  (Len(prog) >= 2 /\ prog[Len(prog)].op # "batch") =>
     \A s \in 1..NS : LET pre == Eval(SubSeq(prog, 1, Len(prog) - 1), Streams[s]) IN
        ~pre.err => (E(s).out = Eval(<<prog[Len(prog)]>>, pre.out).out)

\* batch() over output keys that mix SELF with named keys has no defined meaning (the result depends on the order in
\* which a set of keys is visited); such programs are outside the universe
Undefined(p) == Len(p) > 0 /\ p[Len(p)].op = "batch"
                /\ LET ks == OutKeys(p, 1, {}) IN SELF \in ks /\ Cardinality(ks) > 1

Emit == prog # <<>> =>
  PrintT(<<"H", ToJson([prog |-> prog, build_error |-> BuildError(prog), undefined |-> Undefined(prog),
                         runs |-> [s \in 1..NS |-> E(s)]])>>)
=============================================================================
