----------------------------- MODULE SkipBatch ------------------------------
(***************************************************************************)
(* Error skipping under re-batching (C12): TreeFn._iterate                 *)
(* (tree_fns.py:233-254: rebatch to fn_batch_size, call, rebatch to        *)
(* batch_size) inside apply / assign / sink / filter, with                 *)
(* iterate(..., ignore_error=True|False).                                  *)
(*                                                                         *)
(* The stream is N rows 1..N delivered in input batches of S rows.  The    *)
(* function works on a batch of rows (row r -> r + 100) and raises a       *)
(* skippable error iff its batch contains a row of Bad.  With K = 0 the    *)
(* function sees the input batches, otherwise chunks of K rows; with B = 0 *)
(* every call's output is one output batch, otherwise outputs are          *)
(* re-chunked to B rows.                                                   *)
(*                                                                         *)
(* The source may fail too: reading input batch j raises for j in SrcBad   *)
(* and the next read continues with batch j + 1 (SequenceDataSource over   *)
(* data with unreadable positions, any iterator that can go on after an    *)
(* error).  With skipping such a batch is lost before any re-batching.     *)
(*                                                                         *)
(* Meaning with skipping: the calls that raise are dropped, every other    *)
(* row is delivered exactly once, in order; for assign / sink / filter     *)
(* every delivered record still pairs the rows with their own inputs.      *)
(* Meaning without skipping: the outputs that were complete before the     *)
(* first failing call, then the error.                                     *)
(***************************************************************************)
EXTENDS Integers, Sequences, FiniteSets, TLC, Json

CONSTANTS MaxN, Sizes, MaxBad

VARIABLES n, s, k, b, bad, sbad, done
vars == <<n, s, k, b, bad, sbad, done>>

Min(x, y) == IF x < y THEN x ELSE y
Rows == [j \in 1..n |-> j]
Chunks(q, c) == IF c = 0 \/ Len(q) = 0 THEN (IF Len(q) = 0 THEN <<>> ELSE <<q>>)
                ELSE [i \in 1..((Len(q) + c - 1) \div c) |-> SubSeq(q, (i - 1) * c + 1, Min(i * c, Len(q)))]
RECURSIVE Flat(_)
Flat(ss) == IF ss = <<>> THEN <<>> ELSE Head(ss) \o Flat(Tail(ss))
Range(q) == {q[j] : j \in 1..Len(q)}

AllIn     == Chunks(Rows, s)                                        \* what the source holds
RECURSIVE Keep(_, _)
Keep(q, j) == IF j > Len(q) THEN <<>> ELSE (IF j \in sbad THEN <<>> ELSE <<q[j]>>) \o Keep(q, j + 1)
InBatches == Keep(AllIn, 1)                                         \* what can be read from it
RowsIn    == Flat(InBatches)
SrcLost   == UNION {Range(AllIn[j]) : j \in sbad}
Calls     == IF k = 0 THEN InBatches ELSE Chunks(RowsIn, k)        \* what the function is called with
Fails(c)  == Range(c) \cap bad # {}
GoodCalls == SelectSeq(Calls, LAMBDA c : ~Fails(c))
\* with skipping: rows of the calls that did not raise
SkipRows  == Flat(GoodCalls)
SkipOut   == IF b = 0 THEN GoodCalls ELSE Chunks(SkipRows, b)       \* apply: the output batches (row r stands for r + 100)
\* without skipping: calls before the first failing one
FirstFail == IF \E j \in 1..Len(Calls) : Fails(Calls[j]) THEN CHOOSE j \in 1..Len(Calls) : Fails(Calls[j]) /\ \A m \in 1..(j - 1) : ~Fails(Calls[m]) ELSE 0
\* (the strict meaning is stated for readable sources only: sbad = {})
StrictRows == IF FirstFail = 0 THEN Rows ELSE Flat(SubSeq(Calls, 1, FirstFail - 1))
\* only complete output batches are out before the error (a partial re-batch buffer is lost with it)
StrictOut  == IF b = 0 THEN (IF FirstFail = 0 THEN Calls ELSE SubSeq(Calls, 1, FirstFail - 1))
              ELSE IF FirstFail = 0 THEN Chunks(Rows, b)
              ELSE SubSeq(Chunks(StrictRows, b), 1, Len(StrictRows) \div b)

Init == /\ n \in 0..MaxN /\ s \in Sizes \ {0} /\ k \in Sizes /\ b \in Sizes
        /\ (k # 0 => b # 0)                      \* fn_batch_size needs batch_size (rejected at build time otherwise)
        /\ bad \in {x \in SUBSET (1..n) : Cardinality(x) <= MaxBad}
        /\ sbad \in {x \in SUBSET (1..((n + s - 1) \div s)) : Cardinality(x) <= 1 /\ (x # {} => Cardinality(bad) <= 1)}
        /\ done = FALSE
Next == ~done /\ done' = TRUE /\ UNCHANGED <<n, s, k, b, bad, sbad>>
Spec == Init /\ [][Next]_vars

\* ------------------------------------------------------------ laws
IsSubSeq(q, r) == \A i, j \in 1..Len(q) : i < j => q[i] < q[j]     \* rows are increasing numbers
\* with skipping nothing but the rows of failing calls is lost, nothing is duplicated, order is kept
SkipLaw == /\ Range(SkipRows) = ((1..n) \ SrcLost) \ UNION {Range(Calls[j]) : j \in {m \in 1..Len(Calls) : Fails(Calls[m])}}
           /\ IsSubSeq(SkipRows, Rows) /\ Flat(SkipOut) = SkipRows
\* a row that is not in a failing call is never lost, whatever the batching options
NoSilentLoss == \A r \in (1..n) \ SrcLost : (\A j \in 1..Len(Calls) : r \in Range(Calls[j]) => ~Fails(Calls[j])) => r \in Range(Flat(SkipOut))
\* without skipping the delivered rows are a prefix, and complete when nothing fails
StrictLaw == sbad = {} =>
             /\ Flat(StrictOut) = SubSeq(Rows, 1, Len(Flat(StrictOut)))
             /\ (bad = {} => Flat(StrictOut) = Rows)
             /\ (bad # {} => FirstFail # 0)

Emit == PrintT(<<"H", ToJson([n |-> n, s |-> s, k |-> k, b |-> b, bad |-> bad, src_bad |-> sbad, all_in |-> AllIn, in_batches |-> InBatches,
                               skip_out |-> SkipOut, skip_rows |-> SkipRows, strict_out |-> StrictOut,
                               strict_error |-> (FirstFail # 0)])>>)
View == <<n, s, k, b, bad, sbad>>
=============================================================================
