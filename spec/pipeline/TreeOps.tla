------------------------------ MODULE TreeOps -------------------------------
(***************************************************************************)
(* The tagged tree datatype and the Get / Set (copy-on-write) operations of *)
(* tree.TreeMapView, shared by TreeView.tla (C18) and Operators.tla (C08,   *)
(* C12).  See TreeView.tla for the correspondence with tree.py.             *)
(***************************************************************************)
EXTENDS Integers, Sequences, FiniteSets, TLC

Leaf(v)        == [k |-> "leaf",  v |-> v, keys |-> <<>>, kids |-> <<>>]
Dict(ks, cs)   == [k |-> "dict",  v |-> 0, keys |-> ks,   kids |-> cs]
List(cs)       == [k |-> "list",  v |-> 0, keys |-> <<>>, kids |-> cs]
Tuple(cs)      == [k |-> "tuple", v |-> 0, keys |-> <<>>, kids |-> cs]
Null           == [k |-> "null",  v |-> 0, keys |-> <<>>, kids |-> <<>>]
ERRT           == [k |-> "err",   v |-> 0, keys |-> <<>>, kids |-> <<>>]
IsErr(t)       == t.k = "err"

PKey(s) == [t |-> "key",  s |-> s,  i |-> 0]
PIdx(i) == [t |-> "idx",  s |-> "", i |-> i]
PSelf   == [t |-> "self", s |-> "", i |-> 0]
PSkip   == [t |-> "skip", s |-> "", i |-> 0]

KeyOf(e) == IF e.t = "key" THEN e.s ELSE ToString(e.i)
KeyPos(t, s) == IF \E j \in 1..Len(t.keys) : t.keys[j] = s
                THEN CHOOSE j \in 1..Len(t.keys) : t.keys[j] = s ELSE 0

\* ------------------------------------------------------------------ Get
RECURSIVE Get(_, _)
Get(t, p) ==
  IF p = <<>> THEN t
  ELSE LET e == Head(p) IN
    IF e.t = "self" THEN t
    ELSE IF e.t = "skip" THEN ERRT
    ELSE IF t.k = "dict" THEN
      LET j == KeyPos(t, KeyOf(e)) IN IF j = 0 THEN ERRT ELSE Get(t.kids[j], Tail(p))
    ELSE IF t.k \in {"list", "tuple"} THEN
      IF e.t = "idx" /\ e.i < Len(t.kids) THEN Get(t.kids[e.i + 1], Tail(p)) ELSE ERRT
    ELSE ERRT

\* ------------------------------------------------------------------ Set (copying)
RECURSIVE Default(_, _)
Default(p, v) ==         \* _default_tree
  IF p = <<>> THEN v
  ELSE LET e == Head(p)
           d == Default(Tail(p), v) IN
    IF IsErr(d) THEN ERRT
    ELSE IF e.t = "idx" THEN (IF e.i = 0 THEN List(<<d>>) ELSE ERRT)
    ELSE IF e.t = "key" THEN Dict(<<e.s>>, <<d>>)
    ELSE IF e.t = "self" THEN v     \* SELF below fresh keys is the fresh node itself, as everywhere else
    ELSE ERRT            \* SKIP below a fresh key is outside the modelled universe

RECURSIVE Set(_, _, _)
Set(t, p, v) ==
  IF p = <<>> THEN v
  ELSE LET e == Head(p) IN
    IF e.t = "self" THEN v
    ELSE IF t.k = "null" THEN (IF e.t = "skip" THEN t ELSE Default(p, v))     \* an ignored output leaves the empty record empty
    ELSE IF t.k = "leaf" THEN ERRT                        \* "Insert to immutable"
    ELSE IF e.t = "skip" THEN t
    ELSE IF t.k \in {"list", "tuple"} THEN
      IF e.t # "idx" THEN ERRT
      ELSE IF e.i = Len(t.kids) THEN                       \* append
        LET c == Set(Null, Tail(p), v) IN
        IF IsErr(c) THEN ERRT ELSE [t EXCEPT !.kids = Append(@, c)]
      ELSE IF e.i < Len(t.kids) THEN
        LET c == Set(t.kids[e.i + 1], Tail(p), v) IN
        IF IsErr(c) THEN ERRT ELSE [t EXCEPT !.kids[e.i + 1] = c]
      ELSE ERRT
    ELSE                                                   \* dict
      LET ks == KeyOf(e)
          j  == KeyPos(t, ks) IN
      IF j = 0 THEN
        LET c == Set(Null, Tail(p), v) IN
        IF IsErr(c) THEN ERRT ELSE [t EXCEPT !.keys = Append(@, ks), !.kids = Append(@, c)]
      ELSE
        LET c == Set(t.kids[j], Tail(p), v) IN
        IF IsErr(c) THEN ERRT ELSE [t EXCEPT !.kids[j] = c]

=============================================================================
