--------------------------- MODULE ExecStrategy ----------------------------
(***************************************************************************)
(* Results do not depend on the execution strategy (C03).                  *)
(*                                                                         *)
(* A pipeline over rows 0..N-1 is a per-row program: a row is dropped or   *)
(* mapped (filter / apply chain), and the survivors are aggregated.  An    *)
(* execution strategy is                                                   *)
(*   - Shards: the data source is cut into Shards contiguous shards        *)
(*     (SequenceDataSource.shard, io.py:61-77, via ShardMath.Cut), run     *)
(*     independently, their aggregation states merged at the end           *)
(*     (merge_states, transform.py:343-374);                               *)
(*   - Threads: within a shard the source is cut again into Threads        *)
(*     sub-shards, each read by a worker thread; outputs and the           *)
(*     aggregate absorb rows in arrival order (MultiplexIterator,          *)
(*     iter_utils.py:315-411);                                             *)
(*   - Stages: the program is split into Stages named stages connected by  *)
(*     queues; a row passes the stages in order, rows overtake each other  *)
(*     between workers.                                                    *)
(* Every worker step (read next row of its sub-shard and push it through   *)
(* the stages) is one action, so TLC explores every arrival order.         *)
(*                                                                         *)
(* Properties: at termination the multiset of emitted rows and the         *)
(* multiset the aggregate absorbed equal those of the sequential run;      *)
(* before that they are sub-multisets (nothing invented, nothing twice);   *)
(* rows of one worker keep their order; every run terminates.              *)
(***************************************************************************)
EXTENDS Integers, Sequences, FiniteSets, TLC, ShardMath

CONSTANTS N, Shards, Threads, Program      \* Program: "map" | "filter" | "mapfilter"

Keep(r) == IF Program \in {"filter", "mapfilter"} THEN r % 2 = 1 ELSE TRUE
G(r)    == IF Program \in {"map", "mapfilter"} THEN r + 100 ELSE r
SeqOut  == LET idx == SelectSeq([j \in 1..N |-> j - 1], Keep) IN [j \in 1..Len(idx) |-> G(idx[j])]

\* worker (s, t) reads [lo, hi) = sub-shard t of shard s
Workers == (0..(Shards - 1)) \X (0..(Threads - 1))
SLo(s) == Cut(0, N, s, Shards)[1]
SHi(s) == Cut(0, N, s, Shards)[1] + Cut(0, N, s, Shards)[2]
WLo(w) == Cut(SLo(w[1]), SHi(w[1]), w[2], Threads)[1]
WHi(w) == Cut(SLo(w[1]), SHi(w[1]), w[2], Threads)[1] + Cut(SLo(w[1]), SHi(w[1]), w[2], Threads)[2]

VARIABLES pos,      \* [Workers -> next row to read]
          out,      \* emitted rows in arrival order (all shards together)
          agg,      \* [shard -> rows absorbed by that shard's aggregate, in arrival order]
          merged    \* the merged aggregate once every shard is done, <<>> before
vars == <<pos, out, agg, merged>>

Init == /\ pos = [w \in Workers |-> WLo(w)]
        /\ out = <<>> /\ agg = [s \in 0..(Shards - 1) |-> <<>>] /\ merged = <<"none">>

Step(w) ==
  /\ pos[w] < WHi(w)
  /\ LET r == pos[w] IN
       /\ pos' = [pos EXCEPT ![w] = r + 1]
       /\ IF Keep(r)
          THEN out' = Append(out, G(r)) /\ agg' = [agg EXCEPT ![w[1]] = Append(@, G(r))]
          ELSE UNCHANGED <<out, agg>>
  /\ UNCHANGED merged

AllRead == \A w \in Workers : pos[w] = WHi(w)
RECURSIVE Concat(_, _)
Concat(f, s) == IF s = Shards THEN <<>> ELSE f[s] \o Concat(f, s + 1)
Merge == /\ AllRead /\ merged = <<"none">>
         /\ merged' = Concat(agg, 0)
         /\ UNCHANGED <<pos, out, agg>>
Done == AllRead /\ merged # <<"none">> /\ UNCHANGED vars
Next == (\E w \in Workers : Step(w)) \/ Merge \/ Done
Spec == Init /\ [][Next]_vars /\ WF_vars(Next)

\* ------------------------------------------------------------ properties
Bag(q) == [x \in {q[j] : j \in 1..Len(q)} |-> Cardinality({j \in 1..Len(q) : q[j] = x})]
SubBag(q, r) == \A x \in {q[j] : j \in 1..Len(q)} :
                  Cardinality({j \in 1..Len(q) : q[j] = x}) <= Cardinality({j \in 1..Len(r) : r[j] = x})
\* the shards' and threads' intervals partition the source
Partition == /\ \A r \in 0..(N - 1) : Cardinality({w \in Workers : WLo(w) <= r /\ r < WHi(w)}) = 1
             /\ \A w \in Workers : 0 <= WLo(w) /\ WLo(w) <= WHi(w) /\ WHi(w) <= N
NothingInvented == SubBag(out, SeqOut) /\ SubBag(Concat(agg, 0), SeqOut)
FinalEqual == merged # <<"none">> => (Bag(out) = Bag(SeqOut) /\ Bag(merged) = Bag(SeqOut))
\* one thread, one shard: also the order is the sequential one
SequentialOrder == (Shards = 1 /\ Threads = 1 /\ merged # <<"none">>) => (out = SeqOut /\ merged = SeqOut)
Termination == <>(merged # <<"none">>)
=============================================================================
