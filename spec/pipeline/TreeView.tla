------------------------------ MODULE TreeView ------------------------------
(***************************************************************************)
(* tree.TreeMapView (C18): reading and copy-on-write updating of nested    *)
(* dict / list / tuple data by key paths.                                  *)
(*                                                                         *)
(* Trees are uniformly tagged records (so TLC can compare any two):        *)
(*   leaf v | dict keys kids | list kids | tuple kids | null (NullMap)     *)
(* Path elements: key s | idx i (tree.Index) | self (Key.SELF) | skip.     *)
(* Dict keys are strings; an Index used on a dict addresses the key        *)
(* ToString(i) (Python: the int key i).                                    *)
(*                                                                         *)
(* Get   transcribes TreeMapView.__get            (tree.py:371-388)        *)
(* Set   transcribes TreeMapView._set_by_path     (tree.py:436-495) incl.  *)
(*       append at index len, fresh dict keys, default-tree construction   *)
(*       under a missing key (_default_tree, 268-283), SELF and SKIP heads *)
(* Leaves transcribes _dfs_iter_tree              (tree.py:286-310): empty *)
(*       containers below the root count as leaves, an empty root has none *)
(* Apply  is TreeMapView(map_fn=f).apply()        (tree.py:566-571)        *)
(*                                                                         *)
(* The laws of C18 are checked by TLC on these definitions for every tree  *)
(* of the bounded universe, every path and value; the same operations are  *)
(* replayed on the real class, together with the non-mutation check.       *)
(***************************************************************************)
EXTENDS Integers, Sequences, FiniteSets, TLC, Json, TreeOps

CONSTANTS TreeDepth,   \* depth of the initial trees
          MaxSets,     \* copy-and-set operations per behaviour
          PathLen,     \* maximal path length
          KeyA, KeyB   \* the two dict key names; one run uses "SELF" (the plain string, not Key.SELF)

\* ------------------------------------------------------------------ Leaves
RECURSIVE Leaves(_, _), LeavesOfKids(_, _, _)
LeavesOfKids(t, path, j) ==
  IF j > Len(t.kids) THEN <<>>
  ELSE Leaves(t.kids[j], Append(path, IF t.k = "dict" THEN PKey(t.keys[j]) ELSE PIdx(j - 1)))
       \o LeavesOfKids(t, path, j + 1)
Leaves(t, path) ==     \* sequence of <<path, subtree>>
  IF t.k \in {"dict", "list", "tuple"} /\ Len(t.kids) > 0 THEN LeavesOfKids(t, path, 1)
  ELSE IF path # <<>> THEN << <<path, t>> >>
  ELSE IF t.k = "leaf" THEN << <<<<PSelf>>, t>> >>
  ELSE <<>>                                                \* an empty root has no items

\* leaf function of the Apply law: ints +10, empty containers -> 99
F(t) == IF t.k = "leaf" THEN Leaf(t.v + 10) ELSE Leaf(99)
RECURSIVE ApplyLeaves(_, _, _)
ApplyLeaves(t, ls, j) == IF j > Len(ls) THEN t ELSE ApplyLeaves(Set(t, ls[j][1], F(ls[j][2])), ls, j + 1)
Apply(t) == ApplyLeaves(t, Leaves(t, <<>>), 1)
\* independent definition of "map every leaf and only leaves"
RECURSIVE MapLeaves(_, _)
MapLeaves(t, root) ==
  IF t.k \in {"dict", "list", "tuple"} /\ Len(t.kids) > 0
  THEN [t EXCEPT !.kids = [j \in 1..Len(t.kids) |-> MapLeaves(t.kids[j], FALSE)]]
  ELSE IF root /\ t.k # "leaf" THEN t
  ELSE F(t)

\* ------------------------------------------------------------------ universes
LeafVals == {1, 2}
KeyNames == {KeyA, KeyB}
RECURSIVE Trees(_)
Trees(d) ==
  IF d = 0 THEN {Leaf(v) : v \in LeafVals}
  ELSE LET S == Trees(d - 1)
           seqs == {<<>>} \cup {<<x>> : x \in S} \cup {<<x, y>> : x \in S, y \in S} IN
       S \cup {List(c) : c \in seqs} \cup {Tuple(c) : c \in seqs}
         \cup {Dict(<<>>, <<>>)}
         \cup {Dict(<<n>>, <<x>>) : n \in KeyNames, x \in S}
         \cup {Dict(<<KeyA, KeyB>>, <<x, y>>) : x \in S, y \in S}
Elems == {PKey(s) : s \in KeyNames} \cup {PIdx(i) : i \in 0..2}
RECURSIVE PathsUpTo(_)
PathsUpTo(n) == IF n = 0 THEN {<<>>}
                ELSE LET P == PathsUpTo(n - 1) IN P \cup {Append(p, e) : p \in {q \in P : Len(q) = n - 1}, e \in Elems}
\* plain paths, the two reserved one-step paths, and plain paths followed by SELF ("the node at that path itself")
Paths == (PathsUpTo(PathLen) \ {<<>>}) \cup {<<PSelf>>, <<PSkip>>} \cup {Append(q, PSelf) : q \in PathsUpTo(PathLen - 1) \ {<<>>}}
NewVals == {Leaf(7), Dict(<<KeyA>>, <<Leaf(8)>>), List(<<>>)}

\* ------------------------------------------------------------------ transitions
VARIABLES tree0, tree, nsets, hist
vars == <<tree0, tree, nsets, hist>>
Init == tree0 \in Trees(TreeDepth) /\ tree = tree0 /\ nsets = 0 /\ hist = <<>>
SetOp(p, v) ==
  /\ nsets < MaxSets
  /\ LET r == Set(tree, p, v) IN
       /\ tree' = IF IsErr(r) THEN tree ELSE r
       /\ hist' = Append(hist, [op |-> "set", p |-> p, v |-> v, result |-> r,
                                leaves |-> IF IsErr(r) THEN <<>> ELSE Leaves(r, <<>>),
                                applied |-> IF IsErr(r) THEN ERRT ELSE Apply(r)])
  /\ nsets' = nsets + 1
  /\ UNCHANGED tree0
Next == \E p \in Paths, v \in NewVals : SetOp(p, v)
Spec == Init /\ [][Next]_vars

\* ------------------------------------------------------------------ the laws
Prefix(p, q) == Len(p) <= Len(q) /\ SubSeq(q, 1, Len(p)) = p
Disjoint(p, q) == ~Prefix(p, q) /\ ~Prefix(q, p)
Plain(p) == \A j \in 1..Len(p) : p[j].t \in {"key", "idx"}

SelfEnd(p) == Len(p) >= 2 /\ p[Len(p)].t = "self" /\ Plain(SubSeq(p, 1, Len(p) - 1))
GetAfterSet ==
  \A p \in Paths, v \in NewVals :
    LET r == Set(tree, p, v) IN
    (~IsErr(r) /\ (Plain(p) \/ SelfEnd(p))) => Get(r, p) = v
\* a trailing SELF names the node at the path before it: reading and writing through it is reading and writing that path
SelfEndIsThePath ==
  \A p \in Paths, v \in NewVals :
    SelfEnd(p) => LET q == SubSeq(p, 1, Len(p) - 1) IN Set(tree, p, v) = Set(tree, q, v) /\ Get(tree, p) = Get(tree, q)
Frame ==
  \A p \in Paths, q \in Paths, v \in NewVals :
    LET r == Set(tree, p, v) IN
    (~IsErr(r) /\ Plain(p) /\ Plain(q) /\ Disjoint(p, q)
       \* a fresh container created by the set may make a formerly missing sibling path readable
       /\ ~IsErr(Get(tree, q)))
      => Get(r, q) = Get(tree, q)
FrameMissingStaysMissing ==
  \A p \in Paths, q \in Paths, v \in NewVals :
    LET r == Set(tree, p, v) IN
    (~IsErr(r) /\ Plain(p) /\ Plain(q) /\ Disjoint(p, q) /\ IsErr(Get(tree, q)))
      => IsErr(Get(r, q))
\* a sequence of sets is applied in order: setting p, writing below p, then setting p to the first value again gives the tree
\* after the first set (what copy_and_update promises for a sequence of (key, value) pairs in which a key occurs twice)
ResetRestores ==
  \A p \in Paths, q \in Paths, v \in NewVals, w \in NewVals :
    LET r1 == Set(tree, p, v) IN
    (Plain(p) /\ Plain(q) /\ Prefix(p, q) /\ p # q /\ ~IsErr(r1)) =>
      LET r2 == Set(r1, q, w) IN ~IsErr(r2) => Set(r2, p, v) = r1
SetCurrentIsIdentity ==
  \A p \in Paths : (Plain(p) /\ ~IsErr(Get(tree, p))) => Set(tree, p, Get(tree, p)) = tree
SkipIsIdentity == tree.k \in {"dict", "list", "tuple"} => Set(tree, <<PSkip>>, Leaf(7)) = tree
SelfReplaces == Set(tree, <<PSelf>>, Leaf(7)) = Leaf(7) /\ Get(tree, <<PSelf>>) = tree
LeavesReadBack ==
  LET ls == Leaves(tree, <<>>) IN
  /\ \A j \in 1..Len(ls) : Get(tree, ls[j][1]) = ls[j][2]
  /\ \A i, j \in 1..Len(ls) : i # j => ls[i][1] # ls[j][1]
  /\ \A j \in 1..Len(ls) : ~(ls[j][2].k \in {"dict", "list", "tuple"} /\ Len(ls[j][2].kids) > 0)
ApplyMapsLeaves == Apply(tree) = MapLeaves(tree, TRUE)

Emit == nsets = MaxSets =>
  PrintT(<<"H", ToJson([tree0 |-> tree0, leaves0 |-> Leaves(tree0, <<>>), applied0 |-> Apply(tree0),
                         steps |-> hist])>>)
View == <<tree0, tree, nsets>>
=============================================================================
