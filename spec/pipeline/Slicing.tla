------------------------------ MODULE Slicing -------------------------------
(***************************************************************************)
(* Aggregation with slicing as a brute-force group-by (C02):               *)
(* TransformRunner.update_state / get_result (transform.py:305-390) with   *)
(* tree_fns.Slicer (441-487) and tree.apply_mask (108-195).                *)
(*                                                                         *)
(* A stream is a sequence of batches, a batch a sequence of rows [a, b].   *)
(* The aggregates collect what they are fed (row values in order), so the  *)
(* result IS the multiset/sequence of rows that reached the accumulator:   *)
(*   o1 = collect column b              o2 = collect pairs (a, b)          *)
(* Slicers:                                                                *)
(*   "a"      single feature a          "b"   single feature b             *)
(*   "ab"     feature cross (a, b)                                         *)
(*   "a_in1"  restricted value set: a within {1}                           *)
(*   "b_in34" restricted value set: b within {3, 4}                        *)
(*   "aorb"   fan-out slice function: a row belongs to slice a and slice b *)
(*   "c_inUS" restricted value set given as ONE bare value: c within "US",   *)
(*            where c is the string feature "US" (a = 1) or "UK" (a = 2);    *)
(*            slice values are coded 91 / 92 here                            *)
(*   "bodd"   mask function: one slice "odd" = rows with b odd             *)
(*   "a_rep"  single feature a, masked-out rows replaced by 0 (not dropped)*)
(*                                                                         *)
(* Meaning: the unsliced result of an aggregate is the collection over all *)
(* rows of all batches; for every slicer and every slice value that occurs *)
(* in some batch, the result under (output, slice) is the collection over  *)
(* exactly the rows of that slice (replace variant: all rows, the others   *)
(* as 0); an aggregate with slicing disabled has no sliced results; no     *)
(* other key exists.                                                       *)
(***************************************************************************)
EXTENDS Integers, Sequences, FiniteSets, TLC, Json

CONSTANTS MaxBatches, MaxRows, MaxSlicers, AllSlicers

Row(a, b) == [a |-> a, b |-> b]
RowVals == {Row(1, 3), Row(2, 3), Row(1, 4), Row(2, 5)}
BatchesOf == UNION {[1..m -> RowVals] : m \in 1..MaxRows}

\* two slicers with the same slice name are rejected when the pipeline is built
NameOf(sl) == CASE sl \in {"a", "a_in1", "a_rep"} -> "a" [] sl \in {"b", "b_in34"} -> "b" [] sl = "c_inUS" -> "c" [] OTHER -> sl

VARIABLES stream, slicers, agg2, dis1
vars == <<stream, slicers, agg2, dis1>>

\* configurations grow one batch / one slicer at a time (so that TLC can also sample large ones by simulation)
Init == /\ stream = <<>> /\ slicers = {}
        /\ agg2 \in BOOLEAN            \* a second, stacked aggregate o2 over (a, b)
        /\ dis1 \in BOOLEAN            \* o1 has slicing disabled
AddBatch(bt) == /\ Len(stream) < MaxBatches /\ stream' = Append(stream, bt) /\ UNCHANGED <<slicers, agg2, dis1>>
AddSlicer(sl) == /\ sl \notin slicers /\ Cardinality(slicers) < MaxSlicers
                 /\ \A x \in slicers : NameOf(x) # NameOf(sl)
                 /\ slicers' = slicers \cup {sl} /\ UNCHANGED <<stream, agg2, dis1>>
Next == (\E bt \in BatchesOf : AddBatch(bt)) \/ (\E sl \in AllSlicers : AddSlicer(sl))
Spec == Init /\ [][Next]_vars

RECURSIVE Flat(_)
Flat(ss) == IF ss = <<>> THEN <<>> ELSE Head(ss) \o Flat(Tail(ss))
AllRows == Flat(stream)

\* slice values a row belongs to, per slicer (a set: a row is counted once per slice even if a fan-out names it twice)
SliceVals(sl, r) ==
  CASE sl = "a"      -> {<<r.a>>}
    [] sl = "b"      -> {<<r.b>>}
    [] sl = "ab"     -> {<<r.a, r.b>>}
    [] sl = "a_in1"  -> IF r.a = 1 THEN {<<r.a>>} ELSE {}
    [] sl = "b_in34" -> IF r.b \in {3, 4} THEN {<<r.b>>} ELSE {}
    [] sl = "c_inUS" -> IF r.a = 1 THEN {<<91>>} ELSE {}
    [] sl = "aorb"   -> {<<r.a>>, <<r.b>>}
    [] sl = "bodd"   -> IF r.b % 2 = 1 THEN {<<1>>} ELSE {}
    [] sl = "a_rep"  -> {<<r.a>>}
Replace(sl) == sl = "a_rep"
\* a slice exists once some row of some batch belongs to it; for the mask function every batch names its slice
\* ("odd"), also when no row is selected
SlicesOf(sl) == IF sl = "bodd" THEN (IF AllRows = <<>> THEN {} ELSE {<<1>>})
                ELSE UNION {SliceVals(sl, AllRows[i]) : i \in 1..Len(AllRows)}

Col(out, r) == IF out = "o1" THEN <<r.b>> ELSE <<r.a, r.b>>
Zero(out)   == IF out = "o1" THEN <<0>> ELSE <<0, 0>>

\* the rows an accumulator under (out, slicer, value) has absorbed, in order.
\* A replace-slicer only sees the batches in which its value occurs (the slice is created per batch).
RECURSIVE Feed(_, _, _, _)
Feed(out, sl, v, batches) ==
  IF batches = <<>> THEN <<>>
  ELSE LET bt == Head(batches)
           here == \E i \in 1..Len(bt) : v \in SliceVals(sl, bt[i])
           rows == IF Replace(sl)
                   THEN (IF here THEN [i \in 1..Len(bt) |-> IF v \in SliceVals(sl, bt[i]) THEN Col(out, bt[i]) ELSE Zero(out)] ELSE <<>>)
                   ELSE LET keep == SelectSeq(bt, LAMBDA r : v \in SliceVals(sl, r)) IN [i \in 1..Len(keep) |-> Col(out, keep[i])]
       IN rows \o Feed(out, sl, v, Tail(batches))

Outs == IF agg2 THEN {"o1", "o2"} ELSE {"o1"}
Sliced(out) == ~(out = "o1" /\ dis1)
Unsliced(out) == [i \in 1..Len(AllRows) |-> Col(out, AllRows[i])]

\* the whole expected result: a set of entries
ExpectedEntries ==
  {[out |-> o, slicer |-> "", value |-> <<>>, rows |-> Unsliced(o)] : o \in Outs}
  \cup UNION {{[out |-> o, slicer |-> sl, value |-> v, rows |-> Feed(o, sl, v, stream)] : v \in SlicesOf(sl)}
              : o \in {x \in Outs : Sliced(x)}, sl \in slicers}

\* ------------------------------------------------------------ laws (group-by algebra)
RECURSIVE SumF(_, _)
SumF(f, S) == IF S = {} THEN 0 ELSE LET x == CHOOSE y \in S : TRUE IN f[x] + SumF(f, S \ {x})
Bag(q) == [x \in {q[i] : i \in 1..Len(q)} |-> Cardinality({i \in 1..Len(q) : q[i] = x})]
\* every row is in exactly one slice of a partitioning slicer
ExactlyOneSlice ==
  \A sl \in slicers \cap {"a", "b", "ab"} : \A i \in 1..Len(AllRows) : Cardinality(SliceVals(sl, AllRows[i])) = 1
\* the rows of a slice are a sub-sequence of all rows (nothing invented, order kept)
SubSeqLaw ==
  \A e \in ExpectedEntries : (e.slicer # "" /\ ~Replace(e.slicer)) =>
     \A i \in 1..Len(e.rows) : \E j \in 1..Len(AllRows) : Col(e.out, AllRows[j]) = e.rows[i]
\* sizes add up for partitioning slicers
SizesAddUp ==
  \A sl \in slicers \cap {"a", "b", "ab"} : \A o \in {x \in Outs : Sliced(x)} :
     LET vs == SlicesOf(sl) IN
     Len(AllRows) = SumF([v \in vs |-> Len(Feed(o, sl, v, stream))], vs)
\* the unsliced entry does not depend on the slicers (it is defined without them) and always exists
UnslicedAlways == \A o \in Outs : \E e \in ExpectedEntries : e.out = o /\ e.slicer = "" /\ e.rows = Unsliced(o)

Emit == PrintT(<<"H", ToJson([stream |-> stream, slicers |-> slicers, agg2 |-> agg2, dis1 |-> dis1,
                               expected |-> ExpectedEntries])>>)
=============================================================================
