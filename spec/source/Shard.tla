------------------------------- MODULE Shard -------------------------------
(***************************************************************************)
(* Sharding of data sources (ml_metrics/_src/chainables/io.py).            *)
(*                                                                         *)
(* A data source over n elements (element j is simply the number j) is     *)
(* described by the half-open interval [lo, hi) it covers and the chain of *)
(* ShardConfig records (shard_index, num_shards, start_index) that led to  *)
(* it.  `ShardStep` is one call of SequenceDataSource.shard(i, k, off);    *)
(* the interval arithmetic `Cut` is the transcription of io.py:61-77.      *)
(* ShardedIterable's round-robin is `RoundRobin`.                          *)
(*                                                                         *)
(* Properties (C09): for every reachable source and every k the k shards   *)
(* are pairwise disjoint, cover the source, are contiguous and ordered,    *)
(* their sizes differ by at most one, they report their true length, and   *)
(* rebuilding from the recorded chain gives the same interval.             *)
(***************************************************************************)
EXTENDS ShardMath, TLC, Json

CONSTANTS MaxN,      \* data lengths 0..MaxN
          MaxK,      \* shard counts 1..MaxK
          MaxDepth,  \* nesting depth of shard-of-shard
          MaxOff     \* resume offsets 0..MaxOff (bounded by the shard length)

VARIABLES n, lo, hi, chain, kind, hist
vars == <<n, lo, hi, chain, kind, hist>>

\* ---------------------------------------------------------------- transitions
Init ==
  /\ n \in 0..MaxN
  /\ kind \in {"seq", "iter"}
  /\ lo = 0 /\ hi = n
  /\ chain = <<>>
  /\ hist = <<>>

ShardStep(i, k, off) ==
  /\ kind = "seq"
  /\ Len(chain) < MaxDepth
  /\ off <= Cut(lo, hi, i, k)[2]
  /\ lo' = ShardLo(lo, hi, i, k, off)
  /\ hi' = ShardHi(lo, hi, i, k)
  /\ chain' = Append(chain, [i |-> i, k |-> k, off |-> off])
  /\ hist' = Append(hist, [op |-> "shard", i |-> i, k |-> k, off |-> off,
                           lo |-> lo', hi |-> hi', len |-> hi' - lo'])
  /\ UNCHANGED <<n, kind>>

\* ShardedIterable.shard(i, k) replaces the config (no nesting), start index `from`
\* models a restored DataIterator state.
RRStep(i, k, from) ==
  /\ kind = "iter"
  /\ chain = <<>>
  /\ chain' = <<[i |-> i, k |-> k, off |-> from]>>
  /\ hist' = Append(hist, [op |-> "rr", i |-> i, k |-> k, off |-> from,
                           elems |-> RoundRobin(n, i, k, from)])
  /\ UNCHANGED <<n, lo, hi, kind>>

Next ==
  \/ \E k \in 1..MaxK : \E i \in 0..(k - 1) : \E off \in 0..MaxOff : ShardStep(i, k, off)
  \/ \E k \in 1..MaxK : \E i \in 0..(k - 1) : \E from \in 0..MaxOff : RRStep(i, k, from)

Spec == Init /\ [][Next]_vars

\* ---------------------------------------------------------------- properties
Within == 0 <= lo /\ lo <= hi /\ hi <= n

\* The k shards (offset 0) of the current source partition it exactly.
Partition ==
  kind = "seq" =>
  \A k \in 1..MaxK :
    LET S(i) == Elems(ShardLo(lo, hi, i, k, 0), ShardHi(lo, hi, i, k))
    IN /\ UNION {S(i) : i \in 0..(k - 1)} = Elems(lo, hi)                       \* cover
       /\ \A i, j \in 0..(k - 1) : i # j => S(i) \cap S(j) = {}                 \* disjoint
       /\ \A i \in 0..(k - 2) : ShardHi(lo, hi, i, k) = ShardLo(lo, hi, i + 1, k, 0)  \* contiguous, ordered
       /\ ShardLo(lo, hi, 0, k, 0) = lo /\ ShardHi(lo, hi, k - 1, k) = hi
       /\ \A i, j \in 0..(k - 1) :                                                \* balanced
            LET d == Cut(lo, hi, i, k)[2] - Cut(lo, hi, j, k)[2] IN d <= 1 /\ d >= -1
       /\ \A i \in 0..(k - 1) : Cut(lo, hi, i, k)[2] >= 0

RoundRobinPartition ==
  kind = "iter" =>
  \A k \in 1..MaxK :
    /\ UNION {RoundRobin(n, i, k, 0) : i \in 0..(k - 1)} = 0..(n - 1)
    /\ \A i, j \in 0..(k - 1) : i # j => RoundRobin(n, i, k, 0) \cap RoundRobin(n, j, k, 0) = {}

StateRoundTrip == kind = "seq" => FromChain(n, chain) = <<lo, hi>>

\* ---------------------------------------------------------------- export
Terminal == IF kind = "seq" THEN Len(chain) = MaxDepth ELSE chain # <<>>
Emit == Terminal => PrintT(<<"H", ToJson([n |-> n, kind |-> kind, steps |-> hist])>>)
View == <<n, lo, hi, chain, kind>>
=============================================================================
