------------------------------- MODULE Shard -------------------------------
(***************************************************************************)
(* Sharding of data sources (ml_metrics/_src/chainables/io.py).            *)
(*                                                                         *)
(* A data source over n elements (element j is simply the number j) is     *)
(* described by the half-open interval [lo, hi) it covers and the chain of *)
(* ShardConfig records (shard_index, num_shards, start_index) that led to  *)
(* it.  `ShardStep` is one call of SequenceDataSource.shard(i, k, off);    *)
(* the interval arithmetic `Cut` is the transcription of io.py:61-77.      *)
(* ShardedIterable's round-robin (nested, with a resume position) is       *)
(* RRStep / RRResume.                                                      *)
(*                                                                         *)
(* Properties (C09): for every reachable source and every k the k shards   *)
(* are pairwise disjoint, cover the source, are contiguous and ordered,    *)
(* their sizes differ by at most one, they report their true length, and   *)
(* rebuilding from the recorded chain gives the same interval.             *)
(***************************************************************************)
EXTENDS ShardMath, TLC, Json

CONSTANTS MaxN,      \* data lengths 0..MaxN
          MaxK,      \* shard counts 1..MaxK
          MaxDepth,  \* nesting depth of shard-of-shard
          MaxOff     \* resume offsets 0..MaxOff (bounded by the shard length)

VARIABLES n, lo, hi, chain, kind, hist
vars == <<n, lo, hi, chain, kind, hist>>

\* ---------------------------------------------------------------- transitions
Init ==
  /\ n \in 0..MaxN
  /\ kind \in {"seq", "iter"}
  /\ lo = 0 /\ hi = n
  /\ chain = <<>>
  /\ hist = <<>>

ShardStep(i, k, off) ==
  /\ kind = "seq"
  /\ Len(chain) < MaxDepth
  /\ off <= Cut(lo, hi, i, k)[2]
  /\ lo' = ShardLo(lo, hi, i, k, off)
  /\ hi' = ShardHi(lo, hi, i, k)
  /\ chain' = Append(chain, [i |-> i, k |-> k, off |-> off])
  /\ hist' = Append(hist, [op |-> "shard", i |-> i, k |-> k, off |-> off,
                           lo |-> lo', hi |-> hi', len |-> hi' - lo'])
  /\ UNCHANGED <<n, kind>>

\* ShardedIterable (kind "iter"): shard(i, k) of a source takes every k-th element of it, starting with its i-th
\* (by rank in the source being sharded, so the k sub-shards partition THEIR PARENT); shards nest (chain).
\* `lo` is the resume position: the absolute index in the underlying iterable below which nothing is delivered
\* (DataIterator.state after some elements were consumed; kept by a later shard()).
RankSel(S, i, k) == {x \in S : Cardinality({y \in S : y < x}) % k = i}
RECURSIVE FullRR(_, _)
FullRR(len, c) == IF c = <<>> THEN 0..(len - 1)
                  ELSE RankSel(FullRR(len, SubSeq(c, 1, Len(c) - 1)), c[Len(c)].i, c[Len(c)].k)
RRElems(len, c, from) == {j \in FullRR(len, c) : j >= from}
\* the representation the code keeps: one flat (shard_index, num_shards) pair
RECURSIVE FlatK(_)
FlatK(c) == IF c = <<>> THEN 1 ELSE FlatK(SubSeq(c, 1, Len(c) - 1)) * c[Len(c)].k
RECURSIVE FlatI(_)
FlatI(c) == IF c = <<>> THEN 0 ELSE FlatI(SubSeq(c, 1, Len(c) - 1)) + c[Len(c)].i * FlatK(SubSeq(c, 1, Len(c) - 1))

RRStep(i, k) ==
  /\ kind = "iter"
  /\ Len(chain) < MaxDepth /\ Len(hist) < MaxDepth + 1
  /\ chain' = Append(chain, [i |-> i, k |-> k, off |-> 0])
  /\ hist' = Append(hist, [op |-> "rr", i |-> i, k |-> k, from |-> lo, fi |-> FlatI(chain'), fk |-> FlatK(chain'),
                           elems |-> RRElems(n, chain', lo)])
  /\ UNCHANGED <<n, lo, hi, kind>>

\* consume c elements of the current source, capture the iterator state, rebuild the source from it
RRResume(c) ==
  /\ kind = "iter" /\ c >= 1
  /\ Len(hist) < MaxDepth + 1
  /\ LET E == RRElems(n, chain, lo) IN
     /\ c <= Cardinality(E)
     /\ LET last == CHOOSE x \in E : Cardinality({y \in E : y < x}) = c - 1 IN
        /\ lo' = last + 1
        /\ hist' = Append(hist, [op |-> "resume", c |-> c, from |-> lo', fi |-> FlatI(chain), fk |-> FlatK(chain),
                                 elems |-> RRElems(n, chain, lo')])
  /\ UNCHANGED <<n, hi, chain, kind>>

Next ==
  \/ \E k \in 1..MaxK : \E i \in 0..(k - 1) : \E off \in 0..MaxOff : ShardStep(i, k, off)
  \/ \E k \in 1..MaxK : \E i \in 0..(k - 1) : RRStep(i, k)
  \/ \E c \in 1..(MaxOff + 1) : RRResume(c)

Spec == Init /\ [][Next]_vars

\* ---------------------------------------------------------------- properties
Within == 0 <= lo /\ lo <= hi /\ hi <= n

\* The k shards (offset 0) of the current source partition it exactly.
Partition ==
  kind = "seq" =>
  \A k \in 1..MaxK :
    LET S(i) == Elems(ShardLo(lo, hi, i, k, 0), ShardHi(lo, hi, i, k))
    IN /\ UNION {S(i) : i \in 0..(k - 1)} = Elems(lo, hi)                       \* cover
       /\ \A i, j \in 0..(k - 1) : i # j => S(i) \cap S(j) = {}                 \* disjoint
       /\ \A i \in 0..(k - 2) : ShardHi(lo, hi, i, k) = ShardLo(lo, hi, i + 1, k, 0)  \* contiguous, ordered
       /\ ShardLo(lo, hi, 0, k, 0) = lo /\ ShardHi(lo, hi, k - 1, k) = hi
       /\ \A i, j \in 0..(k - 1) :                                                \* balanced
            LET d == Cut(lo, hi, i, k)[2] - Cut(lo, hi, j, k)[2] IN d <= 1 /\ d >= -1
       /\ \A i \in 0..(k - 1) : Cut(lo, hi, i, k)[2] >= 0

\* the k sub-shards of the current (possibly nested, possibly resumed) source partition exactly what it still delivers
RoundRobinPartition ==
  kind = "iter" =>
  \A k \in 1..MaxK :
    LET S(i) == RRElems(n, Append(chain, [i |-> i, k |-> k, off |-> 0]), lo) IN
    /\ UNION {S(i) : i \in 0..(k - 1)} = RRElems(n, chain, lo)
    /\ \A i, j \in 0..(k - 1) : i # j => S(i) \cap S(j) = {}
\* the flat pair the code keeps denotes the same elements as the nested definition
RRClosedForm == kind = "iter" => FullRR(n, chain) = {j \in 0..(n - 1) : j % FlatK(chain) = FlatI(chain)}
\* within one source lo never makes an element reappear
RRWithin == kind = "iter" => (lo >= 0 /\ lo <= n)

StateRoundTrip == kind = "seq" => FromChain(n, chain) = <<lo, hi>>

\* ---------------------------------------------------------------- export
Terminal == IF kind = "seq" THEN Len(chain) = MaxDepth ELSE (chain # <<>> /\ Len(hist) >= 2)
Emit == Terminal => PrintT(<<"H", ToJson([n |-> n, kind |-> kind, steps |-> hist])>>)
View == <<n, lo, hi, chain, kind>>
=============================================================================
