----------------------------- MODULE MergedSeq -----------------------------
(***************************************************************************)
(* iter_utils.MergedSequences: several random-access sub-sequences behave  *)
(* as their concatenation (C09, last sentence).                            *)
(*                                                                         *)
(* Elements are their global positions 0..total-1, so the concatenation is *)
(* the identity sequence and every expected value is a plain number.       *)
(* Two layers:                                                             *)
(*   * declarative  - Python list semantics of the concatenation           *)
(*                    (DeclGet, DeclSlice);                                *)
(*   * implementation - a transcription of MergedSequences._index / slice  *)
(*                    / __getitem__ (iter_utils.py:274-312): cumulative    *)
(*                    offsets, bisect_left, the three-way case split.      *)
(* TLC checks Impl = Decl for every split into (possibly empty) parts and  *)
(* every index / slice pair in range; the same queries are replayed on the *)
(* real class.                                                             *)
(***************************************************************************)
EXTENDS Integers, Sequences, FiniteSets, TLC, Json

CONSTANTS MaxParts, MaxPartLen, MaxTotal

VARIABLES parts,   \* sequence of part lengths
          hist
vars == <<parts, hist>>

None == -999
Err  == -998

RECURSIVE SumTo(_, _)
SumTo(p, j) == IF j = 0 THEN 0 ELSE p[j] + SumTo(p, j - 1)
Total   == SumTo(parts, Len(parts))
NParts  == Len(parts)
\* self._seq_idxs = [0, l1, l1+l2, ...]   (0-based position s is Idxs[s+1])
Idxs    == [s \in 1..(NParts + 1) |-> SumTo(parts, s - 1)]

\* ------------------------------------------------------------ declarative
DeclGet(i) ==
  IF i >= 0 /\ i < Total THEN i
  ELSE IF i < 0 /\ i >= -Total THEN Total + i
  ELSE Err

Clamp(x) == IF x = None THEN None
            ELSE IF x < 0 THEN (IF Total + x < 0 THEN 0 ELSE Total + x)
            ELSE IF x > Total THEN Total ELSE x
DeclSlice(a, b) ==
  LET s == IF a = None THEN 0 ELSE Clamp(a)
      e == IF b = None THEN Total ELSE Clamp(b)
  IN [j \in 1..(IF e > s THEN e - s ELSE 0) |-> s + j - 1]

\* ------------------------------------------------------------ implementation
BisectLeft(x) == Cardinality({s \in 1..(NParts + 1) : Idxs[s] < x})   \* 0-based insertion point

\* `while idx_seq + 1 < len(indices) and indices[idx_seq + 1] == index: idx_seq += 1`
\* (added by the repair of the empty-sub-sequence defect, see known_findings.json)
RECURSIVE SkipEmpty(_, _)
SkipEmpty(s, ix) == IF s + 1 < NParts + 1 /\ Idxs[s + 2] = ix THEN SkipEmpty(s + 1, ix) ELSE s

\* MergedSequences._index  (iter_utils.py:274-285) -> <<seq_idx, idx>>
ImplIndex(index) ==
  LET ix == IF index < 0 THEN Total + index ELSE index
      s  == BisectLeft(ix)
  IN IF s = NParts + 1 /\ ix > Idxs[NParts + 1] THEN <<s - 1, None>>
     ELSE IF ix = Idxs[s + 1] THEN <<SkipEmpty(s, ix), 0>>
     ELSE IF s = 0 THEN <<-1, ix - Total>>   \* indices[-1] wraps to the last offset in Python
     ELSE <<s - 1, ix - Idxs[s]>>            \* indices[idx_seq - 1] is Idxs[s] in 1-based terms

\* Python list indexing of self._sequences (negative positions wrap once).
PySeq(s) == IF s >= 0 /\ s < NParts THEN s + 1
            ELSE IF s < 0 /\ s >= -NParts THEN NParts + s + 1
            ELSE Err

ImplGet(index) ==
  LET m == ImplIndex(index)
      p == PySeq(m[1])
  IN IF p = Err \/ m[2] = None THEN Err
     ELSE LET len == parts[p]
              j == m[2]
          IN IF j >= 0 /\ j < len THEN Idxs[p] + j
             ELSE IF j < 0 /\ j >= -len THEN Idxs[p] + len + j
             ELSE Err

\* _RangeIterator(data, start, stop): elements start..stop-1 of part s (0-based part number)
PartRange(s, start, stop) ==
  LET len == parts[s + 1]
      e   == IF stop = None THEN len ELSE stop
  IN [j \in 1..(IF e > start THEN e - start ELSE 0) |-> Idxs[s + 1] + start + j - 1]

RECURSIVE WholeParts(_, _)
WholeParts(from, to) ==     \* parts from..to-1 in full
  IF from >= to THEN <<>> ELSE PartRange(from, 0, None) \o WholeParts(from + 1, to)

\* MergedSequences.slice (iter_utils.py:287-305): the bounds are normalised like a list's (slice.indices(len): negative
\* bounds count from the end, whatever lies beyond either end is clamped), then mapped to (part, offset)
ImplSlice(a, b) ==
  LET st == ImplIndex(IF a = None THEN 0 ELSE Clamp(a))
      sp == ImplIndex(IF b = None THEN Total ELSE Clamp(b))
  IN IF st[1] = NParts \/ st[1] > sp[1] THEN <<>>
     ELSE IF st[1] = sp[1] THEN PartRange(st[1], st[2], sp[2])
     ELSE PartRange(st[1], st[2], None)
          \o WholeParts(st[1] + 1, sp[1])
          \o (IF sp[2] # None /\ sp[2] # 0 THEN PartRange(sp[1], 0, sp[2]) ELSE <<>>)

\* ------------------------------------------------------------ transitions
PartSeqs == UNION {[1..k -> 0..MaxPartLen] : k \in 1..MaxParts}

Init == /\ parts \in {p \in PartSeqs : SumTo(p, Len(p)) <= MaxTotal}
        /\ hist = <<>>

Indices == (-Total - 1)..(Total + 1)
Bounds  == ((-Total - 2)..(Total + 2)) \cup {None}       \* incl. bounds beyond both ends (a list clamps them)

GetOp(i) ==
  /\ hist = <<>>
  /\ hist' = <<[op |-> "get", i |-> i, expect |-> DeclGet(i)]>>
  /\ UNCHANGED parts
SliceOp(a, b) ==
  /\ hist = <<>>
  /\ hist' = <<[op |-> "slice", a |-> a, b |-> b, expect |-> DeclSlice(a, b)]>>
  /\ UNCHANGED parts
IterOp ==
  /\ hist = <<>>
  /\ hist' = <<[op |-> "iter", expect |-> DeclSlice(None, None), len |-> Total]>>
  /\ UNCHANGED parts

Next == \/ \E i \in Indices : GetOp(i)
        \/ \E a, b \in Bounds : SliceOp(a, b)
        \/ IterOp
Spec == Init /\ [][Next]_vars

\* ------------------------------------------------------------ properties
IndexCorrect == \A i \in Indices : ImplGet(i) = DeclGet(i)
\* slices with start <= stop (after normalisation): what the library itself issues
SliceCorrect ==
  \A a, b \in Bounds :
    LET na == IF a = None THEN 0 ELSE Clamp(a)
        nb == IF b = None THEN Total ELSE Clamp(b)
    IN na <= nb => ImplSlice(a, b) = DeclSlice(a, b)
\* reversed bounds must give the empty sequence, like a list
SliceReversedEmpty ==
  \A a, b \in Bounds :
    LET na == IF a = None THEN 0 ELSE Clamp(a)
        nb == IF b = None THEN Total ELSE Clamp(b)
    IN na > nb => ImplSlice(a, b) = <<>>
IterCorrect == ImplSlice(None, None) = DeclSlice(None, None)

Emit == hist # <<>> => PrintT(<<"H", ToJson([parts |-> parts, q |-> hist[1]])>>)
View == parts
=============================================================================
