------------------------------ MODULE RangeIter ------------------------------
(***************************************************************************)
(* iter_utils._RangeIterator (iter_utils.py:173-231): the read-ahead       *)
(* iterator behind MergedSequences slices and SequenceDataSource           *)
(* iteration (C09 "read-ahead sizes", C12 "_RangeIterator skip-on-error    *)
(* index advance").                                                        *)
(*                                                                         *)
(* Data element j is the number j; positions in Bad raise when read        *)
(* (alone or as part of a slice).  One `Call` is one __next__: the loop    *)
(* "while not cache and i < stop" with slice read-ahead of bs elements,    *)
(* exponential back-off bs := max(bs \div 4, 1) on error, and - once bs    *)
(* is 1 - skipping the failing position and raising.  Data that supports   *)
(* integer indices only (sliceable = FALSE) fails every slice read, also   *)
(* one whose clipped length is 1.                                          *)
(*                                                                         *)
(* Properties: the calls return exactly the good positions of              *)
(* [start, stop) in order, every bad position raises exactly once, at its  *)
(* place; nothing outside [start, stop) is ever read; after the range is   *)
(* exhausted every call signals StopIteration.                             *)
(***************************************************************************)
EXTENDS Integers, Sequences, FiniteSets, TLC, Json

CONSTANTS MaxLen, Batches, MaxBad

VARIABLES len, start, stop, bad, bs0,
          sliceable,    \* FALSE: the data supports integer indices only, every slice read fails
          i, bs, cache,
          touched,      \* positions read so far
          out,          \* results of the calls so far: a position, -1 = raised, -2 = StopIteration
          hist
vars == <<len, start, stop, bad, bs0, sliceable, i, bs, cache, touched, out, hist>>

Min(a, b) == IF a < b THEN a ELSE b
Max(a, b) == IF a > b THEN a ELSE b
Rows(a, b) == [j \in 1..(IF b > a THEN b - a ELSE 0) |-> a + j - 1]

\* the while loop of __next__; returns [i, bs, cache, touched, raised]
RECURSIVE Fill(_, _, _, _)
Fill(ci, cbs, ccache, ct) ==
  IF ccache # <<>> \/ ci >= stop THEN [i |-> ci, bs |-> cbs, cache |-> ccache, touched |-> ct, raised |-> FALSE]
  ELSE LET n == IF cbs > 1 THEN Min(ci + cbs, stop) - ci ELSE cbs
           rd == ci..(ci + n - 1)
       IN IF rd \cap bad = {} /\ (cbs > 1 => sliceable)
          THEN Fill(ci + n, cbs, Rows(ci, ci + n), ct \cup rd)
          ELSE IF cbs = 1
               THEN [i |-> ci + 1, bs |-> cbs, cache |-> ccache, touched |-> ct \cup rd, raised |-> TRUE]
               ELSE Fill(ci, Max(cbs \div 4, 1), ccache, ct \cup rd)

Init ==
  /\ len \in 0..MaxLen
  /\ start \in 0..len /\ stop \in 0..len /\ start <= stop
  /\ bad \in {s \in SUBSET (0..(len - 1)) : Cardinality(s) <= MaxBad}
  /\ bs \in Batches /\ bs0 = bs /\ sliceable \in BOOLEAN
  /\ i = start /\ cache = <<>> /\ touched = {} /\ out = <<>> /\ hist = <<>>

Call ==
  /\ Len(out) < (stop - start) + 2
  /\ LET f == Fill(i, bs, cache, touched) IN
       /\ i' = f.i /\ bs' = f.bs /\ touched' = f.touched
       /\ IF f.raised
          THEN cache' = f.cache /\ out' = Append(out, -1)
          ELSE IF f.cache # <<>>
               THEN cache' = Tail(f.cache) /\ out' = Append(out, Head(f.cache))
               ELSE cache' = f.cache /\ out' = Append(out, -2)
       /\ hist' = Append(hist, out'[Len(out')])
  /\ UNCHANGED <<len, start, stop, bad, bs0, sliceable>>

Next == Call
Spec == Init /\ [][Next]_vars

\* ------------------------------------------------------------ properties
Expected == [j \in 1..(stop - start) |-> IF (start + j - 1) \in bad THEN -1 ELSE start + j - 1]
Results == SelectSeq(out, LAMBDA x : x # -2)
InRange == touched \subseteq start..(stop - 1)
PrefixOfExpected == /\ Len(Results) <= Len(Expected)
                    /\ \A j \in 1..Len(Results) : Results[j] = Expected[j]
StopOnlyAtEnd == \A j \in 1..Len(out) : out[j] = -2 => Len(SelectSeq(SubSeq(out, 1, j), LAMBDA x : x # -2)) = stop - start
Complete == Len(out) = (stop - start) + 2 => (Results = Expected /\ out[Len(out)] = -2 /\ out[Len(out) - 1] = -2)

Emit == Len(out) = (stop - start) + 2 =>
  PrintT(<<"H", ToJson([len |-> len, start |-> start, stop |-> stop, bad |-> bad, bs |-> bs0, sliceable |-> sliceable,
                         results |-> hist])>>)
View == <<len, start, stop, bad, bs0, sliceable, i, bs, cache, touched, out>>
=============================================================================
