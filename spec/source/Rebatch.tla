------------------------------- MODULE Rebatch -------------------------------
(***************************************************************************)
(* iter_utils.rebatched_args (C19): re-batching a stream of column tuples  *)
(* to a target batch size B.                                               *)
(*                                                                         *)
(* Rows are numbered 0..T-1 in input order; an input batch is a run of     *)
(* consecutive row numbers (all columns of a tuple carry the same rows, so *)
(* one sequence of row numbers stands for every column; the replay driver  *)
(* gives each column distinct values derived from the row number to check  *)
(* alignment on the real code).                                            *)
(*                                                                         *)
(* Declarative layer:  Chunks(T, B) - the concatenation cut every B rows.  *)
(* Implementation layer: the carry-over machine of iter_utils.py:1316-1357 *)
(*   buf        column_buffer (rows carried over + rows read, concatenated) *)
(*   exhausted  the `exhausted` flag                                       *)
(*   out        chunks yielded so far (-1 marks a padded position)         *)
(* One `Step` is one iteration of `while not exhausted`: read the next     *)
(* input batch (or notice exhaustion), then the flush block.               *)
(***************************************************************************)
EXTENDS Integers, Sequences, FiniteSets, TLC, Json

CONSTANTS MaxBatches,   \* number of input batches 0..MaxBatches
          MaxSize,      \* size of each input batch 0..MaxSize
          MaxB,         \* target batch sizes 1..MaxB
          Pads          \* subset of {FALSE, TRUE}: padding requested or not

VARIABLES sizes,      \* the input stream: sequence of batch sizes
          B, pad,
          k,          \* number of input batches consumed
          buf, exhausted, out,
          hist
vars == <<sizes, B, pad, k, buf, exhausted, out, hist>>

PAD == -1

RECURSIVE Sum(_, _)
Sum(s, j) == IF j = 0 THEN 0 ELSE s[j] + Sum(s, j - 1)
Total == Sum(sizes, Len(sizes))
Rows(a, b) == [j \in 1..(IF b > a THEN b - a ELSE 0) |-> a + j - 1]     \* rows a..b-1
BatchRows(j) == Rows(Sum(sizes, j - 1), Sum(sizes, j))

\* ------------------------------------------------------------ declarative
NChunks(t, b) == (t + b - 1) \div b
Chunk(t, b, c) == Rows((c - 1) * b, IF c * b < t THEN c * b ELSE t)
PadTo(s, b) == s \o [j \in 1..(b - Len(s)) |-> PAD]
Expected ==
  [c \in 1..NChunks(Total, B) |->
     IF c = NChunks(Total, B) /\ pad THEN PadTo(Chunk(Total, B, c), B) ELSE Chunk(Total, B, c)]

\* ------------------------------------------------------------ implementation
\* mit.sliced(concat(buffer), B): all slices of the buffer
NSlices == (Len(buf) + B - 1) \div B
Slice(c) == SubSeq(buf, (c - 1) * B + 1, IF c * B < Len(buf) THEN c * B ELSE Len(buf))
AllButLast == [c \in 1..(NSlices - 1) |-> Slice(c)]

\* the flush block (iter_utils.py:1335-1357) applied to buffer `b`, exhaustion flag `ex`
FlushOut(b, ex) ==    \* <<chunks yielded, new buffer>>
  LET n    == Len(b)
      ns   == (n + B - 1) \div B
      sl(c) == SubSeq(b, (c - 1) * B + 1, IF c * B < n THEN c * B ELSE n)
      head == [c \in 1..(ns - 1) |-> sl(c)]
      last == sl(ns)
  IN IF n > 0 /\ (n >= B \/ ex)
     THEN IF Len(last) = B THEN <<Append(head, last), <<>>>>
          ELSE IF ex /\ pad THEN <<Append(head, PadTo(last, B)), <<>>>>
          ELSE IF ex THEN <<Append(head, last), <<>>>>
          ELSE <<head, last>>                       \* carry the remainder over
     ELSE <<<<>>, b>>

Step ==
  /\ ~exhausted
  /\ LET ex == (k = Len(sizes))
         b1 == IF ex THEN buf ELSE buf \o BatchRows(k + 1)
         fl == FlushOut(b1, ex)
     IN /\ exhausted' = ex
        /\ k' = IF ex THEN k ELSE k + 1
        /\ out' = out \o fl[1]
        /\ buf' = fl[2]
        /\ hist' = Append(hist, [read |-> IF ex THEN -1 ELSE sizes[k + 1], emitted |-> fl[1]])
  /\ UNCHANGED <<sizes, B, pad>>

SizeSeqs == UNION {[1..m -> 0..MaxSize] : m \in 0..MaxBatches}
Init ==
  /\ sizes \in SizeSeqs
  /\ B \in 1..MaxB
  /\ pad \in Pads
  /\ k = 0 /\ buf = <<>> /\ exhausted = FALSE /\ out = <<>> /\ hist = <<>>

Next == Step
Spec == Init /\ [][Next]_vars

\* ------------------------------------------------------------ properties
\* every chunk emitted so far is the next B rows of the concatenation (refinement of
\* the declarative layer, checked at every step, not only at the end)
PrefixOfExpected ==
  /\ Len(out) <= Len(Expected)
  /\ \A c \in 1..Len(out) : out[c] = Expected[c]
\* nothing is lost: rows emitted + rows buffered = rows read
Conservation ==
  LET emitted == Sum([c \in 1..Len(out) |-> Cardinality({j \in 1..Len(out[c]) : out[c][j] # PAD})], Len(out))
  IN emitted + Len(buf) = Sum(sizes, k)
BufferSmall == ~exhausted => Len(buf) < B          \* "only at most one batch can remain after slicing"
FinalExact == exhausted => (out = Expected /\ buf = <<>>)
AllButLastFull == \A c \in 1..(Len(out) - 1) : Len(out[c]) = B /\ \A j \in 1..B : out[c][j] # PAD
LastNonEmpty == \A c \in 1..Len(out) : Len(out[c]) > 0 /\ out[c][1] # PAD

Emit == exhausted => PrintT(<<"H", ToJson([sizes |-> sizes, B |-> B, pad |-> pad, steps |-> hist, expect |-> out])>>)
View == <<sizes, B, pad, k, buf, exhausted, out>>
=============================================================================
