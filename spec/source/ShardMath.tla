----------------------------- MODULE ShardMath -----------------------------
(***************************************************************************)
(* Pure operators shared by Shard.tla and Checkpoint.tla: the interval     *)
(* arithmetic of SequenceDataSource.shard (io.py:61-77), round-robin       *)
(* sharding of ShardedIterable, and rebuilding a source from its chain of  *)
(* ShardConfig records (io.py:94-102).                                     *)
(***************************************************************************)
EXTENDS Integers, Sequences, FiniteSets

\* ---------------------------------------------------------------- arithmetic
\* io.py:64-77: interval, remainder = divmod(end - start, k); the first `rem`
\* shards are one longer.  Written as the loop the code runs, not as a closed form.
RECURSIVE CutLoop(_, _, _, _, _, _)
CutLoop(j, i, start, q, r, adj) ==
  IF j > i THEN <<start, adj>>
  ELSE LET a == IF j < r THEN q + 1 ELSE q
       IN CutLoop(j + 1, i, IF j < i THEN start + a ELSE start, q, r, a)

Cut(l, h, i, k) ==          \* <<start, length>> of shard i of k of [l, h)
  LET q == (h - l) \div k
      r == (h - l) % k
  IN CutLoop(0, i, l, q, r, 0)

ShardLo(l, h, i, k, off) == Cut(l, h, i, k)[1] + off
ShardHi(l, h, i, k)      == Cut(l, h, i, k)[1] + Cut(l, h, i, k)[2]

Elems(l, h) == l..(h - 1)

\* ShardedIterable / DataIterator: shard i of k takes every k-th element.
RoundRobin(len, i, k, from) == {j \in 0..(len - 1) : j % k = i /\ j >= from}

\* Rebuilding a source from its recorded chain (io.py:94-102).
RECURSIVE FromChain(_, _)
FromChain(len, c) ==
  IF c = <<>> THEN <<0, len>>
  ELSE LET p == FromChain(len, SubSeq(c, 1, Len(c) - 1))
           s == c[Len(c)]
       IN <<ShardLo(p[1], p[2], s.i, s.k, s.off), ShardHi(p[1], p[2], s.i, s.k)>>

=============================================================================
