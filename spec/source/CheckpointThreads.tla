------------------------- MODULE CheckpointThreads --------------------------
(***************************************************************************)
(* Checkpoint / resume of a threaded pipeline iterator (C10 with           *)
(* num_threads > 0): MultiplexIterator over P shards of a sequence source  *)
(* (iter_utils.py:318-394) inside _RunnerIterator (transform.py:111-203).  *)
(*                                                                         *)
(* Worker w reads its shard (ShardMath.Cut) element by element: Read(w)    *)
(* advances the shard iterator and holds the element, Put(w) moves it into *)
(* the bounded result queue (capacity 3P, iter_utils.py:355), Deliver      *)
(* hands the queue head to the consumer (and the aggregate).  Capture      *)
(* records, per shard, the position the checkpoint stores:                 *)
(*   SourcePos = TRUE   the shard iterator's own position (as implemented: *)
(*                      MultiplexIterator.state reads iterator.state of    *)
(*                      the source iterators, which the workers have       *)
(*                      already advanced past buffered elements)           *)
(*   SourcePos = FALSE  the number of elements of that shard the consumer  *)
(*                      has received (what an exact checkpoint needs)      *)
(* Restore starts a fresh iterator from a captured record: positions from  *)
(* the record, empty queue, nothing in the workers' hands.                 *)
(*                                                                         *)
(* Property (Exact): at the end of a run that was restored from a capture, *)
(* the elements delivered before the capture together with the elements    *)
(* delivered after the restore are exactly the source, each once.          *)
(***************************************************************************)
EXTENDS Integers, Sequences, FiniteSets, TLC, ShardMath

CONSTANTS N, P, SourcePos

Cap == 3 * P
W == 0..(P - 1)
Lo(w) == Cut(0, N, w, P)[1]
Hi(w) == Cut(0, N, w, P)[1] + Cut(0, N, w, P)[2]
ShardOf(x) == CHOOSE w \in W : Lo(w) <= x /\ x < Hi(w)

VARIABLES pos,        \* [W -> next position the shard iterator will read]
          hand,       \* [W -> element read but not yet queued, -1 = none]
          q,          \* the result queue
          got,        \* elements delivered by the current iterator, in order
          before,     \* elements delivered before the capture that was restored (<<>> if not restored)
          saved,      \* captured record: [W -> position] or <<>> when none
          savedGot,   \* what had been delivered when `saved` was captured
          phase       \* "run1" | "run2" (after the restore) | "done"
vars == <<pos, hand, q, got, before, saved, savedGot, phase>>

Init == /\ pos = [w \in W |-> Lo(w)] /\ hand = [w \in W |-> -1] /\ q = <<>>
        /\ got = <<>> /\ before = <<>> /\ saved = <<>> /\ savedGot = <<>> /\ phase = "run1"

Read(w) == /\ phase # "done" /\ hand[w] = -1 /\ pos[w] < Hi(w)
           /\ hand' = [hand EXCEPT ![w] = pos[w]] /\ pos' = [pos EXCEPT ![w] = @ + 1]
           /\ UNCHANGED <<q, got, before, saved, savedGot, phase>>
Put(w) == /\ phase # "done" /\ hand[w] # -1 /\ Len(q) < Cap
          /\ q' = Append(q, hand[w]) /\ hand' = [hand EXCEPT ![w] = -1]
          /\ UNCHANGED <<pos, got, before, saved, savedGot, phase>>
Deliver == /\ phase # "done" /\ q # <<>>
           /\ got' = Append(got, Head(q)) /\ q' = Tail(q)
           /\ UNCHANGED <<pos, hand, before, saved, savedGot, phase>>
DeliveredOf(w) == Cardinality({i \in 1..Len(got) : ShardOf(got[i]) = w})
Capture == /\ phase = "run1" /\ saved = <<>>
           /\ saved' = [w \in W |-> IF SourcePos THEN pos[w] ELSE Lo(w) + DeliveredOf(w)]
           /\ savedGot' = got
           /\ UNCHANGED <<pos, hand, q, got, before, phase>>
Restore == /\ phase = "run1" /\ saved # <<>>
           /\ pos' = saved /\ hand' = [w \in W |-> -1] /\ q' = <<>>
           /\ before' = savedGot /\ got' = <<>> /\ phase' = "run2"
           /\ UNCHANGED <<saved, savedGot>>
Exhausted == q = <<>> /\ \A w \in W : hand[w] = -1 /\ pos[w] = Hi(w)
Finish == /\ phase = "run2" /\ Exhausted /\ phase' = "done"
          /\ UNCHANGED <<pos, hand, q, got, before, saved, savedGot>>
Stutter == phase = "done" /\ UNCHANGED vars
Next == (\E w \in W : Read(w) \/ Put(w)) \/ Deliver \/ Capture \/ Restore \/ Finish \/ Stutter
Spec == Init /\ [][Next]_vars

Range(s) == {s[i] : i \in 1..Len(s)}
NoDup(s) == \A i, j \in 1..Len(s) : i # j => s[i] # s[j]
\* nothing is delivered twice within one iterator, per-shard order is kept
LocalOrder == NoDup(got) /\ \A i, j \in 1..Len(got) : (i < j /\ ShardOf(got[i]) = ShardOf(got[j])) => got[i] < got[j]
\* the resumed run together with what was delivered before the capture is exactly the source
Exact == phase = "done" => (Range(before) \cup Range(got) = 0..(N - 1) /\ Range(before) \cap Range(got) = {} /\ NoDup(got))
\* (weaker) nothing is ever delivered twice across the restore
NoRepeat == Range(before) \cap Range(got) = {}
=============================================================================
