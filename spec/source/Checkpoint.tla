----------------------------- MODULE Checkpoint -----------------------------
(***************************************************************************)
(* Checkpoint / resume of recoverable iterators (C10).                     *)
(*                                                                         *)
(* An iterator walks a (possibly sharded / nested-sharded / round-robin)   *)
(* source.  At any point its state can be captured; any captured state can *)
(* later be restored into a fresh iterator, any number of times and from   *)
(* any generation.  `delivered` follows the lineage: it is what the user   *)
(* has received on the path that leads to the current iterator.            *)
(*                                                                         *)
(* Implementation level: the captured state is a ShardConfig whose         *)
(* start_index is computed by `CaptureOff` - the transcription of          *)
(* SequenceIterator.state (io.py:126-129) / DataIterator.state (185-187).  *)
(* Formula = "cumulative" is the working tree (after the repair recorded   *)
(* in known_findings.json), Formula = "pinned" is the pinned commit's      *)
(* formula, kept so that the sensitivity self-test can show TLC rejecting  *)
(* it.                                                                     *)
(*                                                                         *)
(* Property: Exact - delivered-so-far followed by what the current         *)
(* iterator will still deliver is exactly the uninterrupted sequence.      *)
(***************************************************************************)
EXTENDS ShardMath, TLC, Json

CONSTANTS MaxN, MaxK, MaxDepth, MaxOps, MaxSaves, MaxGens, Formula,
          MaxBad      \* unreadable source positions (a SequenceDataSource with ignore_error skips them)

VARIABLES n, kind,
          chain,      \* shard chain of the source, all offsets 0 (as built by the user)
          off0,       \* start_index of the ShardConfig the current iterator was built from
          pos,        \* abstract position: the next source index the iterator will look at
          idx,        \* the implementation's counter (SequenceIterator._index / DataIterator._index)
          delivered,  \* lineage of delivered elements
          saved,      \* sequence of [off, prefix]
          ended,      \* the current iterator has signalled exhaustion
          gens,       \* number of restores so far
          hist,
          bad         \* unreadable positions of the underlying data (kind "seq" only)
vars == <<n, kind, chain, off0, pos, idx, delivered, saved, ended, gens, hist, bad>>

Iv   == FromChain(n, chain)          \* <<lo0, hi>> of the shard without resume offset
Lo0  == Iv[1]
Hi   == Iv[2]
RRi  == chain[1].i
RRk  == chain[1].k

RECURSIVE SeqFromTo(_, _)
SeqFromTo(a, b) == IF a >= b THEN <<>> ELSE (IF a \in bad THEN <<>> ELSE <<a>>) \o SeqFromTo(a + 1, b)
RECURSIVE RRFrom(_)
RRFrom(j) == IF j >= n THEN <<>>
             ELSE IF j % RRk = RRi THEN <<j>> \o RRFrom(j + 1) ELSE RRFrom(j + 1)

Rest == IF kind = "seq" THEN SeqFromTo(pos, Hi) ELSE RRFrom(pos)
Full == IF kind = "seq" THEN SeqFromTo(Lo0, Hi) ELSE RRFrom(0)

\* ------------------------------------------------------------ transitions
Chains(d) == IF d = 0 THEN {<<>>}
             ELSE {<<>>} \cup {<<[i |-> i, k |-> k, off |-> 0]>> : k \in 1..MaxK, i \in 0..(MaxK - 1)}
RECURSIVE ChainsUpTo(_)
ChainsUpTo(d) ==
  IF d = 0 THEN {<<>>}
  ELSE ChainsUpTo(d - 1) \cup
       {Append(c, [i |-> i, k |-> k, off |-> 0]) :
          c \in {c \in ChainsUpTo(d - 1) : Len(c) = d - 1},
          k \in 1..MaxK, i \in 0..(MaxK - 1)}
ValidChain(c) == \A j \in 1..Len(c) : c[j].i < c[j].k

Init ==
  /\ n \in 0..MaxN
  /\ kind \in {"seq", "iter"}
  /\ chain \in {c \in ChainsUpTo(MaxDepth) : ValidChain(c)}
  /\ (kind = "iter" => Len(chain) = 1)
  /\ off0 = 0
  /\ pos = IF kind = "seq" THEN FromChain(n, chain)[1] ELSE 0
  /\ idx = pos
  /\ delivered = <<>>
  /\ saved = <<>>
  /\ ended = FALSE
  /\ gens = 0
  /\ hist = <<>>
  /\ bad \in {x \in SUBSET (0..(n - 1)) : Cardinality(x) <= MaxBad /\ (kind = "iter" => x = {})}

Deliver ==
  /\ ~ended
  /\ Rest # <<>>
  /\ LET e == Head(Rest) IN
       /\ delivered' = Append(delivered, e)
       /\ pos' = e + 1
       \* the implementation's counter: the position behind the element (every read, also a failed one, consumes its
       \* position); "count-delivered" is the earlier code, which counted the delivered elements only
       /\ idx' = IF Formula = "count-delivered" /\ kind = "seq" THEN idx + 1 ELSE e + 1
       /\ hist' = Append(hist, [op |-> "next", expect |-> e])
  /\ UNCHANGED <<n, kind, chain, off0, saved, ended, gens, bad>>

DeliverEnd ==
  /\ ~ended
  /\ Rest = <<>>
  /\ ended' = TRUE
  /\ pos' = IF kind = "iter" THEN n ELSE pos   \* DataIterator consumes the tail while searching
  /\ idx' = pos'
  /\ hist' = Append(hist, [op |-> "next", expect |-> -1])
  /\ UNCHANGED <<n, kind, chain, off0, delivered, saved, gens, bad>>

\* SequenceIterator.state: start_index relative to the shard's own start;
\* DataIterator.state: absolute index into the underlying iterable.
Max(a, b) == IF a > b THEN a ELSE b
CaptureOff ==
  IF kind = "iter"
  THEN (IF Formula = "cumulative" THEN Max(idx, off0)
        ELSE idx)                                 \* pinned: the lazy skip to start_index is forgotten
  ELSE IF Formula \in {"cumulative", "count-delivered"} THEN idx - (Lo0 + off0) + off0
  ELSE idx - (Lo0 + off0)                         \* pinned: offset of the restored start is lost

Capture ==
  /\ Len(saved) < MaxSaves
  /\ saved' = Append(saved, [off |-> CaptureOff, prefix |-> delivered])
  /\ hist' = Append(hist, [op |-> "capture", off |-> CaptureOff])
  /\ UNCHANGED <<n, kind, chain, off0, pos, idx, delivered, ended, gens, bad>>

Restore(j) ==
  /\ gens < MaxGens
  /\ gens' = gens + 1
  /\ j \in 1..Len(saved)
  /\ off0' = saved[j].off
  /\ pos' = IF kind = "seq" THEN Lo0 + saved[j].off ELSE saved[j].off
  /\ idx' = IF kind = "seq" THEN pos' ELSE 0     \* DataIterator restarts the underlying iterable
  /\ delivered' = saved[j].prefix
  /\ ended' = FALSE
  /\ hist' = Append(hist, [op |-> "restore", j |-> j])
  /\ UNCHANGED <<n, kind, chain, saved, bad>>

Next == Deliver \/ DeliverEnd \/ Capture \/ \E j \in 1..MaxSaves : Restore(j)
Spec == Init /\ [][Next]_vars

\* ------------------------------------------------------------ properties
Exact == delivered \o Rest = Full
PosInRange == kind = "seq" => (Lo0 <= pos /\ pos <= Hi)
\* every captured state denotes a position inside the shard
SavedInRange == \A j \in 1..Len(saved) :
                  kind = "seq" => (saved[j].off >= 0 /\ Lo0 + saved[j].off <= Hi)

\* ------------------------------------------------------------ export
Done == Len(hist) = MaxOps \/ ~ENABLED Next
HistBound == Len(hist) <= MaxOps
Emit == Done => PrintT(<<"H", ToJson([n |-> n, kind |-> kind, chain |-> chain, bad |-> bad, ops |-> hist,
                                       rest |-> Rest, full |-> Full])>>)
View == <<n, kind, chain, off0, pos, idx, delivered, saved, ended, gens, bad>>
=============================================================================
