"""Runs the real PrefetchedCourierServer request handlers from scheduler-managed request
threads (no sockets) and records the client-visible protocol events for trace validation
against spec/queue/Prefetch.tla."""
from __future__ import annotations

import contextlib
import itertools
import types as pytypes

from harness import fakecourier, qreplay, sched

EVENTS: list = []
_SERVER_IDS = itertools.count(1)


class GenError(RuntimeError):
  """Failure raised by a harness generator (a non-skippable type)."""


class TracedGen:
  """Generator number g: yields (g, 1..n), raises at `fail`, returns ('ret', g)."""

  def __init__(self, g, n, fail):
    self.g, self.n, self.fail, self.i = g, n, fail, 0

  def __iter__(self):
    return self

  def __next__(self):
    sched.yield_point(f'gen-next:{self.g}')
    if self.fail == self.i + 1:
      EVENTS.append(dict(ev='GenEnd', g=self.g, how='fail'))
      raise GenError(f'generator {self.g} fails at {self.fail}')
    if self.i == self.n:
      EVENTS.append(dict(ev='GenEnd', g=self.g, how='done'))
      raise StopIteration(('ret', self.g))
    self.i += 1
    EVENTS.append(dict(ev='Yield', g=self.g, i=self.i))
    return (self.g, self.i)


def make_gen(g, n, fail):
  return TracedGen(g, n, fail)


@contextlib.contextmanager
def installed():
  """iter_utils under the scheduler + courier_server on fake transport / scheduler threading."""
  from ml_metrics._src.chainables import courier_server
  with qreplay.installed():
    saved = (courier_server.courier, courier_server.threading, courier_server.signal)
    courier_server.courier = fakecourier
    thr = sched._Threading()
    orig_thread = sched.Thread

    class LoggedThread(orig_thread):
      def start(self):
        tgt = self._target

        def wrapped(*a, **k):
          try:
            return tgt(*a, **k)
          finally:
            g = getattr(a[0], 'g', None) if a else None
            if g is not None:
              EVENTS.append(dict(ev='ThreadEnd', g=g))
        self._target = wrapped
        super().start()

    thr.Thread = LoggedThread
    courier_server.threading = thr
    courier_server.signal = pytypes.SimpleNamespace(signal=lambda *a, **k: None, SIGINT=2, SIGTERM=15, SIGABRT=6)
    # garbage collection of servers of earlier runs must not call into the scheduler
    saved_del = courier_server.CourierServer.__del__
    courier_server.CourierServer.__del__ = lambda self: None
    try:
      yield courier_server
    finally:
      courier_server.courier, courier_server.threading, courier_server.signal = saved
      courier_server.CourierServer.__del__ = saved_del


def _classify(batch):
  items, mk = [], 'none'
  for x in batch:
    if isinstance(x, Exception):
      if isinstance(x, StopIteration):
        mk = 'stop'
      elif isinstance(x, TimeoutError):
        mk = 'timeout'
      else:
        mk = 'exc'
    else:
      items.append(list(x))
  return items, mk


def run_scenario(sc: dict, policy, max_steps=20000):
  """sc = dict(prefetch=P, clients=[dict(name, gen=(n, fail), k=batch size, max_calls)], shutdown=bool,
             ignore_error=bool).  Each client: init_generator then next_batch until an end marker."""
  from ml_metrics._src.chainables import lazy_fns
  del EVENTS[:]
  with installed() as courier_server:
    sch = sched.Scheduler(policy, max_steps=max_steps)
    sched.set_active(sch)
    out = dict(streams={}, ends={}, errors={})
    try:
      srv = courier_server.PrefetchedCourierServer(f'prefetch-{next(_SERVER_IDS)}', prefetch_size=sc.get('prefetch', 2),
                                                   ignore_error=bool(sc.get('ignore_error')))
      gid = itertools.count(1)

      def client(cl):
        def body():
          name = cl['name']
          out['streams'][name] = []
          try:
            g = None
            if cl.get('wait_install'):
              # a second request stream on the generator another client installs
              sch.yield_op(('pred', lambda: any(e['ev'] == 'Install' for e in EVENTS), 'wait-install'))
            if cl.get('gen') is not None:
              n, fail = cl['gen']
              EVENTS.append(dict(ev='InitCall', r=name))
              # the generator number is fixed when the handler actually installs it
              box = {}
              def factory():
                box['g'] = next(gid)
                EVENTS.append(dict(ev='Install', r=name, g=box['g'], len=n, fail=fail))
                return make_gen(box['g'], n, fail)
              ret = srv._init_iterator(lazy_fns.trace(factory)())
              ok = ret is None
              g = box.get('g', 0)
              EVENTS.append(dict(ev='InitRet', r=name, ok=ok))
              if not ok:
                out['ends'][name] = 'init-refused'
                return
            for _ in range(cl.get('max_calls', 8)):
              k = cl.get('k', 1)
              EVENTS.append(dict(ev='NextCall', r=name, k=k))
              batch = lazy_fns.pickler.loads(srv._next_batch(k))
              items, mk = _classify(batch)
              EVENTS.append(dict(ev='NextRet', r=name, n=len(items), mk=mk, items=items))
              out['streams'][name].append((items, mk))
              if mk != 'none':
                out['ends'][name] = mk
                return
            out['ends'][name] = 'no-marker'
          except sched.Aborted:
            raise
          except BaseException as e:  # pylint: disable=broad-exception-caught
            out['errors'][name] = f'{type(e).__name__}: {e}'
        return body

      def shutter():
        EVENTS.append(dict(ev='Shutdown'))
        srv._request_shutdown()
        # what CourierServer._shutdown_server does once the serving loop has seen the request
        if srv._shutdown_callback is not None:
          srv._shutdown_callback()
        EVENTS.append(dict(ev='ShutdownDone'))

      # generators wrap TracedGen so that the prefetch thread can be identified
      for cl in sc['clients']:
        sch.spawn(cl['name'], client(cl))
      if sc.get('shutdown'):
        sch.spawn('shutdown', shutter)
      failure = sch.run(timeout=30.0)
      out['failure'] = failure
      out['blocked'] = getattr(sch, 'blocked_at_end', {})
      out['events'] = list(EVENTS)
      out['schedule'] = [t for t, _ in sch.trace]
      return out
    finally:
      sched.set_active(None)
