"""Thin wrapper around TLC: run a spec+config, parse statistics, coverage, errors,
counter-examples and JSON histories printed by emit invariants.

Everything TLC writes goes to a scratch directory outside /verif and /repo and is removed
afterwards.  No result here is a verdict on the code; verdicts come from the replay /
trace-validation drivers that consume what this module returns.
"""
from __future__ import annotations

import dataclasses as dc
import json
import os
import re
import shutil
import subprocess
import tempfile
import time
from typing import Any

VERIF = os.path.dirname(os.path.dirname(os.path.abspath(__file__)))
SPEC_ROOT = os.path.join(VERIF, 'spec')
TLA_JAR = '/opt/veriftools/tla/tla2tools.jar'
TLA_DEPS = '/opt/veriftools/tla/CommunityModules-deps.jar'


class TlcError(RuntimeError):
  """Machinery failure (TLC crashed, parse error, timeout) – never a verdict."""


# ------------------------------------------------------------------ TLA+ value parser


class _P:

  def __init__(self, s: str):
    self.s = s
    self.i = 0

  def ws(self):
    while self.i < len(self.s) and self.s[self.i] in ' \t\r\n':
      self.i += 1

  def peek(self, tok: str) -> bool:
    self.ws()
    return self.s.startswith(tok, self.i)

  def eat(self, tok: str):
    self.ws()
    if not self.s.startswith(tok, self.i):
      raise ValueError(f'expected {tok!r} at {self.i}: {self.s[self.i:self.i+40]!r}')
    self.i += len(tok)

  def value(self) -> Any:
    self.ws()
    s = self.s
    if self.peek('<<'):
      self.eat('<<')
      out = []
      while not self.peek('>>'):
        out.append(self.expr())
        if self.peek(','):
          self.eat(',')
      self.eat('>>')
      return out
    if self.peek('{'):
      self.eat('{')
      out = []
      while not self.peek('}'):
        out.append(self.expr())
        if self.peek(','):
          self.eat(',')
      self.eat('}')
      return {'$set': out}
    if self.peek('['):
      self.eat('[')
      rec = {}
      while not self.peek(']'):
        self.ws()
        m = re.compile(r'[A-Za-z_][A-Za-z0-9_]*').match(s, self.i)
        if not m:
          raise ValueError(f'bad record field at {self.i}')
        key = m.group(0)
        self.i = m.end()
        self.eat('|->')
        rec[key] = self.expr()
        if self.peek(','):
          self.eat(',')
      self.eat(']')
      return rec
    if self.peek('('):
      self.eat('(')
      v = self.expr()
      self.eat(')')
      return v
    if self.peek('"'):
      self.ws()
      j = self.i + 1
      buf = []
      while s[j] != '"':
        if s[j] == '\\':
          j += 1
          buf.append({'n': '\n', 't': '\t'}.get(s[j], s[j]))
        else:
          buf.append(s[j])
        j += 1
      self.i = j + 1
      return ''.join(buf)
    m = re.compile(r'-?\d+').match(s, self.i)
    if m:
      self.i = m.end()
      return int(m.group(0))
    m = re.compile(r'[A-Za-z_][A-Za-z0-9_]*').match(s, self.i)
    if m:
      self.i = m.end()
      tok = m.group(0)
      if tok == 'TRUE':
        return True
      if tok == 'FALSE':
        return False
      return {'$mv': tok}
    raise ValueError(f'cannot parse value at {self.i}: {s[self.i:self.i+40]!r}')

  def expr(self) -> Any:
    """value, or function literal  a :> b @@ c :> d."""
    v = self.value()
    if self.peek(':>'):
      pairs = []
      key = v
      while True:
        self.eat(':>')
        val = self.value()
        pairs.append((key, val))
        if self.peek('@@'):
          self.eat('@@')
          key = self.value()
          continue
        break
      return {'$fn': pairs}
    return v


def parse_value(text: str) -> Any:
  p = _P(text)
  v = p.expr()
  p.ws()
  if p.i != len(p.s):
    raise ValueError(f'trailing text: {p.s[p.i:p.i+40]!r}')
  return v


def fn_to_dict(v: Any) -> dict:
  """Function value -> dict keyed by str(key) (model values / strings / ints)."""
  if isinstance(v, dict) and '$fn' in v:
    return {_key(k): val for k, val in v['$fn']}
  if isinstance(v, dict) and '$set' not in v and '$mv' not in v:
    return v
  if isinstance(v, list):  # sequences are functions 1..n
    return {str(i + 1): x for i, x in enumerate(v)}
  raise ValueError(f'not a function: {v!r}')


def _key(k: Any) -> str:
  if isinstance(k, dict) and '$mv' in k:
    return k['$mv']
  return str(k)


def parse_state(block: str) -> dict[str, Any]:
  """'/\\ x = 1\\n/\\ y = <<..>>' -> {'x': 1, 'y': [...]}"""
  out = {}
  parts = re.split(r'(?m)^/\\ ', block)
  for part in parts:
    part = part.strip()
    if not part:
      continue
    m = re.match(r'([A-Za-z_][A-Za-z0-9_]*)\s*=\s*', part)
    if not m:
      continue
    out[m.group(1)] = parse_value(part[m.end():])
  return out


# ------------------------------------------------------------------ result object


@dc.dataclass
class TlcResult:
  ok: bool = False                 # "No error has been found"
  error_kind: str = ''             # invariant | deadlock | action_property | temporal | assert | other
  error_name: str = ''
  generated: int = 0
  distinct: int = 0
  depth: int = 0
  wall_s: float = 0.0
  coverage: dict[str, tuple[int, int]] = dc.field(default_factory=dict)  # action -> (distinct, total)
  trace: list[dict[str, Any]] = dc.field(default_factory=list)     # counter-example states
  trace_actions: list[str] = dc.field(default_factory=list)
  histories: list[Any] = dc.field(default_factory=list)            # decoded "H" prints
  prints: list[Any] = dc.field(default_factory=list)               # other PrintT tuples
  raw_tail: str = ''
  cmd: str = ''
  timed_out: bool = False
  sim_done: bool = False

  def summary(self) -> dict[str, Any]:
    return dict(ok=self.ok, error=self.error_kind, name=self.error_name,
                generated=self.generated, distinct=self.distinct, depth=self.depth,
                wall_s=round(self.wall_s, 2))


_STATE_HDR = re.compile(r'^State (\d+): <(.*)>\s*$')
_COV = re.compile(r'^<([A-Za-z_][A-Za-z0-9_]*) line \d+, col \d+ to line \d+, col \d+ of module ([A-Za-z0-9_]+)>: (\d+):(\d+)\s*$')


def parse_output(text: str) -> TlcResult:
  r = TlcResult()
  lines = text.splitlines()
  r.raw_tail = '\n'.join([l[:300] for l in lines if not l.startswith('<<"')][-40:])
  i = 0
  n = len(lines)
  cur_state: list[str] | None = None
  states: list[str] = []
  actions: list[str] = []
  while i < n:
    ln = lines[i]
    if ln.startswith('<<"'):
      # possibly multi-line PrintT tuple; our emitters always fit on one line
      try:
        v = parse_value(ln.strip())
        if isinstance(v, list) and v and v[0] == 'H':
          r.histories.append(json.loads(v[1]))
        else:
          r.prints.append(v)
      except Exception:  # pylint: disable=broad-exception-caught
        r.prints.append(ln)
      i += 1
      continue
    if 'No error has been found' in ln:
      r.ok = True
    if ln.startswith('Simulation using seed'):
      r.sim_done = True
    m = re.match(r'^Error: Invariant (\S+) is violated', ln)
    if m:
      r.error_kind, r.error_name = 'invariant', m.group(1).rstrip('.')
    elif ln.startswith('Error: Deadlock reached'):
      r.error_kind = 'deadlock'
    elif ln.startswith('Error: Action property'):
      r.error_kind = 'action_property'
      m2 = re.search(r'Action property (\S+)', ln)
      r.error_name = m2.group(1) if m2 else ''
    elif ln.startswith('Error: Temporal properties were violated'):
      r.error_kind = 'temporal'
    elif 'The first argument of Assert evaluated to FALSE' in ln or ln.startswith('Error: Assert'):
      r.error_kind = r.error_kind or 'assert'
    elif ln.startswith('Error: The postcondition') or 'POSTCONDITION' in ln and 'Error' in ln:
      r.error_kind = r.error_kind or 'postcondition'
    elif ln.startswith('Error:') and not r.error_kind and 'behavior up to this point' not in ln:
      r.error_kind = 'other'
      r.error_name = ln[6:].strip()[:200]
    m = _STATE_HDR.match(ln)
    if m:
      if cur_state is not None:
        states.append('\n'.join(cur_state))
      cur_state = []
      actions.append(m.group(2))
      i += 1
      continue
    if cur_state is not None:
      if ln.startswith('/\\') or ln.startswith(' ') or ln.startswith('\t'):
        cur_state.append(ln)
        i += 1
        continue
      if ln.strip() == '':
        i += 1
        continue
      states.append('\n'.join(cur_state))
      cur_state = None
    m = _COV.match(ln)
    if m:
      r.coverage[m.group(1)] = (int(m.group(3)), int(m.group(4)))
    m = re.match(r'^(\d+) states generated, (\d+) distinct states found', ln)
    if m:
      r.generated, r.distinct = int(m.group(1)), int(m.group(2))
    m = re.match(r'^The depth of the complete state graph search is (\d+)', ln)
    if m:
      r.depth = int(m.group(1))
    i += 1
  if cur_state is not None:
    states.append('\n'.join(cur_state))
  for blk in states:
    try:
      r.trace.append(parse_state(blk))
    except Exception as e:  # pylint: disable=broad-exception-caught
      r.trace.append({'$unparsed': blk, '$err': str(e)})
  r.trace_actions = [re.sub(r' line \d+.*$', '', a) for a in actions]
  return r


# ------------------------------------------------------------------ running


def scratch_dir(prefix: str = 'verif_tlc_') -> str:
  base = os.environ.get('VERIF_SCRATCH') or tempfile.gettempdir()
  return tempfile.mkdtemp(prefix=prefix, dir=base)


def run(
    spec_dir: str,
    module: str,
    cfg: str,
    *,
    workers: int | str = 'auto',
    timeout: int = 600,
    coverage: bool = False,
    simulate: str | None = None,
    depth: int | None = None,
    seed: int | None = None,
    deadlock: bool = True,
    env: dict[str, str] | None = None,
    extra: list[str] | None = None,
    dfs_queue: bool = False,
    java_opts: list[str] | None = None,
    mc_defs: dict[str, str] | None = None,
    dump_dot: str | None = None,
) -> TlcResult:
  """Runs TLC on spec_dir/module.tla with config text or file name `cfg`."""
  spec_dir = spec_dir if os.path.isabs(spec_dir) else os.path.join(SPEC_ROOT, spec_dir)
  scratch = scratch_dir()
  try:
    if '\n' in cfg or cfg.strip().startswith(('SPECIFICATION', 'INIT', 'CONSTANT')):
      cfg_path = os.path.join(scratch, f'{module}_gen.cfg')
      with open(cfg_path, 'w') as f:
        f.write(cfg)
    else:
      cfg_path = cfg if os.path.isabs(cfg) else os.path.join(spec_dir, cfg)
    target = os.path.join(spec_dir, module + '.tla')
    if mc_defs:
      # wrapper module in scratch: EXTENDS <module>, one definition per entry (for function-valued constants)
      mc_name = f'MC_{module}'
      with open(os.path.join(scratch, mc_name + '.tla'), 'w') as f:
        f.write(f'---- MODULE {mc_name} ----\nEXTENDS {module}\n')
        for k, v in mc_defs.items():
          f.write(f'{k} == {v}\n')
        f.write('====\n')
      target = os.path.join(scratch, mc_name + '.tla')
    jopts = ['-XX:+UseSerialGC', '-Xmx12g', '-Xss16m']  # ParallelGC/G1 burn >10x sys time in this VM
    if dfs_queue:
      jopts.append('-Dtlc2.tool.queue.IStateQueue=StateDeque')
    if mc_defs:
      jopts.append(f'-DTLA-Library={spec_dir}')
    jopts += java_opts or []
    cmd = ['java', *jopts, '-cp', f'{TLA_JAR}:{TLA_DEPS}', 'tlc2.TLC',
           '-workers', str(workers), '-metadir', os.path.join(scratch, 'meta'),
           '-noGenerateSpecTE', '-config', cfg_path]
    if coverage:
      cmd += ['-coverage', '1']
    if simulate is not None:
      cmd += ['-simulate', simulate]
    if depth is not None:
      cmd += ['-depth', str(depth)]
    if seed is not None:
      cmd += ['-seed', str(seed)]
    if not deadlock:
      cmd += ['-deadlock']
    if dump_dot:
      cmd += ['-dump', 'dot,actionlabels', dump_dot]
    cmd += extra or []
    cmd += [target]
    e = dict(os.environ)
    e.update(env or {})
    t0 = time.time()
    out_path = os.path.join(scratch, 'out.txt')
    timed_out = False
    with open(out_path, 'w') as outf:
      p = subprocess.Popen(cmd, stdout=outf, stderr=subprocess.STDOUT, cwd=spec_dir, env=e)
      try:
        p.wait(timeout=timeout)
      except subprocess.TimeoutExpired:
        p.kill()
        p.wait()
        timed_out = True
    with open(out_path, errors='replace') as f:
      text = f.read()
    res = parse_output(text)
    if simulate is not None and (res.sim_done or timed_out) and not res.error_kind:
      res.ok = True
    res.wall_s = time.time() - t0
    res.cmd = ' '.join(cmd)
    res.timed_out = timed_out
    if timed_out and simulate is None:
      raise TlcError(f'TLC timed out after {timeout}s: {module} \n{res.raw_tail}')
    if not res.ok and not res.error_kind and not timed_out:
      raise TlcError(f'TLC ended without verdict: {module}\n{res.raw_tail}')
    if res.error_kind == 'other':
      raise TlcError(f'TLC error: {res.error_name}\n{res.raw_tail}')
    return res
  finally:
    shutil.rmtree(scratch, ignore_errors=True)


def require_covered(res: TlcResult, actions: list[str]) -> list[str]:
  """Returns the actions among `actions` that were never taken (vacuity guard)."""
  missing = []
  for a in actions:
    d, t = res.coverage.get(a, (0, 0))
    if t == 0:
      missing.append(a)
  return missing


def cfg_text(spec: str = 'Spec', *, init: str | None = None, next_: str | None = None,
             constants: dict[str, Any] | None = None, invariants: list[str] = (),
             properties: list[str] = (), constraints: list[str] = (), view: str | None = None,
             symmetry: str | None = None, deadlock: bool | None = None,
             postcondition: str | None = None, action_constraints: list[str] = ()) -> str:
  out = []
  if init:
    out += [f'INIT {init}', f'NEXT {next_}']
  else:
    out.append(f'SPECIFICATION {spec}')
  if constants:
    out.append('CONSTANTS')
    for k, v in constants.items():
      out.append(f'  {k} = {tla(v)}' if not (isinstance(v, str) and v.startswith('<-')) else f'  {k} {v}')
  for inv in invariants:
    out.append(f'INVARIANT {inv}')
  for p in properties:
    out.append(f'PROPERTY {p}')
  for c in constraints:
    out.append(f'CONSTRAINT {c}')
  for c in action_constraints:
    out.append(f'ACTION_CONSTRAINT {c}')
  if view:
    out.append(f'VIEW {view}')
  if symmetry:
    out.append(f'SYMMETRY {symmetry}')
  if deadlock is not None:
    out.append(f'CHECK_DEADLOCK {"TRUE" if deadlock else "FALSE"}')
  if postcondition:
    out.append(f'POSTCONDITION {postcondition}')
  return '\n'.join(out) + '\n'


class MV(str):
  """A model value / raw TLA+ expression to be emitted unquoted."""


def tla(v: Any) -> str:
  """Python value -> TLA+ literal usable in a cfg CONSTANTS section."""
  if isinstance(v, MV):
    return str(v)
  if isinstance(v, bool):
    return 'TRUE' if v else 'FALSE'
  if isinstance(v, int):
    return str(v)
  if isinstance(v, str):
    return '"' + v.replace('\\', '\\\\').replace('"', '\\"') + '"'
  if isinstance(v, (set, frozenset)):
    return '{' + ', '.join(tla(x) for x in sorted(v, key=repr)) + '}'
  if isinstance(v, (list, tuple)):
    return '<<' + ', '.join(tla(x) for x in v) + '>>'
  if isinstance(v, dict):
    return '[' + ', '.join(f'{k} |-> {tla(x)}' for k, x in v.items()) + ']'
  raise TypeError(f'cannot render {v!r}')
