"""Labelled state graphs dumped by TLC (`-dump dot,actionlabels`): parsing, edge-cover paths,
random walks.  Node labels carry the full state, edge labels the action with its process id."""
from __future__ import annotations

import collections
import random
import re

from harness import tlc

_NODE = re.compile(r'^(-?\d+) \[label="(.*?)",(?:style = filled|tooltip=)')
_EDGE = re.compile(r'^(-?\d+) -> (-?\d+) \[label="(.*?)",color')
_ACT = re.compile(r'^([A-Za-z_0-9]+)(?:\((.*)\))?$')


def _unescape(s: str) -> str:
  return s.replace('\\n', '\n').replace('\\"', '"').replace('\\\\', '\\')


class Graph:

  def __init__(self):
    self.labels: dict[int, str] = {}
    self.init: list[int] = []
    self.out: dict[int, list[tuple[int, str, str]]] = collections.defaultdict(list)   # src -> [(dst, action, proc)]
    self._state_cache: dict[int, dict] = {}
    self.n_edges = 0

  @classmethod
  def from_dot(cls, path: str) -> 'Graph':
    g = cls()
    with open(path, errors='replace') as f:
      for line in f:
        m = _EDGE.match(line)
        if m:
          src, dst = int(m.group(1)), int(m.group(2))
          lab = _unescape(m.group(3))
          am = _ACT.match(lab)
          action = am.group(1) if am else lab
          proc = ''
          if am and am.group(2):
            proc = am.group(2).split(',')[0].strip().strip('"')
          if action == 'Terminated':
            continue
          g.out[src].append((dst, action, proc))
          g.n_edges += 1
          continue
        m = _NODE.match(line)
        if m:
          nid = int(m.group(1))
          if nid not in g.labels:
            g.labels[nid] = m.group(2)
          if 'style = filled' in line[-40:]:
            g.init.append(nid)
    return g

  def state(self, nid: int) -> dict:
    st = self._state_cache.get(nid)
    if st is None:
      st = tlc.parse_state(_unescape(self.labels[nid]))
      self._state_cache[nid] = st
    return st

  def terminal(self, nid: int) -> bool:
    return not self.out.get(nid)

  def reachable_terminals(self, nid: int, limit: int = 400000) -> list[int]:
    """Terminal nodes reachable from nid (breadth first, bounded)."""
    seen, todo, terms = {nid}, [nid], []
    while todo and len(seen) < limit:
      n = todo.pop()
      outs = self.out.get(n)
      if not outs:
        terms.append(n)
        continue
      for dst, _, _ in outs:
        if dst not in seen:
          seen.add(dst)
          todo.append(dst)
    return terms

  # ---------------------------------------------------------------- paths
  def random_walk(self, rnd: random.Random, max_len: int = 2000):
    nid = rnd.choice(self.init)
    path = []
    for _ in range(max_len):
      outs = self.out.get(nid)
      if not outs:
        break
      dst, action, proc = rnd.choice(outs)
      path.append((nid, dst, action, proc))
      nid = dst
    return path

  def edge_cover(self, rnd: random.Random, max_paths: int | None = None, budget_s: float | None = None):
    """Yields paths (lists of (src, dst, action, proc)) from an initial node to a terminal node that
    together cover every edge (greedy: prefer uncovered edges, otherwise head for the nearest one)."""
    import time
    t0 = time.time()
    covered: set[tuple[int, int, str, str]] = set()
    total = self.n_edges
    # reverse adjacency for distance-to-uncovered computation
    rev = collections.defaultdict(list)
    for src, outs in self.out.items():
      for dst, _, _ in outs:
        rev[dst].append(src)
    uncovered_out = {src: len(outs) for src, outs in self.out.items()}
    npaths = 0
    dist: dict[int, int] = {}
    dirty = True
    while len(covered) < total:
      if max_paths is not None and npaths >= max_paths:
        break
      if budget_s is not None and time.time() - t0 > budget_s:
        break
      if dirty:
        # multi-source BFS backwards from nodes that still have uncovered out-edges
        dist = {}
        dq = collections.deque()
        for src, cnt in uncovered_out.items():
          if cnt > 0:
            dist[src] = 0
            dq.append(src)
        while dq:
          x = dq.popleft()
          for y in rev.get(x, ()):
            if y not in dist:
              dist[y] = dist[x] + 1
              dq.append(y)
        dirty = False
      nid = rnd.choice(self.init)
      if nid not in dist:
        break
      path = []
      new_here = 0
      steps = 0
      while True:
        outs = self.out.get(nid)
        if not outs:
          break
        steps += 1
        fresh = [e for e in outs if (nid, e[0], e[1], e[2]) not in covered]
        if fresh:
          dst, action, proc = rnd.choice(fresh)
          covered.add((nid, dst, action, proc))
          uncovered_out[nid] -= 1
          new_here += 1
        else:
          # go towards the nearest node with uncovered out-edges; if none is reachable, finish the run
          best = [e for e in outs if e[0] in dist]
          if best and new_here < 400 and steps < 4000:
            dmin = min(dist[e[0]] for e in best)
            dst, action, proc = rnd.choice([e for e in best if dist[e[0]] == dmin])
            if dist.get(dst, 0) == 0 and uncovered_out.get(dst, 0) == 0:
              dirty = True        # stale distance information
              dst, action, proc = rnd.choice(outs)
          else:
            dst, action, proc = rnd.choice(outs)
        path.append((nid, dst, action, proc))
        nid = dst
        if steps > 6000:
          break
      dirty = True
      npaths += 1
      yield path
    self.covered_edges = len(covered)
