"""Shared plumbing of all checks: tiers/seeds, violation bookkeeping, known findings,
evidence files, exit codes.

Exit codes: 0 property held on everything explored (KNOWN-FINDING lines allowed),
1 at least one VIOLATION not listed in known_findings.json, 2 machinery failure.
"""
from __future__ import annotations

import hashlib
import json
import os
import re
import sys
import time
import traceback
from typing import Any, Callable

VERIF = os.path.dirname(os.path.dirname(os.path.abspath(__file__)))
REPO = os.environ.get('VERIF_REPO', '/repo')
GUARD = 'ML_METRICS_VERIF'


def setup_repo_path():
  """Make `import ml_metrics` resolve to the working tree under test."""
  os.environ.setdefault(GUARD, '1')
  if REPO not in sys.path:
    sys.path.insert(0, REPO)
  import logging as _pylog
  try:
    from absl import logging as absl_logging
    absl_logging.set_verbosity(absl_logging.FATAL)
    absl_logging.use_absl_handler()
    absl_logging.get_absl_handler().setLevel(_pylog.CRITICAL + 10)
  except Exception:  # pylint: disable=broad-exception-caught
    pass
  _pylog.disable(_pylog.CRITICAL)


def _jsonable(x: Any) -> Any:
  try:
    import numpy as np
  except Exception:  # pylint: disable=broad-exception-caught
    np = None
  if isinstance(x, dict):
    return {str(k): _jsonable(v) for k, v in x.items()}
  if isinstance(x, (list, tuple)):
    return [_jsonable(v) for v in x]
  if isinstance(x, (set, frozenset)):
    return sorted((_jsonable(v) for v in x), key=repr)
  if np is not None and isinstance(x, np.ndarray):
    return _jsonable(x.tolist())
  if np is not None and isinstance(x, np.generic):
    return _jsonable(x.item())
  if isinstance(x, float):
    if x != x:
      return 'NaN'
    if x in (float('inf'), float('-inf')):
      return 'inf' if x > 0 else '-inf'
    return x
  if isinstance(x, (int, str, bool)) or x is None:
    return x
  return repr(x)


class Check:
  """One run of one property's check."""

  def __init__(self, prop: str, level: str = 'model_checking'):
    self.prop = prop
    self.level = level
    self.tier = os.environ.get('VERIF_TIER', 'quick')
    if self.tier not in ('quick', 'thorough'):
      self.tier = 'quick'
    self.seed = int(os.environ.get('VERIF_SEED', '0') or 0)
    self.t0 = time.time()
    self.violations: list[dict[str, Any]] = []
    self.known_hits: dict[str, int] = {}
    self.coverage: dict[str, Any] = {
        'states': 0, 'transitions': 0, 'traces_validated_against_impl': 0,
        'samples': [], 'exhaustive': False,
    }
    self.assumptions: list[str] = []
    self.notes: list[str] = []
    self._known = self._load_known()
    self.max_violation_files = int(os.environ.get('VERIF_MAX_CLASSES', '12'))   # one replay file per violation class

  # ---- known findings
  def _load_known(self):
    path = os.path.join(VERIF, 'known_findings.json')
    if not os.path.exists(path):
      return []
    with open(path) as f:
      data = json.load(f)
    return [e for e in data.get('findings', []) if e.get('property') == self.prop
            and e.get('status', 'open') == 'open']

  def _match_known(self, sig: str):
    for e in self._known:
      if re.fullmatch(e['signature'], sig):
        return e
    return None

  # ---- accounting helpers
  def add_tlc(self, res, label: str = ''):
    self.coverage['states'] += res.distinct
    self.coverage['transitions'] += res.generated
    self.coverage.setdefault('tlc_runs', []).append(dict(label=label, **res.summary()))

  def add_samples(self, samples, limit: int = 4):
    cur = self.coverage['samples']
    for s in samples:
      if len(cur) >= limit:
        break
      cur.append(_jsonable(s))

  def count(self, key: str, n: int = 1):
    self.coverage[key] = self.coverage.get(key, 0) + n

  def replayed(self, n: int = 1):
    self.coverage['traces_validated_against_impl'] += n

  # ---- verdicts
  def violation(self, sig: str, message: str, replay: dict[str, Any]):
    """Record a violation shown on the real code.  `sig` identifies the failing class."""
    known = self._match_known(sig)
    if known is not None:
      self.known_hits[known['id']] = self.known_hits.get(known['id'], 0) + 1
      return
    v = dict(sig=sig, message=message)
    seen = {x['sig'] for x in self.violations}
    if sig not in seen and len(seen) < self.max_violation_files:
      rdir = os.environ.get('VERIF_REPLAY_DIR') or os.path.join(VERIF, 'replays')
      os.makedirs(rdir, exist_ok=True)
      body = dict(property=self.prop, tier=self.tier, seed=self.seed, sig=sig,
                  message=message, **_jsonable(replay))
      h = hashlib.sha1(json.dumps(body, sort_keys=True, default=repr).encode()).hexdigest()[:10]
      path = os.path.join(rdir, f'{self.prop}_{h}.json')
      with open(path, 'w') as f:
        json.dump(body, f, indent=1, sort_keys=True, default=repr)
      v['replay'] = path
      print(f'VIOLATION property={self.prop} replay={path}')
      print(f'  {sig}: {message}'[:600])
    self.violations.append(v)

  def machinery_failure(self, msg: str):
    print(f'MACHINERY-FAILURE property={self.prop}: {msg}', file=sys.stderr)
    self._write_evidence(extra={'machinery_failure': msg[:500]})
    _hard_exit(2)

  def _write_evidence(self, extra=None):
    cov = dict(self.coverage)
    cov['known_findings_hit'] = dict(self.known_hits)
    sigs: dict[str, int] = {}
    for v in self.violations:
      sigs[v['sig']] = sigs.get(v['sig'], 0) + 1
    cov['violation_classes'] = sigs
    if extra:
      cov.update(extra)
    if not cov['samples']:
      cov['samples'] = ['(none recorded)']
    cov['states'] = max(int(cov['states']), 0)
    ev = dict(property_id=self.prop, tier=self.tier, seed=self.seed, level=self.level,
              coverage=_jsonable(cov), assumptions=self.assumptions,
              wall_s=round(time.time() - self.t0, 2), violations=len(self.violations))
    if self.notes:
      ev['notes'] = self.notes
    edir = os.environ.get('VERIF_EVIDENCE_DIR') or os.path.join(VERIF, 'evidence')
    os.makedirs(edir, exist_ok=True)
    with open(os.path.join(edir, f'{self.prop}.json'), 'w') as f:
      json.dump(ev, f, indent=1, sort_keys=True, default=repr)

  def finish(self):
    for e in self._known:
      if e['id'] in self.known_hits:
        print(f"KNOWN-FINDING: property={self.prop} {e['id']}: {e['what']} "
              f"(hit {self.known_hits[e['id']]}x this run)")
      else:
        # A listed finding that no longer reproduces is reported, not hidden.
        print(f"NOTE property={self.prop}: listed finding {e['id']} did not reproduce in this run")
    self._write_evidence()
    n = len(self.violations)
    sigs: dict[str, int] = {}
    for v in self.violations:
      sigs[v['sig']] = sigs.get(v['sig'], 0) + 1
    for sg, c in sorted(sigs.items()):
      print(f'  violation class {sg}: {c}x')
    cov = self.coverage
    print(f'{self.prop} [{self.tier}] states={cov["states"]} transitions={cov["transitions"]} '
          f'replayed={cov["traces_validated_against_impl"]} violations={n} '
          f'known={sum(self.known_hits.values())} wall={time.time()-self.t0:.1f}s')
    _hard_exit(1 if n else 0)


def _replay_main(prop, body, level, path):
  """bin/check <ID> --replay <file>: re-executes the recorded failing input.  Queue violations are
  re-run directly from their recorded schedule; every other kind re-runs the deterministic check at
  the recorded tier/seed and reports whether the recorded violation class recurs.  Exit 1 = reproduced."""
  import tempfile
  with open(path) as f:
    rec = json.load(f)
  print(f"REPLAY property={prop} class={rec.get('sig')}\n  recorded: {str(rec.get('message'))[:500]}")
  if rec.get('kind') == 'queue' and rec.get('schedule') is not None and rec.get('config'):
    setup_repo_path()
    from harness import qcheck, qreplay, sched
    cfg = rec['config']
    for k in ('prods', 'cons'):
      cfg[k] = {n: tuple(v) for n, v in cfg[k].items()}
    if cfg.get('shared'):
      cfg['shared'] = tuple(cfg['shared'])
    o = qreplay.run_config(cfg, sched.Scripted(rec['schedule']))
    verdicts = qcheck.judge(cfg, o)
    print('  outcome now:', json.dumps(_jsonable(o.summary()), default=repr)[:800])
    same = _jsonable(o.summary()) == rec.get('outcome')
    for sg, msg in verdicts:
      print(f'  verdict now: {sg}: {msg}'[:500])
    if verdicts or (same and str(rec.get('sig', '')).startswith('outcome-not-allowed')):
      print(f'VIOLATION property={prop} replay={path}')
      sys.exit(1)
    print('NOT-REPRODUCED')
    sys.exit(0)
  scratch = tempfile.mkdtemp(prefix='verif_replay_')
  os.environ['VERIF_EVIDENCE_DIR'] = scratch
  os.environ['VERIF_REPLAY_DIR'] = scratch
  os.environ['VERIF_TIER'] = rec.get('tier', 'quick')
  os.environ['VERIF_SEED'] = str(rec.get('seed', 0))
  chk = Check(prop, level)
  chk._known = []      # a replay reports what happens, listed or not
  try:
    body(chk)
  except SystemExit:
    pass
  finally:
    import shutil
    hit = [v for v in chk.violations if v['sig'] == rec.get('sig')]
    shutil.rmtree(scratch, ignore_errors=True)
  if hit:
    print(f"  reproduced {len(hit)}x: {hit[0]['message'][:500]}")
    print(f'VIOLATION property={prop} replay={path}')
    sys.exit(1)
  print('NOT-REPRODUCED')
  sys.exit(0)


def _hard_exit(code):
  """Exit without joining threads: a helper thread the library under test leaked (the very thing some checks report) must
  not keep the check process alive after its verdict is written."""
  sys.stdout.flush()
  sys.stderr.flush()
  os._exit(code)


def main(prop: str, body: Callable[[Check], None], level: str = 'model_checking'):
  if os.environ.get('VERIF_REPLAY'):
    _replay_main(prop, body, level, os.environ['VERIF_REPLAY'])
  chk = Check(prop, level)
  # watchdog: a check never hangs - after the limit it reports a failure of the machinery (exit 2), not a verdict
  import threading as _threading
  limit = float(os.environ.get('VERIF_WATCHDOG_S', '1500' if chk.tier == 'quick' else '21600'))

  def _expired():
    print(f'MACHINERY-FAILURE property={prop}: no verdict within {limit:.0f}s (watchdog)', file=sys.stderr)
    _hard_exit(2)
  wd = _threading.Timer(limit, _expired)
  wd.daemon = True
  wd.start()
  try:
    body(chk)
  except SystemExit:
    raise
  except Exception as e:  # pylint: disable=broad-exception-caught
    traceback.print_exc()
    chk.machinery_failure(f'{type(e).__name__}: {e}')
  chk.finish()
