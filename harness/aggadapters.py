"""Adapters that let one abstract add/merge history (spec/algebra/MergeAlgebra.tla) be replayed on
every shipped mergeable aggregate.  An adapter knows how to build a fresh accumulator, how to
turn abstract dataset items into one batch of the metric's inputs, how to merge, and how to
canonicalise a result for comparison.  Each adapter carries several concrete datasets
("pools": 4 rows each) chosen for the case analysis of that metric (NaN kinds, ragged rows,
labels missing from a shard, ...)."""
from __future__ import annotations

import collections
import math
import operator
from typing import Any

import numpy as np

NAN = float('nan')


def canon(x: Any):
  """Result -> nested tuples of python scalars (floats rounded to 9 significant digits, NaN = 'nan')."""
  if isinstance(x, dict):
    return ('dict', tuple(sorted((str(k), canon(v)) for k, v in x.items())))
  if isinstance(x, np.ndarray):
    return ('arr', tuple(x.shape), canon(x.tolist()))
  if isinstance(x, (list, tuple)):
    fields = getattr(x, '_fields', None)
    return ('seq',) + tuple(canon(v) for v in x)
  if isinstance(x, (np.floating, float)):
    x = float(x)
    if math.isnan(x):
      return 'nan'
    if math.isinf(x):
      return 'inf' if x > 0 else '-inf'
    if x == 0:
      return 0.0
    return float(f'{x:.9g}')
  if isinstance(x, (np.integer, int)) and not isinstance(x, bool):
    return float(int(x))
  if isinstance(x, (np.bool_, bool)):
    return bool(x)
  if isinstance(x, (str, bytes)) or x is None:
    return x
  if isinstance(x, collections.Counter):
    return ('counter', tuple(sorted((str(k), v) for k, v in x.items())))
  return ('obj', repr(x))


def close(a, b, rel=1e-7, abs_=1e-9) -> bool:
  """Structural comparison of two canonical values with float tolerance."""
  if isinstance(a, tuple) and isinstance(b, tuple):
    return len(a) == len(b) and all(close(x, y, rel, abs_) for x, y in zip(a, b))
  if isinstance(a, float) and isinstance(b, float):
    return abs(a - b) <= max(abs_, rel * max(abs(a), abs(b)))
  return a == b


class Adapter:
  name = ''
  pools: list[list[Any]] = []
  order_matters = True       # result may depend on item order (order-carrying accumulators)
  supports_empty_batch = False
  per_example = False        # add() returns one value per example (checked against singleton batches)

  def fresh(self):
    raise NotImplementedError

  def batch_args(self, rows):
    """rows (list of pool rows) -> positional args of add()."""
    raise NotImplementedError

  def add(self, acc, rows):
    return acc.add(*self.batch_args(rows))

  def merge(self, a, b):
    a.merge(b)
    return a

  def merge_states(self, accs):
    from ml_metrics._src.aggregates import base
    fn = base.MergeableMetricAggFn(_Maker(self.fresh))
    return fn.merge_states(accs)

  def result(self, acc):
    return canon(acc.result())

  def example_values(self, out, n):
    """Per-example rows out of what add() returned (per_example adapters)."""
    raise NotImplementedError


class _Maker:
  def __init__(self, f):
    self.f = f

  def make(self):
    return self.f()


# ------------------------------------------------------------------ rolling stats


class _Col(Adapter):
  """Single numeric input; rows are scalars (1-D batches) or vectors (2-D batches)."""
  cls = None
  kwargs: dict = {}

  def fresh(self):
    return self.cls(**self.kwargs)

  def batch_args(self, rows):
    return (np.array(rows, dtype=float),)


SCALARS = [[1.0, 2.0, 4.0, -3.0], [NAN, 2.0, NAN, 5.0], [NAN, NAN, 1.0, 2.0], [3.0, 3.0, 3.0, 3.0],
           [1e8 + 1.0, 1e8 + 2.0, 1e8 + 4.0, 1e8 - 3.0]]     # large offset, small spread: cancellation-prone
VECTORS = [[[1.0, 2.0], [3.0, 4.0], [5.0, 6.0], [7.0, 9.0]],
           [[NAN, 1.0], [NAN, 2.0], [3.0, 3.0], [4.0, 5.0]],      # column 0 all-NaN in early batches
           [[NAN, NAN], [1.0, NAN], [2.0, 5.0], [NAN, 6.0]],
           [[1.0, NAN], [2.0, NAN], [NAN, NAN], [4.0, NAN]],      # a column that never has data
           [[1e8 + 1.0, -1e6 + 0.5], [1e8 + 2.0, -1e6 + 0.25], [1e8 + 4.0, -1e6], [1e8 - 3.0, -1e6 + 2.0]]]


def _rs():
  from ml_metrics._src.aggregates import rolling_stats
  return rolling_stats


class Mean1D(_Col):
  name = 'Mean/1d'
  pools = SCALARS

  def fresh(self):
    return _rs().Mean()


class Mean2D(Mean1D):
  name = 'Mean/2d'
  pools = VECTORS


MIXED = [[[1, 2], [3, 4], [0.5, 6.5], [7.25, 9.0]], [[0.5, 1.0], [3, 4], [5, 6], [7.5, 9.5]]]      # integer rows and float rows


class Mean2DMixed(Mean1D):
  """Batches whose dtype follows their rows (all-integer batches next to float ones)."""
  name = 'Mean/2d-int-then-float'
  pools = MIXED

  def batch_args(self, rows):
    return (np.array(rows),)


class MeanVar1D(_Col):
  name = 'MeanAndVariance/1d'
  pools = SCALARS

  def fresh(self):
    return _rs().MeanAndVariance()

  def result(self, acc):
    r = acc.result()
    return canon((r.count, r.mean, r.var))


class MeanVar2D(MeanVar1D):
  name = 'MeanAndVariance/2d'
  pools = VECTORS


class MeanVar2DMixed(MeanVar1D):
  name = 'MeanAndVariance/2d-int-then-float'
  pools = MIXED

  def batch_args(self, rows):
    return (np.array(rows),)


class Var1D(_Col):
  name = 'Var/1d'
  pools = SCALARS[:1] + SCALARS[3:]

  def fresh(self):
    return _rs().Var()


class Hist(_Col):
  name = 'Histogram'
  pools = [[0.0, 1.0, 1.5, 4.0], [3.9, 4.0, 0.0, 2.0], [5.0, -1.0, 2.0, 2.0]]

  def fresh(self):
    return _rs().Histogram(range=(0, 4), bins=4)

  def result(self, acc):
    r = acc.result()
    return canon((r.hist, r.bin_edges))


class HistWeighted(Hist):
  name = 'Histogram/weighted'
  # rows are (value, weight); signed weights: a batch whose weights cancel is still a batch
  pools = [[(0.5, 1.0), (1.5, -1.0), (2.5, 0.5), (3.5, 2.0)], [(0.5, 2.0), (0.5, -2.0), (1.5, 1.0), (1.5, -1.0)]]

  def batch_args(self, rows):
    return (np.array([r[0] for r in rows], dtype=float), np.array([r[1] for r in rows], dtype=float))


class HistEdges(Hist):
  name = 'Histogram/edges'

  def fresh(self):
    return _rs().Histogram(bins=(0, 1, 2, 4))


class CounterA(Adapter):
  name = 'Counter'
  pools = [['a', 'b', 'a', 'c'], ['x', 'x', 'x', 'x'], [1, 2, 1, 3]]
  order_matters = False

  def fresh(self):
    return _rs().Counter()

  def batch_args(self, rows):
    return (list(rows),)


class MinMax(_Col):
  name = 'MinMaxAndCount'
  pools = [[1.0, 2.0, 4.0, -3.0], [5.0, 5.0, 5.0, 5.0], [0.0, -1.0, 7.0, 2.0], [-3.0, -1.0, -7.0, -2.5]]      # the last: all negative

  def fresh(self):
    return _rs().MinMaxAndCount()

  def result(self, acc):
    r = acc.result()
    return canon((r.count, r.min, r.max))


class MinMaxAxis(MinMax):
  """axis=1: a batch is (features, examples); min / max per feature over all examples of all batches."""
  name = 'MinMaxAndCount/axis1'
  pools = [[[1.0, 7.0, -2.0], [0.0, 30.0, -1.0], [6.0, 9.0, -5.0], [3.0, 8.0, -4.0]]]

  def fresh(self):
    return _rs().MinMaxAndCount(axis=1)

  def batch_args(self, rows):
    return (np.array(rows, dtype=float).T,)


class ValueAcc(Adapter):
  name = 'ValueAccumulator/concat'
  pools = [[(1, 'a'), (2, 'b'), (3, 'c'), (4, 'd')]]

  def fresh(self):
    return _rs().ValueAccumulator(concat_fn=operator.add)

  def batch_args(self, rows):
    return ([r[0] for r in rows], [r[1] for r in rows])


class ValueAccPlain(ValueAcc):
  name = 'ValueAccumulator/default-concatenation'

  def fresh(self):
    return _rs().ValueAccumulator()

  def result(self, acc):
    # without a concat_fn a column is the list of the batches it was fed (documented): compared batch boundaries aside
    return canon(tuple([v for batch in col for v in batch] for col in acc.result()))


class ValueAccMetric(ValueAcc):
  name = 'ValueAccumulator/metric_fns'

  def fresh(self):
    return _rs().ValueAccumulator(concat_fn=operator.add, metric_fns={'n': lambda x, y: len(x), 'sum': lambda x, y: sum(x)})


class Unbounded(Adapter):
  name = 'UnboundedSampler'
  pools = [[(1, 'a'), (2, 'b'), (3, 'c'), (4, 'd')]]

  def fresh(self):
    return _rs().UnboundedSampler()

  def batch_args(self, rows):
    return ([r[0] for r in rows], [r[1] for r in rows])


class UnboundedSingle(Adapter):
  name = 'UnboundedSampler/single'
  pools = [[1, 2, 3, 4]]

  def fresh(self):
    return _rs().UnboundedSampler()

  def batch_args(self, rows):
    return (list(rows),)


class Reservoir(Adapter):
  """Random reservoir: only size, membership and the reviewed count are fixed."""
  name = 'FixedSizeSample'
  pools = [[10, 11, 12, 13]]
  order_matters = False
  max_size = 2

  def fresh(self):
    return _rs().FixedSizeSample(max_size=self.max_size, seed=0)

  def batch_args(self, rows):
    return (list(rows),)

  def result(self, acc):
    r = list(acc.result())
    return ('reservoir', len(r), tuple(sorted(set(r))), acc.num_samples_reviewed, len(set(r)) == len(r))

  @staticmethod
  def compare(got, ref, seq_rows):
    """size = min(max_size, n), members subset of inputs, no invented/duplicated sample, reviewed = n."""
    _, size, members, reviewed, distinct = got
    n = len(seq_rows)
    return (size == min(Reservoir.max_size, n) and set(members) <= set(seq_rows) and reviewed == n
            and (distinct or len(set(seq_rows)) < n))


class Reservoir3(Reservoir):
  name = 'FixedSizeSample/3'
  max_size = 3

  @staticmethod
  def compare(got, ref, seq_rows):
    _, size, members, reviewed, distinct = got
    n = len(seq_rows)
    return size == min(3, n) and set(members) <= set(seq_rows) and reviewed == n and (distinct or len(set(seq_rows)) < n)


class _XY(Adapter):
  def batch_args(self, rows):
    return (np.array([r[0] for r in rows], dtype=float), np.array([r[1] for r in rows], dtype=float))


class R2(_XY):
  name = 'R2Tjur'
  pools = [[(1, 0.9), (0, 0.2), (1, 0.6), (0, 0.4)], [(1, 0.5), (1, 0.7), (0, 0.1), (1, 0.9)], [(0, 0.3), (0, 0.1), (0, 0.2), (0, 0.5)]]

  def fresh(self):
    return _rs().R2Tjur()


class R2Rel(R2):
  name = 'R2TjurRelative'

  def fresh(self):
    return _rs().R2TjurRelative()


class RReg(_XY):
  name = 'RRegression/centered'
  pools = [[(1.0, 2.0), (2.0, 3.5), (3.0, 7.0), (4.0, 7.5)], [(1.0, -1.0), (0.0, 0.0), (2.0, -3.0), (5.0, 1.0)]]

  def fresh(self):
    return _rs().RRegression()


class RRegNC(RReg):
  name = 'RRegression/not-centered'

  def fresh(self):
    return _rs().RRegression(center=False)


class RRegMulti(Adapter):
  name = 'RRegression/multi-output'
  pools = [[((1.0, 4.0), 2.0), ((2.0, 3.0), 3.5), ((3.0, 1.0), 7.0), ((4.0, 0.5), 7.5)]]

  def fresh(self):
    return _rs().RRegression()

  def batch_args(self, rows):
    return (np.array([r[0] for r in rows], dtype=float), np.array([r[1] for r in rows], dtype=float))


class RRegMultiMixed(RRegMulti):
  """Integer rows and float rows: a batch / shard of integers followed by one of floats (dtypes follow the data)."""
  name = 'RRegression/multi-output-int-then-float'
  pools = [[((1, 4), 2), ((2, 3), 3), ((0.5, 1.5), 0.5), ((2.5, 0.5), 1.5)], [((0.5, 1.5), 0.5), ((1, 4), 2), ((2.5, 0.5), 1.5), ((2, 3), 3)]]

  def batch_args(self, rows):
    return (np.array([r[0] for r in rows]), np.array([r[1] for r in rows]))


class SPD(_XY):
  name = 'SymmetricPredictionDifference'
  pools = [[(1.0, 2.0), (2.0, 2.0), (3.0, 1.0), (4.0, 8.0)], [(0.0, 0.0), (1.0, -1.0), (2.0, 3.0), (0.5, 0.25)]]

  def fresh(self):
    return _rs().SymmetricPredictionDifference()


# ------------------------------------------------------------------ utils states


class MeanStateA(Adapter):
  name = 'utils.MeanState'
  pools = [[1.0, 2.0, 4.0, -3.0], [0.5, 0.5, 0.5, 0.5]]

  def fresh(self):
    from ml_metrics._src.aggregates import utils
    return utils.MeanState()

  def batch_args(self, rows):
    return (list(rows),)


class MeanStateArr(Adapter):
  """Array-valued totals (what TopKRetrieval keeps): aliasing after merge shows up here."""
  name = 'utils.MeanState/array'
  pools = [[[1.0, 2.0], [3.0, 4.0], [5.0, 6.0], [7.0, 9.0]]]

  def fresh(self):
    from ml_metrics._src.aggregates import utils
    return utils.MeanState()

  def batch_args(self, rows):
    return (np.array(rows, dtype=float),)


class TupleMean(Adapter):
  name = 'utils.TupleMeanState'
  pools = [[(1.0, 10.0), (2.0, 20.0), (4.0, 0.0), (-3.0, 5.0)]]

  def fresh(self):
    from ml_metrics._src.aggregates import utils
    return utils.TupleMeanState()

  def batch_args(self, rows):
    return ([r[0] for r in rows], [r[1] for r in rows])


# ------------------------------------------------------------------ text


class NGrams(Adapter):
  name = 'TopKWordNGrams/k2n1'
  pools = [['a b', 'b c c', 'a', 'c d d d'], ['x', '', 'x y', 'y y y']]
  k, n, dup, first = 2, 1, True, False

  def fresh(self):
    from ml_metrics._src.aggregates import text
    return text.TopKWordNGrams(k=self.k, n=self.n, count_duplicate=self.dup, use_first_ngram_only=self.first)

  def batch_args(self, rows):
    return (list(rows),)


class NGrams2(NGrams):
  name = 'TopKWordNGrams/k3n2-nodup'
  k, n, dup = 3, 2, False
  pools = [['a b a b', 'b a', 'a b c', 'c a b'], ['x y', 'x y x y', 'y', 'y x y']]


class NGramsFirst(NGrams):
  name = 'TopKWordNGrams/first-only'
  k, n, first = 1, 1, True


class Patterns(Adapter):
  name = 'PatternFrequency'
  pools = [['abab', 'ba', 'xyz', 'aaa'], ['', 'ab', 'b', 'abab ab']]
  dup = True

  def fresh(self):
    from ml_metrics._src.aggregates import text
    return text.PatternFrequency(patterns=('ab', 'a', 'zz'), count_duplicate=self.dup)

  def batch_args(self, rows):
    return (list(rows),)


class PatternsNoDup(Patterns):
  name = 'PatternFrequency/nodup'
  dup = False


# ------------------------------------------------------------------ classification (AggregateFn shape)


class _AggFn(Adapter):
  """create_state / update_state / merge_states / get_result."""

  def fn(self):
    raise NotImplementedError

  def fresh(self):
    return _State(self.fn())

  def add(self, acc, rows):
    acc.state = acc.fn.update_state(acc.state, *self.batch_args(rows))
    return None

  def merge(self, a, b):
    a.state = a.fn.merge_states([a.state, b.state])
    return a

  def merge_states(self, accs):
    accs[0].state = accs[0].fn.merge_states([x.state for x in accs])
    return accs[0]

  def result(self, acc):
    if acc.state is None:
      return ('empty-state',)
    return canon(_cm_plain(acc.fn.get_result(acc.state)))


class _State:
  def __init__(self, fn):
    self.fn = fn
    self.state = fn.create_state()


def _cm_plain(r):
  if isinstance(r, dict):
    return {k: _cm_plain(v) for k, v in r.items()}
  if hasattr(r, 'tp') and hasattr(r, 'fn'):
    out = dict(tp=r.tp, tn=r.tn, fp=r.fp, fn=r.fn)
    if hasattr(r, 'k'):
      out['k'] = r.k
    return out
  return r


CM_METRICS = ('confusion_matrix', 'precision', 'recall', 'f1_score', 'accuracy', 'specificity', 'miss_rate',
              'false_discovery_rate', 'balanced_accuracy', 'matthews_correlation_coefficient')


class CMBinary(_AggFn):
  name = 'ConfusionMatrixAggFn/binary'
  pools = [[(1, 1), (0, 1), (1, 0), (0, 0)], [(1, 1), (1, 1), (1, 0), (1, 1)], [(0, 0), (0, 0), (0, 1), (0, 0)]]

  def fn(self):
    from ml_metrics._src.aggregates import classification
    return classification.ConfusionMatrixAggFn(metrics=CM_METRICS)

  def batch_args(self, rows):
    return ([r[0] for r in rows], [r[1] for r in rows])


class CMBinaryStr(CMBinary):
  name = 'ConfusionMatrixAggFn/binary-str'
  pools = [[('Y', 'Y'), ('N', 'Y'), ('Y', 'N'), ('N', 'N')]]

  def fn(self):
    from ml_metrics._src.aggregates import classification
    return classification.ConfusionMatrixAggFn(metrics=CM_METRICS, pos_label='Y')


VOCAB = {'a': 0, 'b': 1, 'c': 2}
VOCAB4 = {'a': 0, 'b': 1, 'c': 2, 'd': 3}      # 'd' never occurs in the data: only the configuration knows it


class CMMultiMicro(CMBinary):
  name = 'ConfusionMatrixAggFn/multiclass-micro'
  pools = [[('a', 'a'), ('b', 'a'), ('c', 'c'), ('a', 'b')], [('a', 'a'), ('a', 'a'), ('b', 'c'), ('a', 'b')]]
  average = 'micro'
  input_type = 'multiclass'

  def fn(self):
    from ml_metrics._src.aggregates import classification
    return classification.ConfusionMatrixAggFn(metrics=CM_METRICS, input_type=self.input_type, average=self.average,
                                               vocab=dict(VOCAB))


class CMMultiMicroNoVocab(CMMultiMicro):
  """No vocabulary configured: every batch derives its own, so counts of true negatives depend on the batch."""
  name = 'ConfusionMatrixAggFn/multiclass-micro-no-vocab'
  c01_only = True      # C11's verdicts use the one-batch reference, which is exactly what fails here (a C01 matter)

  def fn(self):
    from ml_metrics._src.aggregates import classification
    return classification.ConfusionMatrixAggFn(metrics=CM_METRICS, input_type=self.input_type, average=self.average)


class CMMultiMacro(CMMultiMicro):
  name = 'ConfusionMatrixAggFn/multiclass-macro'
  average = 'macro'


class CMMultiOut(CMMultiMicro):
  name = 'ConfusionMatrixAggFn/multioutput-macro'
  average = 'macro'
  input_type = 'multiclass-multioutput'
  pools = [[(['a', 'b'], ['a']), (['c'], ['c', 'a']), (['b'], ['b']), ([], ['a'])],
           [(['a'], ['b', 'c']), (['a'], []), (['b', 'c'], ['c', 'b']), (['a', 'b', 'c'], ['a'])]]


class CMIndicator(CMBinary):
  name = 'ConfusionMatrixAggFn/indicator-micro'
  pools = [[((1, 0, 0), (1, 0, 0)), ((0, 1, 0), (1, 0, 0)), ((0, 0, 1), (0, 0, 1)), ((1, 0, 0), (0, 1, 0))]]

  def fn(self):
    from ml_metrics._src.aggregates import classification
    return classification.ConfusionMatrixAggFn(metrics=CM_METRICS, input_type='multiclass-indicator', average='micro')


class CMTopK(CMMultiOut):
  name = 'TopKConfusionMatrixAggFn/multioutput-micro'
  average = 'micro'

  def fn(self):
    from ml_metrics._src.aggregates import classification
    return classification.TopKConfusionMatrixAggFn(metrics=('confusion_matrix', 'precision', 'recall'),
                                                   input_type=self.input_type, average=self.average,
                                                   vocab=dict(VOCAB), k_list=(1, 2))


class ClassificationAgg(CMMultiMacro):
  name = 'metrics.ClassificationAggFn/multiclass-macro'

  def fn(self):
    from ml_metrics._src.metrics import classification
    return classification.ClassificationAggFn(metrics=('precision', 'recall', 'f1_score'), input_type='multiclass',
                                              average='macro', vocab=dict(VOCAB))


class Samplewise(Adapter):
  name = 'SamplewiseClassification/multioutput'
  per_example = True
  pools = CMMultiOut.pools

  def fresh(self):
    from ml_metrics._src.aggregates import classification
    # binary_accuracy / specificity count true negatives against the configured vocabulary
    return classification.SamplewiseClassification(metrics=('precision', 'recall', 'f1_score', 'accuracy', 'binary_accuracy', 'specificity'),
                                                   input_type='multiclass-multioutput', vocab=dict(VOCAB4))

  def batch_args(self, rows):
    return ([r[0] for r in rows], [r[1] for r in rows])

  def example_values(self, out, n):
    return [canon({k: np.asarray(v)[i] for k, v in out.items()}) for i in range(n)]


class SamplewiseIndicator(Samplewise):
  name = 'SamplewiseClassification/indicator'
  pools = CMIndicator.pools

  def fresh(self):
    from ml_metrics._src.aggregates import classification
    return classification.SamplewiseClassification(metrics=('precision', 'recall'), input_type='multiclass-indicator')


class CalibHist(Adapter):
  name = 'metrics.CalibrationHistogram'
  pools = [[(1, 0.9), (0, 0.2), (1, 0.6), (0, 0.4)], [(0, 0.0), (1, 1.0), (1, 0.5), (0, 0.5)]]

  def fresh(self):
    from ml_metrics._src.metrics import classification
    return classification.CalibrationHistogram(range=(0, 1), bins=4)

  def batch_args(self, rows):
    return (np.array([r[0] for r in rows], dtype=float), np.array([r[1] for r in rows], dtype=float))

  def result(self, acc):
    r = acc.result()
    return canon((r.num_examples_hist, r.labels_hist, r.predictions_hist, r.bin_edges))


# ------------------------------------------------------------------ retrieval

RET_METRICS = ('accuracy', 'precision', 'recall', 'f1_score', 'mean_average_precision', 'mean_reciprocal_rank',
               'miss_rate', 'false_discovery_rate', 'threat_score', 'intersection_over_union', 'dcg_score', 'ndcg_score',
               'fowlkes_mallows_index')
# ragged rankings: the longest prediction differs between rows, so it differs between batches
RANKED = [[(['a', 'b'], ['a', 'c', 'b']), (['c'], ['a']), (['b', 'd'], ['d', 'b', 'a', 'c', 'e']), (['a'], ['b', 'a'])],
          [(['a'], ['a']), (['b'], ['c']), (['a', 'b', 'c'], ['c', 'b']), (['d'], ['a', 'b', 'c', 'd'])]]


class TopKRet(Adapter):
  name = 'TopKRetrieval/k=None'
  per_example = True
  pools = RANKED
  k_list = None

  def fresh(self):
    from ml_metrics._src.aggregates import retrieval
    return retrieval.TopKRetrieval(metrics=RET_METRICS, k_list=self.k_list)

  def batch_args(self, rows):
    return ([r[0] for r in rows], [r[1] for r in rows])

  def example_values(self, out, n):
    return [canon({k: np.asarray(v)[i] for k, v in out.items()}) for i in range(n)]


class TopKRet1(TopKRet):
  name = 'TopKRetrieval/k=[1]'
  k_list = [1]


class TopKRet13(TopKRet):
  name = 'TopKRetrieval/k=[1,3]'
  k_list = [1, 3]


class TopKRet135(TopKRet):
  name = 'TopKRetrieval/k=[1,3,5]'
  k_list = [1, 3, 5]


class TopKRetOneMetric(TopKRet):
  name = 'TopKRetrieval/one-metric-as-a-string'
  pools = [[(['a'], ['a', 'b']), (['b'], ['a', 'b']), (['c'], ['c', 'a']), (['a'], ['b', 'c'])]]      # equal lengths: no k truncation
  k_list = [1, 2]

  def fresh(self):
    from ml_metrics._src.aggregates import retrieval
    return retrieval.TopKRetrieval(metrics='precision', k_list=self.k_list)

  def example_values(self, out, n):
    out = out if isinstance(out, dict) else {'precision': out}
    return [canon({k: np.asarray(v)[i] for k, v in out.items()}) for i in range(n)]


class TopKRetMulticlass(TopKRet):
  name = 'TopKRetrieval/multiclass-equal-lengths'
  pools = [[(['a'], ['a', 'b']), (['b'], ['a', 'b']), (['c'], ['c', 'a']), (['a'], ['b', 'c'])]]
  k_list = [1, 2]


class Thresholded(Adapter):
  name = 'ThresholdedRetrieval'
  pools = [[(['a', 'b'], ['a', 'c', 'b'], [0.9, 0.8, 0.3]), (['c'], ['a'], [0.6]), (['b', 'd'], ['d', 'b'], [0.55, 0.2]),
            (['a'], ['b', 'a'], [0.7, 0.65])],
           # an example without ground truth (all of its predictions are false positives) may be a batch of its own
           [([], ['a', 'b'], [0.9, 0.6]), (['c'], ['c', 'a'], [0.8, 0.4]), (['b'], ['a'], [0.3]), ([], ['d'], [0.7])]]

  def fresh(self):
    from ml_metrics._src.aggregates import retrieval
    return retrieval.ThresholdedRetrieval(thresholds=(0.75, 0.0, 0.5), metrics=['precision', 'recall', 'f1_score', 'precision@0.5', 'recall@0.75'])

  def batch_args(self, rows):
    return ([r[0] for r in rows], [r[1] for r in rows], [r[2] for r in rows])


class _Res:
  """What an adapter's result() reads, served by the AggregateFn route."""

  def __init__(self, acc):
    self._acc = acc

  def result(self):
    return self._acc.fn.get_result(self._acc.state)

  def __getattr__(self, name):
    return getattr(self._acc.state, name)


class ViaAggFn(Adapter):
  """The same metric configuration driven through metric.as_agg_fn() (create_state / update_state / merge_states /
  get_result).  The reference result is the DIRECT accumulator's: as_agg_fn() must carry the whole configuration."""

  def __init__(self, inner):
    self.inner = inner
    self.reference = inner
    self.name = inner.name + ':as_agg_fn'
    self.pools = inner.pools
    self.order_matters = inner.order_matters
    self.supports_empty_batch = inner.supports_empty_batch
    if getattr(inner, 'compare', None) is not None:
      self.compare = inner.compare

  def fresh(self):
    return _State(self.inner.fresh().as_agg_fn())

  def add(self, acc, rows):
    acc.state = acc.fn.update_state(acc.state, *self.inner.batch_args(rows))
    return None

  def merge(self, a, b):
    a.state = a.fn.merge_states([a.state, b.state])
    return a

  def merge_states(self, accs):
    accs[0].state = accs[0].fn.merge_states([x.state for x in accs])
    return accs[0]

  def result(self, acc):
    return self.inner.result(_Res(acc))


def all_adapters():
  return _direct_adapters() + [ViaAggFn(a) for a in (Hist(), HistEdges(), Reservoir3(), ValueAccMetric(), RRegNC(), NGrams2(), PatternsNoDup(),
                                                     Samplewise(), TopKRetMulticlass(), MeanVar2D())]


def _direct_adapters():
  return [Mean1D(), Mean2D(), Mean2DMixed(), MeanVar1D(), MeanVar2D(), MeanVar2DMixed(), Var1D(), Hist(), HistWeighted(), HistEdges(), CounterA(), MinMax(), MinMaxAxis(), ValueAcc(), ValueAccPlain(),
          ValueAccMetric(), Unbounded(), UnboundedSingle(), Reservoir(), Reservoir3(), R2(), R2Rel(), RReg(), RRegNC(),
          RRegMulti(), RRegMultiMixed(), SPD(), MeanStateA(), MeanStateArr(), TupleMean(), NGrams(), NGrams2(), NGramsFirst(), Patterns(),
          PatternsNoDup(), CMBinary(), CMBinaryStr(), CMMultiMicro(), CMMultiMicroNoVocab(), CMMultiMacro(), CMMultiOut(), CMIndicator(), CMTopK(),
          ClassificationAgg(), Samplewise(), SamplewiseIndicator(), CalibHist(), TopKRet(), TopKRet1(), TopKRet13(),
          TopKRet135(), TopKRetOneMetric(), TopKRetMulticlass(), Thresholded()]
