"""Replay of MergeAlgebra.tla histories on every aggregate adapter (C01 and C11)."""
from __future__ import annotations

import concurrent.futures as cf
import copy
import random
import traceback

from harness import aggadapters as A


def _rows(pool, seq):
  return [pool[i - 1] for i in seq]


class Ref:
  """One-accumulator / one-batch reference results, cached per (adapter, pool)."""

  def __init__(self, ad, pool):
    self.ad, self.pool = ad, pool
    self.cache = {}

  def get(self, seq):
    key = tuple(seq) if self.ad.order_matters else tuple(sorted(seq))
    if key not in self.cache:
      try:
        ad = getattr(self.ad, 'reference', self.ad)      # as_agg_fn routes are compared with the direct accumulator
        acc = ad.fresh()
        if seq:
          ad.add(acc, _rows(self.pool, list(key)))
        self.cache[key] = ('ok', ad.result(acc))
      except Exception as e:  # pylint: disable=broad-exception-caught
        self.cache[key] = ('err', f'{type(e).__name__}: {e}')
    return self.cache[key]


def _same(ad, got, ref, rows):
  cmp = getattr(ad, 'compare', None)
  if cmp is not None:
    return cmp(got, ref, rows)
  return A.close(got, ref)


def replay(ad, pool_idx, hist, ref: Ref, single_cache, observed=False):
  """Returns a list of (property, class, message, detail).

  observed=False  results are read on deep copies, so reading cannot disturb the accumulators:
                  verdicts on batching / merging (C01, and C11's merge / neutral-element share).
  observed=True   results are read directly, twice, after every step: C11's repeatability,
                  operand / bystander changes and "reading disturbs later updates".
  """
  pool = ad.pools[pool_idx]
  out = []
  accs = {}
  last = {}        # accumulator -> last canonical result
  def V(prop, cls, msg, step):
    out.append((prop, f'{ad.name}:{cls}', f'{msg} [pool {pool_idx}, step {step}: {hist[step]["op"]}]',
                dict(adapter=ad.name, pool=pool_idx, rows=repr(pool), history=hist, step=step)))
  for i, st in enumerate(hist):
    op = st['op']
    try:
      if op == 'new':
        accs[st['a']] = ad.fresh()
        receiver = st['a']
      elif op == 'add':
        if not st['batch'] and not ad.supports_empty_batch:
          continue
        ret = ad.add(accs[st['a']], _rows(pool, st['batch']))
        receiver = st['a']
        if ad.per_example and ret is not None and st['batch']:
          vals = ad.example_values(ret, len(st['batch']))
          for j, item in enumerate(st['batch']):
            if item not in single_cache:
              r1 = ad.add(ad.fresh(), _rows(pool, [item]))
              single_cache[item] = ad.example_values(r1, 1)[0]
            if not A.close(vals[j], single_cache[item]):
              V('C01', 'per-example-depends-on-batch',
                f'example {item} gets {vals[j]} in batch {st["batch"]} but {single_cache[item]} alone', i)
              return out
      elif op == 'merge':
        ad.merge(accs[st['a']], accs[st['b']])
        receiver = st['a']
      else:
        merged = ad.merge_states([accs[st['a']]] + [accs[b] for b in st['bs']])
        receiver = st['a']
        if merged is not accs[st['a']]:
          accs[st['a']] = merged
    except Exception as e:  # pylint: disable=broad-exception-caught
      empties = op in ('merge', 'merge_states') and any(
          not hist[i - 1]['state'][x - 1] for x in ([st['a']] + ([st['b']] if op == 'merge' else st['bs']))) if i else False
      V('C01', f'exception:{op}:{type(e).__name__}', f'{type(e).__name__}: {e}', i)
      if op in ('merge', 'merge_states'):
        V('C11', f'exception:{op}:{type(e).__name__}' + (':empty-operand' if empties else ''), f'{type(e).__name__}: {e}', i)
      return out
    # read every live accumulator (twice) and compare with its abstract content
    for x in range(1, st['live'] + 1):
      if x not in accs:
        continue
      seq = st['state'][x - 1]
      kind, want = ref.get(seq)
      try:
        if observed:
          r1 = ad.result(accs[x])
          r2 = ad.result(accs[x])
        else:
          r1 = r2 = ad.result(copy.deepcopy(accs[x]))
      except Exception as e:  # pylint: disable=broad-exception-caught
        if kind == 'err' or not seq:
          continue      # reading an empty accumulator is not required to work
        V('C01', f'exception:result:{type(e).__name__}', f'result() of accumulator {x} holding {seq}: {e}', i)
        return out
      if not A.close(r1, r2):
        V('C11', 'result-not-repeatable', f'accumulator {x}: {r1} then {r2}', i)
        return out
      if kind == 'err':
        continue
      ok = _same(ad, r1, want, _rows(pool, seq))
      if x != receiver:
        # nobody acted on x in this step: its result must be what it was
        if x in last and not A.close(last[x], r1) and getattr(ad, 'compare', None) is None:
          V('C11', f'operand-or-bystander-changed:{op}',
            f'accumulator {x} (holding {seq}) changed from {last[x]} to {r1} although the step acted on {receiver}', i)
          return out
        if not ok and getattr(ad, 'compare', None) is not None:
          V('C11', f'operand-or-bystander-changed:{op}', f'accumulator {x} holding {seq} now reports {r1}', i)
          return out
      elif not ok:
        if observed:
          V('C11', 'reading-disturbs-later-updates',
            f'accumulator {x} holding {seq} reports {r1} (one batch gives {want}) when results are read between the '
            f'steps; the same history is correct when they are not', i)
        elif op == 'add':
          V('C01', 'batching', f'accumulator {x} fed {seq} reports {r1}, one batch gives {want}', i)
        else:
          prev = hist[i - 1]['state'] if i else None
          sides = [st['a']] + ([st['b']] if op == 'merge' else st['bs'])
          empties = [s for s in sides if prev is not None and not prev[s - 1]]
          cls = 'merge' + (':empty-side' if empties else '')
          V('C01', cls, f'accumulator {x} holding {seq} after {op} reports {r1}, one batch gives {want}', i)
          V('C11', 'neutral-element' if empties else 'merge-result',
            f'accumulator {x} holding {seq} after {op} reports {r1}, one batch gives {want}', i)
        return out
      last[x] = r1
  return out


def _work(args):
  from harness import common
  common.setup_repo_path()
  ad_idx, hists = args
  ad = A.all_adapters()[ad_idx]
  res = []
  n = 0
  for p in range(len(ad.pools)):
    ref = Ref(ad, ad.pools[p])
    single = {}
    seen_cls = {}
    for h in hists:
      n += 1
      try:
        vs = replay(ad, p, h, ref, single)
        if not vs:
          vs = [v for v in replay(ad, p, h, ref, single, observed=True) if v[0] == 'C11']
      except Exception as e:  # pylint: disable=broad-exception-caught
        vs = [('C01', f'{ad.name}:harness-error', f'{type(e).__name__}: {e} {traceback.format_exc()[-400:]}', dict(history=h))]
      if getattr(ad, 'c01_only', False):
        vs = [v for v in vs if v[0] == 'C01']
      for v in vs:
        c = seen_cls.get((v[0], v[1]), 0)
        seen_cls[(v[0], v[1])] = c + 1
        if c < 3:
          res.append(v)
        elif c == 3:
          pass
    for (prop, cls), c in seen_cls.items():
      if c > 3:
        res.append((prop, cls, f'... {c - 3} more histories in this class', None))
  return ad.name, n, res


def run_all(hists, procs=16):
  ads = A.all_adapters()
  with cf.ProcessPoolExecutor(max_workers=procs) as ex:
    return list(ex.map(_work, [(i, hists) for i in range(len(ads))]))
