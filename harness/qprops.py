"""Driver shared by checks/c04.py and checks/c05.py.  Configurations are independent, so
each runs in its own worker process (TLC + graph replay + exploration) and the results are
merged into the check."""
from __future__ import annotations

import concurrent.futures as cf
import os
import random
import shutil
import time

from harness import graph, qcheck, qconfig, qreplay, sched, tlc


def _judge(name, cfg, o, schedule, source, out):
  for sig, msg in qcheck.judge(cfg, o):
    out['violations'].append((sig, f'[{name}] {msg}; source={source}',
                              dict(kind='queue', config_name=name, config=cfg, schedule=schedule, source=source,
                                   outcome=o.summary())))
    return True
  return False


def run_entry(ent, tier, seed, budget_graph, explore_runs, random_runs):
  from harness import common
  common.setup_repo_path()
  name, cfg = ent['name'], ent['cfg']
  rnd = random.Random(seed)
  out = dict(name=name, violations=[], drift=0, drift_examples=[], replayed=0, info={}, samples=[], tlc=None,
             machinery=None, edges_total=0, edges_replayed=0)
  t_start = time.time()
  scratch = qcheck.scratch()
  try:
    dot = os.path.join(scratch, 'g.dot') if ent.get('graph') else None
    res = qcheck.tlc_check(cfg, liveness=ent.get('liveness', True), dump_dot=dot, timeout=ent.get('tlc_timeout', 3000),
                           workers=ent.get('workers', 4))
    out['tlc'] = dict(label=f'IterQueue/{name}', **res.summary())
    if not res.ok:
      script = qcheck.cex_script(res)
      o = qreplay.run_config(cfg, sched.Scripted(script), record_states=False)
      if not _judge(name, cfg, o, script, f'TLC counter-example ({res.error_kind} {res.error_name})', out):
        out['machinery'] = (f'IterQueue.tla [{name}] fails {res.error_kind} {res.error_name} but the counter-example does not '
                            'reproduce on the code: the specification misrepresents the code')
      return out
    if dot:
      if not os.path.exists(dot):
        qcheck.tlc_check(cfg, liveness=False, dump_dot=dot, workers=ent.get('workers', 4))
      g = graph.Graph.from_dot(dot)
      n_paths = 0
      last_path = None
      for path in g.edge_cover(rnd, budget_s=budget_graph * ent.get('budget_x', 1)):
        o, mm = qcheck.replay_path(cfg, path, g)
        n_paths += 1
        out['replayed'] += 1
        script = [p for (_, _, _, p) in path]
        bad = _judge(name, cfg, o, script, 'TLC edge-cover path', out)
        if mm is not None and not bad:
          na = qcheck.outcome_allowed(o, mm, path, g) if out['drift'] < 25 else None
          if na is not None:
            real, n_allowed = na
            fld = '+'.join(mm.get('fields') or [mm['kind']])
            out['violations'].append((f'outcome-not-allowed-by-spec:{fld}',
                                      f'[{name}] after following a TLC path the real run ends with {real}, which none of the '
                                      f'{n_allowed} outcomes the specification reaches from there matches; first divergence: {mm}',
                                      dict(kind='queue', config_name=name, config=cfg, schedule=script, source='TLC edge-cover path',
                                           outcome=o.summary())))
          out['drift'] += 1
          if len(out['drift_examples']) < 2:
            out['drift_examples'].append(mm)
        last_path = script
        if len(out['violations']) > 50:
          break
      out['info'].update(graph_nodes=len(g.labels), graph_edges=g.n_edges, edges_replayed=getattr(g, 'covered_edges', 0),
                         paths=n_paths)
      out['edges_total'] = g.n_edges
      out['edges_replayed'] = getattr(g, 'covered_edges', 0)
      if last_path:
        out['samples'].append(dict(config=name, schedule=last_path[:60]))
    n_exp = 0
    for o, choices in qcheck.explore(cfg, bound=2, max_runs=explore_runs, rnd=rnd):
      n_exp += 1
      out['replayed'] += 1
      if _judge(name, cfg, o, choices, 'bounded-preemption exploration', out):
        break
    n_rand = 0
    for i in range(random_runs):
      pol = sched.Recording(sched.Random(random.Random(seed * 100003 + i), stickiness=rnd.choice([0.0, 0.5, 0.8])))
      o = qreplay.run_config(cfg, pol)
      n_rand += 1
      out['replayed'] += 1
      if _judge(name, cfg, o, [c for _, c in pol.choices], 'random schedule', out):
        break
    out['info'].update(explored=n_exp, random=n_rand)
  except Exception as e:  # pylint: disable=broad-exception-caught
    import traceback
    out['machinery'] = f'{type(e).__name__}: {e}\n{traceback.format_exc()[-1500:]}'
  finally:
    shutil.rmtree(scratch, ignore_errors=True)
    out['info']['wall_s'] = round(time.time() - t_start, 1)
  return out


def run(chk, entries, *, budget_graph=6.0, explore_runs=250, random_runs=80, negative=None, procs=6):
  thorough = chk.tier == 'thorough'
  bg = budget_graph * (40 if thorough else 1)
  er = explore_runs * (12 if thorough else 1)
  rr = random_runs * (10 if thorough else 1)
  results = []
  with cf.ProcessPoolExecutor(max_workers=procs) as ex:
    futs = [ex.submit(run_entry, ent, chk.tier, chk.seed * 977 + i, bg, er, rr) for i, ent in enumerate(entries)]
    neg_futs = [(name, expect, ex.submit(_neg, cfg)) for name, cfg, expect in (negative or [])]
    for f in futs:
      results.append(f.result())
    negs = [(name, expect, f.result()) for name, expect, f in neg_futs]
  drift_total = edges_total = edges_replayed = 0
  per_cfg = {}
  for r in results:
    if r['tlc']:
      chk.coverage['states'] += r['tlc']['distinct']
      chk.coverage['transitions'] += r['tlc']['generated']
      chk.coverage.setdefault('tlc_runs', []).append(r['tlc'])
    for sig, msg, rep in r['violations']:
      chk.violation(sig, msg, rep)
    if r['machinery']:
      chk.machinery_failure(r['machinery'])
    for mm in r['drift_examples']:
      print(f'MODEL-DRIFT property={chk.prop} [{r["name"]}] {mm}')
    drift_total += r['drift']
    edges_total += r['edges_total']
    edges_replayed += r['edges_replayed']
    chk.replayed(r['replayed'])
    chk.add_samples(r['samples'], limit=3)
    per_cfg[r['name']] = r['info']
  chk.coverage['configs'] = per_cfg
  chk.coverage['drift'] = drift_total
  chk.coverage['edges_total'] = edges_total
  chk.coverage['edges_replayed'] = edges_replayed
  chk.coverage['exhaustive'] = (drift_total == 0 and edges_total == edges_replayed and edges_total > 0)
  for name, expect, kind in negs:
    chk.coverage.setdefault('pinned_design_rejected_by_tlc', {})[name] = kind
    if kind == 'ok':
      chk.machinery_failure(f'IterQueue.tla without repairs accepts [{name}]; expected {expect}')


def _neg(cfg):
  cfg = dict(cfg)
  fixes = cfg.pop('neg_fixes', set())     # default: the pinned design without the recorded repairs
  r = qcheck.tlc_check(cfg, fixes=fixes, timeout=900, workers=2)
  return r.error_kind or 'ok'
