"""Runs start() / stop() / join() scripts on a REAL CourierServer under the deterministic scheduler (fake transport,
scheduler-managed serving thread, no periodic wake-ups) and returns the settled outcome in the vocabulary of
spec/dist/ServerLife.tla."""
from __future__ import annotations

import contextlib
import itertools
import types as pytypes

from harness import fakecourier, sched

_IDS = itertools.count(1)


class _Clock:
  now = 1000.0

  @classmethod
  def time(cls):
    cls.now += 0.001          # a clock never reads the same value twice (the tx-rate log divides by elapsed time)
    return cls.now

  @staticmethod
  def sleep(_=0):
    sched.yield_point('sleep')


class _NoticeClient:
  """Stands for a CourierClient of the server's `clients`: records the alive / death notices."""

  def __init__(self, log):
    self.log = log

  def send_heartbeat(self, address, is_alive=True):
    self.log.append('alive' if is_alive else 'dead')


@contextlib.contextmanager
def installed():
  from ml_metrics._src.chainables import courier_server
  saved = (courier_server.courier, courier_server.threading, courier_server.signal, courier_server.time,
           courier_server._HRTBT_INTERVAL_SECS, courier_server.CourierServer.__del__)
  courier_server.courier = fakecourier
  courier_server.threading = sched.threading
  courier_server.signal = pytypes.SimpleNamespace(signal=lambda *a, **k: None, SIGINT=2, SIGTERM=15, SIGABRT=6)
  courier_server.time = pytypes.SimpleNamespace(time=_Clock.time, sleep=_Clock.sleep)
  courier_server._HRTBT_INTERVAL_SECS = None        # the serving loop wakes only when notified
  courier_server.CourierServer.__del__ = lambda self: None
  try:
    yield courier_server
  finally:
    (courier_server.courier, courier_server.threading, courier_server.signal, courier_server.time,
     courier_server._HRTBT_INTERVAL_SECS, courier_server.CourierServer.__del__) = saved


def run_script(scripts: dict, policy, max_steps=4000):
  """scripts: {caller: ['start' | 'stop' | 'join', ...]}.  Returns dict(started, serving, threads, last, req, errors, schedule)."""
  with installed() as courier_server:
    sch = sched.Scheduler(policy, max_steps=max_steps)
    sched.set_active(sch)
    notices, errors, created = [], {}, []
    try:
      # construct on the driver (no scheduling points matter here)
      srv = courier_server.CourierServer(f'life-{next(_IDS)}', auto_shutdown_secs=10 ** 9)
      srv._clients = [_NoticeClient(notices)]
      orig_thread = sched.Thread

      class CountingThread(orig_thread):
        def __init__(self, *a, **k):
          super().__init__(*a, **k)
          created.append(self)

      thr = sched._Threading()
      thr.Thread = CountingThread
      courier_server.threading = thr

      def caller(name, ops):
        def body():
          held = None
          try:
            for op in ops:
              if op == 'start':
                held = srv.start()
              elif op == 'stop':
                held = srv.stop()
              else:
                held.join()
          except sched.Aborted:
            raise
          except BaseException as e:  # pylint: disable=broad-exception-caught
            errors[name] = f'{type(e).__name__}: {e}'
        return body

      for name, ops in sorted(scripts.items()):
        sch.spawn(name, caller(name, ops))
      failure = sch.run(timeout=20.0)
      blocked = getattr(sch, 'blocked_at_end', {}) or {}
      # settled: every caller finished; serving threads are parked in the loop's wait
      callers_left = [n for n in scripts if n in blocked]
      serving = [n for n, op in blocked.items() if n not in scripts and op and op[0] == 'wait']
      stuck = [n for n, op in blocked.items() if n not in scripts and not (op and op[0] == 'wait')]
      for n, t in sch.threads.items():
        if n not in scripts and t.exc is not None:
          errors[n] = f'{type(t.exc).__name__}: {t.exc}'
      server = srv._server
      return dict(started=bool(server is not None and server.has_started), serving=len(serving), threads=len(created),
                  last=(notices[-1] if notices else 'none'), req=bool(srv._shutdown_requested), errors=errors,
                  callers_left=callers_left, stuck=stuck, notices=list(notices),
                  failure=None if failure is None or isinstance(failure, sched.Deadlock) else repr(failure),
                  schedule=[t for t, _ in sch.trace])
    finally:
      sched.set_active(None)
