"""Python twins of the object kinds of spec/remote/Remote.tla, and drivers that run spec
behaviours on the real CourierServer / CourierClient / RemoteObject / RemoteIterator over the
in-process transport (harness/fakecourier.py) or record concurrent executions as traces."""
from __future__ import annotations

import contextlib
import threading

L_DEFAULT = 2
GATE = threading.Event()       # Remote.tla's `gate`
ENTERED = threading.Event()    # a gboom evaluation is inside the handler


class Box:
  pickled = 0     # times any Box travelled (must stay 0: objects stay on the server)

  def __init__(self, n):
    self.val = n

  @property
  def items(self):
    return (self.val, self.val + 1)

  def plus(self, y):
    return self.val + y

  @property
  def _val(self):
    return self.val

  def _plus2(self):
    return self.val + 2

  def me(self):
    return self

  def boom(self):
    raise ValueError(f'boom({self.val})')

  def tmo(self):
    raise TimeoutError(f'tmo({self.val}): the evaluated code timed out')

  def gboom(self):
    ENTERED.set()
    GATE.wait(20)
    raise ValueError(f'gboom({self.val})')

  def __reduce__(self):
    Box.pickled += 1
    return (Box, (self.val,))


class Counter:
  pickled = 0

  def __init__(self):
    self._n = 0
    self._lock = threading.Lock()

  def bump(self):
    with self._lock:
      self._n += 1
      return self._n

  @property
  def count(self):       # not `value`: RemoteObject has a dataclass field of that name
    return self._n

  def __reduce__(self):
    Counter.pickled += 1
    return (Counter, ())


def src(l):
  return [10 + i for i in range(1, l + 1)]


class Lst(list):
  """a list that records travelling"""
  pickled = 0

  def __reduce__(self):
    Lst.pickled += 1
    return (Lst, (list(self),))


def make(kind, l=L_DEFAULT):
  if kind == 'nil':
    return None
  if kind == 'box':
    return Box(3)
  if kind == 'cnt':
    return Counter()
  if kind == 'list':
    return Lst(src(l))
  if kind == 'iter':
    return iter(src(l))
  raise ValueError(kind)


def apply_op(obj, op):
  """The chained operation `op` on a local object or on a RemoteObject (same code for both)."""
  if op == 'val':
    return obj.val
  if op == 'items0':
    return obj.items[0]
  if op == 'items1':
    return obj.items[1]
  if op == 'items2':
    return obj.items[2]
  if op == 'plus1':
    return obj.plus(1)
  if op == 'uval':
    return obj._val
  if op == 'uplus2':
    return obj._plus2()
  if op == 'me_val':
    return obj.me().val
  if op == 'boom':
    return obj.boom()
  if op == 'nope':
    return obj.nope
  if op == 'tmo':
    return obj.tmo()
  if op == 'gboom':
    return obj.gboom()
  if op == 'bump':
    return obj.bump()
  if op == 'count':
    return obj.count
  if op == 'get':
    return -7 if obj is None else obj        # the object itself (a kept None reads as NoneVal)
  if op == 'sortnone':
    r = obj.sort()
    return -7 if r is None else r          # Remote.tla: NoneVal
  if op == 'item0':
    return obj[0]
  if op == 'count11':
    return obj.count(11)
  raise ValueError(op)


@contextlib.contextmanager
def server_and_client(name, *, call_timeout=20.0, heartbeat_threshold=90.0):
  from harness import dist
  with dist.installed() as mods:
    dist._RUN[0] += 1
    addr = f'{name}-r{dist._RUN[0]}'
    server = mods.courier_server.CourierServer(addr)
    server.start()
    client = mods.courier_utils.CourierClient(addr, call_timeout=call_timeout,
                                              heartbeat_threshold_secs=heartbeat_threshold)
    try:
      yield mods, server, client
    finally:
      try:
        server._request_shutdown()
        t = server._thread
        if t is not None:
          t.join(timeout=2)
      except Exception:  # pylint: disable=broad-exception-caught
        pass


class Remote:
  """Issues the requests of Remote.tla against a real server; ids are creation ordinals."""

  def __init__(self, mods, client, l):
    self.mods, self.client, self.l = mods, client, l
    self.handles = {}        # ordinal -> RemoteObject / RemoteIterator
    self.lock = threading.Lock()

  def new(self, kind):
    from ml_metrics._src.chainables import lazy_fns
    h = self.client.get_result(lazy_fns.trace(make)(kind, self.l, lazy_result_=True))
    return self._register(h, kind)

  def _register(self, h, kind):
    cu = self.mods.courier_utils
    if not isinstance(h, cu.RemoteObject):
      return ('value', h)
    if kind == 'iter':
      h = cu.RemoteIterator(h)
    with self.lock:
      i = len(self.handles) + 1
      self.handles[i] = h
    return ('ref', i)

  def op(self, i, op):
    h = self.handles[i]
    if op == 'next':
      return ('value', next(h))
    if op == 'iter':
      it = iter(h)
      with self.lock:
        j = len(self.handles) + 1
        self.handles[j] = it
      return ('ref', j)
    if isinstance(h, self.mods.courier_utils.RemoteIterator):
      h = h.iterator       # other operations go to the reference itself
    r = apply_op(h, op)
    v = r.result_()
    return ('value', -7 if v is None else v)          # Remote.tla: NoneVal


def enter_shutting(server):
  """Puts the real server into its shutting-down window and keeps it there: the flag is set, the
  serving thread is held before it stops the transport (it needs _states_lock for that)."""
  server._states_lock.acquire()
  server._request_shutdown()


def leave_shutting(server):
  try:
    server._states_lock.release()
  except RuntimeError:
    pass
  t = server._thread
  if t is not None:
    t.join(timeout=5)


def gen_none():
  yield 10
  yield 11


def gen_ret():
  yield 10
  yield 11
  return 'R'


def make_iter(shape):
  """iterables whose exhaustion carries 0 or 1 return values"""
  if shape == 'list':
    return iter([10, 11, 12])
  if shape == 'empty':
    return iter([])
  if shape == 'gen_none':
    return gen_none()
  if shape == 'gen_ret':
    return gen_ret()
  raise ValueError(shape)
