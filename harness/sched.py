"""Deterministic scheduler and drop-in replacements for threading / queue / futures.

The repository's concurrency goes through module-level names (`iter_utils.threading`,
`iter_utils.queue`, `iter_utils.futures`, `courier_server.threading`, ...).  `install()`
substitutes those module attributes by the objects of this module, from outside and
without touching the repository.  Two modes:

controlled  every managed thread is a real OS thread parked on its own semaphore; exactly
            one runs between two *yield points*.  Yield points: blocking lock acquire,
            Condition.wait wake-up, inner-queue get_nowait/put_nowait/empty, explicit
            `yield_point()` calls injected by the harness (reads of shared fields, next()
            of harness iterators), Thread.join, executor shutdown, Future.result.
            The scheduler knows which pending operations are enabled, so "unfinished
            threads and nothing enabled" is a proved deadlock of the real code.

The schedule is chosen by a policy object:  policy.choose(enabled, sched) -> thread name.
"""
from __future__ import annotations

import collections
import queue as _real_queue
import threading as _real_threading
import time as _real_time
from typing import Any, Callable

Empty = _real_queue.Empty
Full = _real_queue.Full


class Deadlock(Exception):
  """No enabled thread while some managed thread has not finished."""


class Aborted(BaseException):
  """Raised inside managed threads to unwind them when a run is abandoned."""


class StepLimit(Exception):
  pass


class _MThread:

  def __init__(self, name: str, fn: Callable[[], Any]):
    self.name = name
    self.fn = fn
    self.sem = _real_threading.Semaphore(0)
    self.finished = False
    self.result = None
    self.exc: BaseException | None = None
    self.pending: tuple | None = ('start',)   # operation the thread will perform when next scheduled
    self.os_thread: _real_threading.Thread | None = None
    self.wake_kind = None                     # set by the scheduler for waits: 'notified' | 'timeout'
    self.held = 0                             # locks currently held (reads under a held lock are not yield points)


class Scheduler:
  """One controlled execution."""

  def __init__(self, policy, max_steps: int = 20000, on_step=None, on_state=None, eager_start=True):
    self.policy = policy
    self.threads: dict[str, _MThread] = collections.OrderedDict()
    self.by_ident: dict[int, _MThread] = {}
    self.trace: list[tuple[str, tuple]] = []     # (thread, op) per step, in execution order
    self.max_steps = max_steps
    self.steps = 0
    self.done_evt = _real_threading.Event()
    self.failure: BaseException | None = None
    self.aborting = False
    self.on_step = on_step
    self.on_state = on_state        # called with the scheduler after every executed segment
    self.eager_start = eager_start  # thread-start segments touch no shared state: run them at once, untraced
    self.counter = 0
    self.main_ident = _real_threading.get_ident()

  # ---------------------------------------------------------------- thread management
  def current(self) -> _MThread | None:
    return self.by_ident.get(_real_threading.get_ident())

  def spawn(self, name: str, fn: Callable[[], Any]) -> _MThread:
    if name in self.threads:
      k = 2
      while f'{name}#{k}' in self.threads:
        k += 1
      name = f'{name}#{k}'
    t = _MThread(name, fn)
    self.threads[name] = t

    def runner():
      self.by_ident[_real_threading.get_ident()] = t
      t.sem.acquire()
      try:
        if self.aborting:
          raise Aborted()
        t.result = t.fn()
      except Aborted:
        pass
      except BaseException as e:  # pylint: disable=broad-exception-caught
        t.exc = e
      finally:
        t.finished = True
        t.pending = None
        if not self.aborting:
          self._dispatch(None)

    t.os_thread = _real_threading.Thread(target=runner, name=f'sched:{name}', daemon=True)
    t.os_thread.start()
    return t

  # ---------------------------------------------------------------- enabledness
  def _enabled(self, t: _MThread) -> bool:
    op = t.pending
    if op is None or t.finished:
      return False
    kind = op[0]
    if kind in ('start', 'yield'):
      return True
    if kind == 'acq':
      lk = op[1]
      return lk.owner is None or (lk.reentrant and lk.owner is t)
    if kind == 'wait':
      cond, timeout = op[1], op[2]
      lock_free = cond.lock.owner is None
      return lock_free and (t in cond.notified or timeout is not None)
    if kind == 'join':
      return op[1].finished
    if kind == 'pred':
      return bool(op[1]())
    raise AssertionError(op)

  def enabled_threads(self) -> list[_MThread]:
    return [t for t in self.threads.values() if self._enabled(t)]

  # ---------------------------------------------------------------- core hand-off
  def _dispatch(self, me: _MThread | None):
    """Called by the thread that stops running (at a yield point or at its end)."""
    if self.aborting:
      return None
    if self.eager_start:
      for t in self.threads.values():
        if not t.finished and t.pending == ('start',):
          if t is not me:
            t.sem.release()
          return t
    if self.on_state is not None and (me is None or me.pending != ('start',)):
      try:
        self.on_state(self)
      except BaseException as e:  # pylint: disable=broad-exception-caught
        self.failure = e
        self.done_evt.set()
        return None
    enabled = self.enabled_threads()
    if not enabled:
      unfinished = [t.name for t in self.threads.values() if not t.finished]
      if unfinished:
        self.failure = Deadlock(self.describe_blocked())
      self.done_evt.set()
      return None
    self.steps += 1
    if self.steps > self.max_steps:
      self.failure = StepLimit(f'more than {self.max_steps} steps')
      self.done_evt.set()
      return None
    try:
      name = self.policy.choose([t.name for t in enabled], self)
    except BaseException as e:  # pylint: disable=broad-exception-caught
      self.failure = e
      self.done_evt.set()
      return None
    nxt = self.threads[name]
    assert self._enabled(nxt), (name, nxt.pending)
    op = nxt.pending
    if op[0] == 'wait':
      cond = op[1]
      nxt.wake_kind = 'notified' if nxt in cond.notified else 'timeout'
    self.trace.append((nxt.name, _op_repr(op, nxt)))
    if self.on_step is not None:
      self.on_step(self, nxt, op)
    if nxt is not me:
      nxt.sem.release()
    return nxt

  def yield_op(self, op: tuple):
    """Registers `op` as the calling thread's next operation and hands control over."""
    me = self.current()
    if me is None:
      return          # not a managed thread (driver): operations are performed directly
    if self.aborting:
      raise Aborted()
    me.pending = op
    nxt = self._dispatch(me)
    if nxt is not me:
      me.sem.acquire()          # parked until the scheduler picks this thread
      if self.aborting:
        raise Aborted()
    me.pending = None

  # ---------------------------------------------------------------- running
  def run(self, timeout: float = 60.0):
    """Starts scheduling; returns when all threads finished, deadlock, or step limit."""
    self._dispatch(None)
    ok = self.done_evt.wait(timeout)
    if not ok:
      self.failure = self.failure or TimeoutError('scheduler wall-clock timeout (machinery)')
    self.blocked_at_end = self.blocked() if self.failure is not None else {}
    self.abort()
    return self.failure

  def abort(self):
    self.aborting = True
    for t in self.threads.values():
      if not t.finished:
        t.sem.release()
    for t in self.threads.values():
      if t.os_thread is not None and t.os_thread is not _real_threading.current_thread():
        t.os_thread.join(timeout=2.0)

  def describe_blocked(self) -> str:
    out = []
    for t in self.threads.values():
      if not t.finished:
        out.append(f'{t.name}:{_op_repr(t.pending, t)}')
    return ' '.join(out)

  def blocked(self) -> dict[str, tuple]:
    return {t.name: _op_repr(t.pending, t) for t in self.threads.values() if not t.finished}


def _op_repr(op, t=None):
  if op is None:
    return ('none',)
  kind = op[0]
  if kind == 'acq':
    return ('acq', op[1].name)
  if kind == 'wait':
    return ('wait', op[1].name, getattr(t, 'wake_kind', None))
  if kind == 'join':
    return ('join', op[1].name)
  if kind == 'pred':
    return ('pred', op[2] if len(op) > 2 else '')
  return tuple(op)


# ------------------------------------------------------------------ the active scheduler

_ACTIVE: list[Scheduler | None] = [None]


def active() -> Scheduler | None:
  return _ACTIVE[0]


def set_active(s: Scheduler | None):
  _ACTIVE[0] = s


def yield_point(tag: str = ''):
  s = _ACTIVE[0]
  if s is not None:
    s.yield_op(('yield', tag))


_NAMES = collections.Counter()


def _auto(prefix):
  _NAMES[prefix] += 1
  return f'{prefix}{_NAMES[prefix]}'


# ------------------------------------------------------------------ threading replacements


class Lock:
  reentrant = False

  def __init__(self, name: str | None = None):
    self.name = name or _auto('L')
    self.owner = None
    self.count = 0

  def acquire(self, blocking: bool = True, timeout: float = -1):
    s = _ACTIVE[0]
    me = s.current() if s else None
    if me is None:
      # driver thread: only legal when nobody holds the lock
      if self.owner is not None and not (self.reentrant and self.owner == 'driver'):
        raise RuntimeError(f'driver thread would block on {self.name}')
      self.owner = 'driver'
      self.count += 1
      return True
    if not blocking:
      if me.held == 0:
        s.yield_op(('yield', f'tryacq:{self.name}'))
      if self.owner is None or (self.reentrant and self.owner is me):
        # a lock taken with a try-acquire is a long-lived ownership token, not a critical section:
        # it does not make the holder's later reads "protected"
        self.owner = me
        self.count += 1
        return True
      return False
    if not (self.reentrant and self.owner is me):      # re-entering an owned RLock is not a scheduling point
      s.yield_op(('acq', self))
    self.owner = me
    self.count += 1
    me.held += 1
    self.counted = getattr(self, 'counted', 0) + 1
    return True

  def release(self):
    self.count -= 1
    o = self.owner
    if getattr(self, 'counted', 0) > 0:
      self.counted -= 1
      if o is not None and hasattr(o, 'held') and o.held > 0:
        o.held -= 1
    if self.count <= 0:
      self.count = 0
      self.owner = None

  def locked(self):
    s = _ACTIVE[0]
    me = s.current() if s else None
    if me is not None and me.held == 0:
      yield_point(f'locked:{self.name}')
    return self.owner is not None

  def __enter__(self):
    self.acquire()
    return self

  def __exit__(self, *a):
    self.release()


class RLock(Lock):
  reentrant = True


class Condition:

  def __init__(self, lock=None, name: str | None = None):
    self.name = name or _auto('C')
    self.lock = lock or RLock(self.name)
    self.waiters: collections.deque = collections.deque()
    self.notified: set = set()

  def acquire(self, *a, **k):
    return self.lock.acquire(*a, **k)

  def release(self):
    return self.lock.release()

  def __enter__(self):
    self.lock.acquire()
    return self

  def __exit__(self, *a):
    self.lock.release()

  def wait(self, timeout: float | None = None):
    s = _ACTIVE[0]
    me = s.current() if s else None
    if me is None:
      raise RuntimeError('Condition.wait from an unmanaged thread')
    saved = self.lock.count
    self.lock.count = 0
    self.lock.owner = None
    me.held = max(0, me.held - saved)
    self.waiters.append(me)
    s.yield_op(('wait', self, timeout))
    # scheduled: either notified or timed out; the lock is free (enabledness) -> re-acquire
    if me in self.notified:
      self.notified.discard(me)
      got = True
    else:
      try:
        self.waiters.remove(me)
      except ValueError:
        pass
      got = False
    self.lock.owner = me
    self.lock.count = saved
    me.held += saved
    return got

  def wait_for(self, predicate, timeout=None):
    result = predicate()
    while not result:
      if not self.wait(timeout):
        return predicate()
      result = predicate()
    return result

  def notify(self, n: int = 1):
    for _ in range(n):
      if not self.waiters:
        break
      self.notified.add(self.waiters.popleft())

  def notify_all(self):
    self.notify(len(self.waiters))


class Event:

  def __init__(self):
    self._flag = False
    self.name = _auto('Ev')

  def is_set(self):
    return self._flag

  def set(self):
    self._flag = True

  def clear(self):
    self._flag = False

  def wait(self, timeout=None):
    s = _ACTIVE[0]
    if s is None or s.current() is None:
      return self._flag
    if timeout is None:
      s.yield_op(('pred', lambda: self._flag, f'event:{self.name}'))
      return True
    s.yield_op(('yield', f'event-wait:{self.name}'))
    return self._flag


class Thread:
  """threading.Thread whose body runs as a managed thread."""

  def __init__(self, group=None, target=None, name=None, args=(), kwargs=None, daemon=None):
    self._target, self._args, self._kwargs = target, args, kwargs or {}
    self.name = name or _auto('T')
    self.daemon = daemon
    self._m: _MThread | None = None

  def start(self):
    s = _ACTIVE[0]
    self._m = s.spawn(self.name, lambda: self._target(*self._args, **self._kwargs))
    yield_point(f'thread-start:{self.name}')

  def is_alive(self):
    return self._m is not None and not self._m.finished

  def join(self, timeout=None):
    s = _ACTIVE[0]
    if self._m is None:
      return
    if s.current() is None:
      return
    if timeout is None:
      s.yield_op(('join', self._m))
    else:
      s.yield_op(('yield', f'join-timeout:{self.name}'))


class _Threading:
  """Stand-in for the `threading` module."""
  Lock = Lock
  RLock = RLock
  Condition = Condition
  Event = Event
  Thread = Thread
  Semaphore = _real_threading.Semaphore
  current_thread = staticmethod(_real_threading.current_thread)
  get_ident = staticmethod(_real_threading.get_ident)
  main_thread = staticmethod(_real_threading.main_thread)
  local = _real_threading.local
  TIMEOUT_MAX = _real_threading.TIMEOUT_MAX


threading = _Threading()


# ------------------------------------------------------------------ queue replacements


class SimpleQueue:
  """Inner queue: each operation is one atomic, always-enabled yield point."""
  maxsize = 0

  def __init__(self, name: str | None = None):
    self.items: collections.deque = collections.deque()
    self.name = name or _auto('Q')

  def put_nowait(self, x):
    yield_point(f'q.put:{self.name}')
    if self.maxsize and len(self.items) >= self.maxsize:
      raise Full()
    self.items.append(x)

  def get_nowait(self):
    yield_point(f'q.get:{self.name}')
    if not self.items:
      raise Empty()
    return self.items.popleft()

  def empty(self):
    yield_point(f'q.empty:{self.name}')
    return not self.items

  def qsize(self):
    return len(self.items)

  def full(self):
    return bool(self.maxsize) and len(self.items) >= self.maxsize

  # blocking forms are not used by IteratorQueue; provided for completeness (courier queues)
  def put(self, x, block=True, timeout=None):
    s = _ACTIVE[0]
    if self.maxsize and s is not None and s.current() is not None and block and timeout is None:
      s.yield_op(('pred', lambda: len(self.items) < self.maxsize, f'q.put-block:{self.name}'))
      self.items.append(x)
      return
    self.put_nowait(x)

  def get(self, block=True, timeout=None):
    s = _ACTIVE[0]
    if s is not None and s.current() is not None and block and timeout is None:
      s.yield_op(('pred', lambda: bool(self.items), f'q.get-block:{self.name}'))
      return self.items.popleft()
    return self.get_nowait()


class Queue(SimpleQueue):

  def __init__(self, maxsize: int = 0, name: str | None = None):
    super().__init__(name)
    self.maxsize = maxsize


class _QueueModule:
  Empty = Empty
  Full = Full
  SimpleQueue = SimpleQueue
  Queue = Queue


queue = _QueueModule()


# ------------------------------------------------------------------ futures replacement


class Future:

  def __init__(self):
    self._done = False
    self._result = None
    self._exc = None
    self.name = _auto('F')

  def done(self):
    return self._done

  def cancel(self):
    return False

  def cancelled(self):
    return False

  def set_result(self, r):
    self._result, self._done = r, True

  def set_exception(self, e):
    self._exc, self._done = e, True

  def _wait(self):
    s = _ACTIVE[0]
    if not self._done and s is not None and s.current() is not None:
      s.yield_op(('pred', lambda: self._done, f'future:{self.name}'))

  def result(self, timeout=None):
    self._wait()
    if self._exc is not None:
      raise self._exc
    return self._result

  def exception(self, timeout=None):
    self._wait()
    return self._exc


class ThreadPoolExecutor:
  """Executor whose workers are managed threads; honours max_workers."""

  def __init__(self, max_workers=None, thread_name_prefix='pool', per_task_threads=False, **_):
    self._max = max_workers or 32
    self._max_workers = self._max       # same private name as concurrent.futures.ThreadPoolExecutor
    # per_task_threads: the k-th submitted task runs on its own managed thread named after k and first waits
    # for one of the max_workers slots (any waiting task may get a free slot: a superset of FIFO hand-out)
    self._per_task = per_task_threads
    self._running = 0
    self._prefix = (thread_name_prefix or 'pool').replace(' ', '_').replace('"', '').replace(':', '')
    self._tasks: collections.deque = collections.deque()
    self._workers: list[_MThread] = []
    self._idle = 0
    self._shutdown = False
    self.name = _auto('X')

  def _worker(self, first=None):
    task = first
    while True:
      if task is None:
        if not self._tasks:
          return
        task = self._tasks.popleft()
      fut, fn, args, kwargs = task
      task = None
      try:
        fut.set_result(fn(*args, **kwargs))
      except Aborted:
        raise
      except BaseException as e:  # pylint: disable=broad-exception-caught
        fut.set_exception(e)

  def _wname(self, k):
    # a prefix ending in '#' names the workers prefix1, prefix2, ... (spec process ids)
    if self._prefix.endswith('#'):
      return f'{self._prefix[:-1]}{k}'
    return f'{self._prefix}-w{k}'

  def submit(self, fn, *args, **kwargs):
    if self._shutdown:
      raise RuntimeError('cannot schedule new futures after shutdown')
    s = _ACTIVE[0]
    fut = Future()
    task = (fut, fn, args, kwargs)
    if self._per_task:
      def run(t=task):
        s.yield_op(('pred', lambda: self._running < self._max, f'pool-slot:{self.name}'))
        self._running += 1
        try:
          self._worker(t)
        finally:
          self._running -= 1
      self._workers.append(s.spawn(self._wname(len(self._workers) + 1), run))
      return fut
    live = [w for w in self._workers if not w.finished]
    if len(live) < self._max:
      # the new worker is bound to this task (worker k runs the k-th submitted task first)
      self._workers.append(s.spawn(self._wname(len(self._workers) + 1), lambda t=task: self._worker(t)))
    else:
      self._tasks.append(task)
    return fut

  def shutdown(self, wait=True, cancel_futures=False):
    self._shutdown = True
    if cancel_futures:
      self._tasks.clear()
    s = _ACTIVE[0]
    if wait and s is not None and s.current() is not None:
      s.yield_op(('pred', lambda: all(w.finished for w in self._workers), f'pool-shutdown:{self.name}'))

  def workers_alive(self):
    return [w.name for w in self._workers if not w.finished]

  def __enter__(self):
    return self

  def __exit__(self, *a):
    self.shutdown(wait=True)


class _Futures:
  ThreadPoolExecutor = ThreadPoolExecutor
  Future = Future

  @staticmethod
  def as_completed(fs, timeout=None):
    fs = list(fs)
    pending = list(fs)
    while pending:
      s = _ACTIVE[0]
      if s is not None and s.current() is not None and not any(f.done() for f in pending):
        s.yield_op(('pred', lambda: any(f.done() for f in pending), 'as_completed'))
      for f in list(pending):
        if f.done():
          pending.remove(f)
          yield f

  @staticmethod
  def wait(fs, timeout=None, return_when='ALL_COMPLETED'):
    fs = list(fs)
    s = _ACTIVE[0]
    if s is not None and s.current() is not None:
      if return_when == 'FIRST_COMPLETED':
        s.yield_op(('pred', lambda: any(f.done() for f in fs), 'futures.wait-first'))
      else:
        s.yield_op(('pred', lambda: all(f.done() for f in fs), 'futures.wait-all'))
    done = {f for f in fs if f.done()}
    return done, set(fs) - done

  FIRST_COMPLETED = 'FIRST_COMPLETED'
  ALL_COMPLETED = 'ALL_COMPLETED'


futures = _Futures()


# ------------------------------------------------------------------ policies


class Scripted:
  """Follows a list of thread names; afterwards (or on a disabled choice) falls back.

  `strict=True` raises ScheduleMismatch when the scripted thread is not enabled.
  """

  def __init__(self, script, fallback=None, strict=False):
    self.script = list(script)
    self.pos = 0
    self.fallback = fallback or RoundRobin()
    self.strict = strict
    self.mismatch_at = None

  def choose(self, enabled, sched):
    if self.pos < len(self.script):
      want = self.script[self.pos]
      self.pos += 1
      if want in enabled:
        return want
      if self.mismatch_at is None:
        self.mismatch_at = (self.pos - 1, want, list(enabled))
      if self.strict:
        raise ScheduleMismatch(f'step {self.pos - 1}: {want} not enabled, enabled={enabled}')
    return self.fallback.choose(enabled, sched)


class ScheduleMismatch(Exception):
  pass


class RoundRobin:

  def __init__(self):
    self.last = None

  def choose(self, enabled, sched):
    names = list(sched.threads)
    if self.last in names:
      i = names.index(self.last)
      order = names[i + 1:] + names[:i + 1]
    else:
      order = names
    for n in order:
      if n in enabled:
        self.last = n
        return n
    raise AssertionError('no enabled thread')


class Random:

  def __init__(self, rnd, stickiness: float = 0.0):
    self.rnd = rnd
    self.last = None
    self.stickiness = stickiness

  def choose(self, enabled, sched):
    if self.last in enabled and self.rnd.random() < self.stickiness:
      return self.last
    self.last = self.rnd.choice(sorted(enabled))
    return self.last


class Recording:
  """Wraps a policy and records the choice points (for systematic exploration)."""

  def __init__(self, inner):
    self.inner = inner
    self.choices: list[tuple[list[str], str]] = []

  def choose(self, enabled, sched):
    c = self.inner.choose(enabled, sched)
    self.choices.append((sorted(enabled), c))
    return c
