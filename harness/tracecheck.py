"""Batch trace validation with TLC (code -> spec): many recorded traces per JVM start.

A trace spec (Trace_X.tla) picks a trace id in its initial state and consumes one recorded
event per step; it prints <<"A", tid>> when a trace has been consumed completely.  Rejected
traces are re-run one at a time with progress printing to find the first event no action
explains."""
from __future__ import annotations

import json
import os
import shutil

from harness import tlc


def validate(spec_dir, module, traces, constants, *, timeout=1800, explain=3):
  """traces: list of event lists.  Returns (accepted_ids, rejected: {id: dict(line, event)}, tlc result)."""
  scratch = tlc.scratch_dir('verif_tr_')
  try:
    path = os.path.join(scratch, 'traces.json')
    with open(path, 'w') as f:
      json.dump(traces, f)
    cfg = tlc.cfg_text(spec='TSpec', constants=constants, invariants=['Accepted'], deadlock=False)
    res = tlc.run(spec_dir, module, cfg, workers=4, timeout=timeout, env={'TRACE_FILE': path})
    if not res.ok:
      raise tlc.TlcError(f'trace validation run failed: {res.error_kind} {res.error_name}\n{res.raw_tail}')
    accepted = {p[1] for p in res.prints if isinstance(p, list) and p and p[0] == 'A'}
    rejected = {}
    todo = [i for i in range(1, len(traces) + 1) if i not in accepted]
    for i in todo[:explain]:
      with open(path, 'w') as f:
        json.dump([traces[i - 1]], f)
      cfg1 = tlc.cfg_text(spec='TSpec', constants=constants, invariants=['Progress'], deadlock=False)
      r1 = tlc.run(spec_dir, module, cfg1, workers=1, timeout=timeout, env={'TRACE_FILE': path})
      reached = max([p[2] for p in r1.prints if isinstance(p, list) and p and p[0] == 'P'] or [1])
      ev = traces[i - 1][reached - 1] if reached - 1 < len(traces[i - 1]) else None
      rejected[i] = dict(line=reached, event=ev, prefix=traces[i - 1][max(0, reached - 6):reached - 1])
    for i in todo[explain:]:
      rejected[i] = dict(line=None, event=None)
    return accepted, rejected, res
  finally:
    shutil.rmtree(scratch, ignore_errors=True)
