"""Batch trace validation with TLC (code -> spec): many recorded traces per JVM start.

A trace spec (Trace_X.tla) picks a trace id in its initial state and consumes one recorded
event per step; it prints <<"A", tid>> when a trace has been consumed completely.  Rejected
traces are re-run one at a time with progress printing to find the first event no action
explains."""
from __future__ import annotations

import json
import os
import shutil

from harness import tlc


def validate(spec_dir, module, traces, constants, *, timeout=1800, explain=3, invariants=()):
  """traces: list of event lists.  Returns (accepted_ids, rejected: {id: dict(line, event)}, tlc result).

  `invariants` of the base spec are evaluated at every step of every trace; a trace on which one fails
  is reported as rejected with the invariant's name."""
  scratch = tlc.scratch_dir('verif_tr_')
  try:
    path = os.path.join(scratch, 'traces.json')
    inv_failed = {}
    live = list(range(1, len(traces) + 1))
    while True:
      with open(path, 'w') as f:
        json.dump([traces[i - 1] for i in live], f)
      cfg = tlc.cfg_text(spec='TSpec', constants=constants, invariants=['Accepted'] + list(invariants), deadlock=False)
      res = tlc.run(spec_dir, module, cfg, workers=4, timeout=timeout, env={'TRACE_FILE': path})
      if not res.ok and res.error_kind == 'invariant' and res.error_name in invariants and res.trace and len(inv_failed) < 5:
        last = res.trace[-1]
        k = int(last.get('tid', 1))
        inv_failed[live[k - 1]] = dict(line=int(last.get('l', 0)), event=dict(ev='invariant', op=res.error_name, k=res.error_name),
                                       prefix=traces[live[k - 1] - 1][max(0, int(last.get('l', 1)) - 6):int(last.get('l', 1)) - 1])
        live.pop(k - 1)
        if live:
          continue
      break
    if not res.ok and not inv_failed:
      raise tlc.TlcError(f'trace validation run failed: {res.error_kind} {res.error_name}\n{res.raw_tail}')
    accepted = {live[p[1] - 1] for p in res.prints if isinstance(p, list) and p and p[0] == 'A'} if res.ok else set()
    rejected = dict(inv_failed)
    traces_live = set(live)
    todo = [i for i in range(1, len(traces) + 1) if i not in accepted and i in traces_live]
    # every rejected trace is explained (one TLC run per chunk, progress printed per trace id): `explain` only
    # bounds the work on trees where hundreds of traces are rejected
    exp = todo if explain else []
    exp = exp[:max(explain, 60)]
    for c in range(0, len(exp), 30):
      chunk = exp[c:c + 30]
      with open(path, 'w') as f:
        json.dump([traces[i - 1] for i in chunk], f)
      cfg1 = tlc.cfg_text(spec='TSpec', constants=constants, invariants=['Progress'], deadlock=False)
      r1 = tlc.run(spec_dir, module, cfg1, workers=1, timeout=timeout, env={'TRACE_FILE': path})
      for k, i in enumerate(chunk, 1):
        reached = max([p[2] for p in r1.prints if isinstance(p, list) and len(p) > 2 and p[0] == 'P' and p[1] == k] or [1])
        ev = traces[i - 1][reached - 1] if reached - 1 < len(traces[i - 1]) else None
        rejected[i] = dict(line=reached, event=ev, prefix=traces[i - 1][max(0, reached - 6):reached - 1])
    for i in todo:
      if i not in rejected:
        rejected[i] = dict(line=None, event=None)
    return accepted, rejected, res
  finally:
    shutil.rmtree(scratch, ignore_errors=True)
