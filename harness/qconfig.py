"""Configurations of spec/queue/IterQueue.tla: one Python dict -> TLC constants + MC definitions."""
from __future__ import annotations

from harness import tlc


def fn(d):
  """Python dict -> TLA+ function literal."""
  if not d:
    return '<<>>'
  def v(x):
    return tlc.tla(x)
  return '(' + ' @@ '.join(f'{tlc.tla(k)} :> {v(x)}' for k, x in d.items()) + ')'


ALL_FIXES = frozenset({'stop_notify_enqueuers', 'stopped_flag', 'batch_recheck_done', 'batch_keeps_partial_on_error'})


def make(prods, cons, *, cap=1, stoppers=None, declared=None, timeout=False, ignore_error=False, fixes=ALL_FIXES,
         shared=None, pool=0):
  """shared: None or (n_items, fail_at): producers are pool workers over ONE shared input.
  cons may use ('diter', num_steps): DequeueIterator inside MultiplexIterator."""
  """prods: {name: (n_items, fail_at)}; cons: {name: ('get',) | ('batch', K, block)}; stoppers: {name: with_exc}."""
  stoppers = stoppers or {}
  consts = dict(
      Prods=set(prods), Cons=set(cons), Stoppers=set(stoppers), Cap=cap,
      DeclaredMax=len(prods) if declared is None else declared, Timeout=timeout, IgnoreError=ignore_error,
      Fixes=set(fixes), Shared=bool(shared), SrcN=(shared[0] if shared else 0), SrcFail=(shared[1] if shared else 0),
      Steps='<- mc_Steps', PoolSize=pool,
      N='<- mc_N', FailAt='<- mc_FailAt', Mode='<- mc_Mode', K='<- mc_K', Block='<- mc_Block', StopExc='<- mc_StopExc')
  defs = dict(
      mc_N=fn({p: v[0] for p, v in prods.items()}),
      mc_FailAt=fn({p: v[1] for p, v in prods.items()}),
      mc_Mode=fn({c: v[0] for c, v in cons.items()}),
      mc_K=fn({c: (v[1] if len(v) > 1 and v[0] == 'batch' else 0) for c, v in cons.items()}),
      mc_Block=fn({c: (bool(v[2]) if len(v) > 2 and v[0] == 'batch' else False) for c, v in cons.items()}),
      mc_Steps=('(' + ' @@ '.join(f'{tlc.tla(c)} :> {(v[1] if v[0] == "diter" else -1)}' for c, v in cons.items()) + ')') if cons else '<<>>',
      mc_StopExc=fn({s: bool(e) for s, e in stoppers.items()}))
  return consts, defs


SAFETY = ['TypeOK', 'NoDup', 'Causal', 'PerProducerOrder', 'FaultFreeEnd', 'EndOnlyWhenDone', 'FailureSeen']
