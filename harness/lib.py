"""Module-level (hence picklable) callables and aggregates used by the replay drivers.

They are the Python twins of the function library the TLA+ pipeline specs use; each has
the same name in spec/pipeline/*.tla.
"""
from __future__ import annotations

from ml_metrics._src.aggregates import base as agg_base


class Collect(agg_base.AggregateFn):
  """Aggregate whose result is the list of everything it was fed, in order.

  With it the abstract state of the spec (the sequence of row ids an accumulator has
  absorbed) can be read off the real pipeline directly.
  """

  def create_state(self):
    return []

  def update_state(self, state, *inputs):
    x = inputs[0] if len(inputs) == 1 else tuple(inputs)
    return state + [x]

  def merge_states(self, states):
    out = []
    for s in states:
      out = out + list(s)
    return out

  def get_result(self, state):
    return list(state)

  def __eq__(self, other):
    return isinstance(other, Collect)

  def __hash__(self):
    return hash('Collect')


class CollectInPlace(Collect):
  """Collect that updates its state in place, like most shipped metrics do (state.add(...))."""

  def update_state(self, state, *inputs):
    state.append(inputs[0] if len(inputs) == 1 else tuple(inputs))
    return state

  def __eq__(self, other):
    return isinstance(other, CollectInPlace)

  def __hash__(self):
    return hash('CollectInPlace')


class CollectRows(agg_base.AggregateFn):
  """Like Collect but flattens batches: every input is an iterable of rows."""

  def create_state(self):
    return []

  def update_state(self, state, *inputs):
    if len(inputs) == 1:
      return state + list(inputs[0])
    return state + list(zip(*inputs))

  def merge_states(self, states):
    out = []
    for s in states:
      out = out + list(s)
    return out

  def get_result(self, state):
    return list(state)

  def __eq__(self, other):
    return isinstance(other, CollectRows)

  def __hash__(self):
    return hash('CollectRows')


def ident(x):
  return x


def inc(x):
  return x + 1


def add100(x):
  return x + 100


def as_batch100(x):
  import numpy as np
  return np.array([x + 100.0])


def add(x, y):
  return x + y


def pair(x):
  return (x, x + 10)


def swap(x, y):
  return (y, x)


def const7(*_):
  return 7


def is_even(x):
  return x % 2 == 0


class FailOn:
  """Callable raising ValueError on the listed values (a skippable error type)."""

  def __init__(self, bad, exc=ValueError, then=inc):
    self.bad = frozenset(bad)
    self.exc = exc
    self.then = then

  def __call__(self, x):
    if x in self.bad:
      raise self.exc(f'failOn({x})')
    return self.then(x)


# ------------------------------------------------------------------ distributed pipelines (picklable by reference)


def is_odd(x):
  return x % 2 == 1


def define_pipeline(n, shard_index=0, num_shards=1, agg='collect', fail_on=(), prog='map'):
  """Source 0..n-1 sharded (shard_index, num_shards) -> [filter odd ->] +100 -> aggregate."""
  from ml_metrics._src.aggregates import rolling_stats
  from ml_metrics._src.chainables import io, transform
  ds = io.SequenceDataSource(list(range(n))).shard(shard_index, num_shards)
  p = transform.TreeTransform.new(name='p').data_source(ds)
  if prog == 'filtermap':
    p = p.filter(is_odd)
  if fail_on:
    p = p.apply(fn=FailOn(fail_on, exc=RuntimeError, then=add100))
  else:
    p = p.apply(fn=add100)
  if agg == 'collect':
    return p.aggregate(fn=CollectInPlace())
  if agg == 'meanvar':
    return p.apply(fn=_as_arr).aggregate(fn=rolling_stats.MeanAndVariance().as_agg_fn())
  return p


def _as_arr(x):
  import numpy as np
  return np.array([float(x)])


def stage_a(n):
  from ml_metrics._src.chainables import io, transform
  return transform.TreeTransform.new(name='a').data_source(io.SequenceDataSource(list(range(n)))).apply(fn=add100)


def two_stage_pipeline(n, with_source=True):
  """named stage 'a' (source + add100) chained with named stage 'b' (inc + aggregate)."""
  from ml_metrics._src.chainables import transform
  a = stage_a(n) if with_source else transform.TreeTransform.new(name='a').apply(fn=add100)
  b = transform.TreeTransform.new(name='b').apply(fn=inc).aggregate(fn=CollectInPlace())
  return a.chain(b)


import threading as _threading

GATE = _threading.Event()


def gated_add100(x):
  """add100 whose evaluation blocks until the harness opens GATE (an answer that arrives at a chosen moment)."""
  GATE.wait(10)
  return x + 100


def two_agg_pipeline(n, shard_index=0, num_shards=1):
  """two named stages that both aggregate: 'a' source -> +100 -> collect as 'x'; 'b' -> +1 -> collect as 'y'"""
  from ml_metrics._src.chainables import io, transform
  ds = io.SequenceDataSource(list(range(n))).shard(shard_index, num_shards)
  a = transform.TreeTransform.new(name='a').data_source(ds).apply(fn=add100).aggregate(fn=CollectInPlace(), output_keys='x')
  b = transform.TreeTransform.new(name='b').apply(fn=inc).aggregate(fn=CollectInPlace(), output_keys='y')
  return a.chain(b)


def vpar(x):
  """One-row batch with two columns: the value + 100 and its parity (the slicing feature)."""
  return [x + 100], [x % 2]


# ---- tasks whose completion the harness schedules (AsCompleted.tla replays): attempt k of task t blocks until
# ---- GATES[(t, k)] opens and then answers as OUTCOMES[(t, k)] says ("ok" | "timeout")
GATES = {}
OUTCOMES = {}
STARTED = {}
ATTEMPTS = {}
_GLOCK = _threading.Lock()


def gates_reset():
  with _GLOCK:
    for ev in GATES.values():
      ev.set()
    GATES.clear()
    OUTCOMES.clear()
    STARTED.clear()
    ATTEMPTS.clear()


def gate(t, k):
  with _GLOCK:
    return GATES.setdefault((t, k), _threading.Event())


def started(t, k):
  with _GLOCK:
    return STARTED.setdefault((t, k), _threading.Event())


def scheduled_task(t):
  from harness import fakecourier
  with _GLOCK:
    k = ATTEMPTS[t] = ATTEMPTS.get(t, 0) + 1
  started(t, k).set()
  gate(t, k).wait(20)
  if OUTCOMES.get((t, k), 'ok') == 'timeout':
    raise fakecourier.DeadlineExceeded()
  if OUTCOMES.get((t, k), 'ok') == 'error':
    raise RuntimeError(f'application error in task {t}')      # non-retriable
  return 100 + t


class NestedCount(agg_base.AggregateFn):
  """Aggregate whose state holds a container that is updated in place (like rolling_stats.Counter or a sampler's reservoir):
  {'n': [count]}.  Every state - the unsliced one and each slice's - has to be a container of its own."""

  def create_state(self):
    return {'n': [0]}

  def update_state(self, state, *inputs):
    state['n'][0] += len(inputs[0])
    return state

  def merge_states(self, states):
    return {'n': [sum(s['n'][0] for s in states)]}

  def get_result(self, state):
    return state['n'][0]

  def __eq__(self, other):
    return isinstance(other, NestedCount)

  def __hash__(self):
    return hash('NestedCount')


class RunningMax(agg_base.AggregateFn):
  """Aggregate whose state is a bare number: the running maximum of 3 - b over the rows it was fed (so 0 and negative
  values occur; the initial state is -inf).  A state that happens to be 0 is still a state."""

  def create_state(self):
    return float('-inf')

  def update_state(self, state, *inputs):
    vals = [3 - int(x) for x in inputs[0]]
    return max([state] + vals)

  def merge_states(self, states):
    return max(states)

  def get_result(self, state):
    return state

  def __eq__(self, other):
    return isinstance(other, RunningMax)

  def __hash__(self):
    return hash('RunningMax')


def failing_range(n, fail_at=0, ret='done'):
  """Generator 0..n-1 that raises (non-skippable) instead of producing its fail_at-th element; returns `ret`."""
  for i in range(n):
    if fail_at and i == fail_at - 1:
      raise RuntimeError(f'generator fails at its element {fail_at}')
    yield i
  return ret
