"""Free-running distributed harness: the real CourierServer / PrefetchedCourierServer,
CourierClient / Worker / WorkerPool and orchestrate.* over the in-process transport
(harness/fakecourier.py) with a scaled clock, so heartbeat thresholds of minutes elapse in
fractions of a second.  Faults are injected by the switchboard at the i-th call of a worker."""
from __future__ import annotations

import contextlib
import queue as _queue
import threading
import time as _real_time
import types as pytypes

from harness import fakecourier

SCALE = 200.0


class ScaledTime:
  """time.time() runs SCALE times faster; sleep(x) sleeps x / SCALE (at least a yield)."""
  _t0 = _real_time.time()
  offset = 0.0

  @classmethod
  def time(cls):
    return cls._t0 + (_real_time.time() - cls._t0) * SCALE + cls.offset

  @staticmethod
  def sleep(x=0):
    _real_time.sleep(max(x / SCALE, 0.0005))

  @classmethod
  def jump(cls, secs):
    cls.offset += secs


_vt = pytypes.SimpleNamespace(time=ScaledTime.time, sleep=ScaledTime.sleep, monotonic=ScaledTime.time)


@contextlib.contextmanager
def installed():
  from ml_metrics._src.chainables import courier_server, courier_worker, orchestrate
  from ml_metrics._src.utils import courier_utils
  mods = (courier_utils, courier_server, courier_worker, orchestrate)
  saved = [(m, getattr(m, 'time'), getattr(m, 'courier', None)) for m in mods]
  for m in mods:
    m.time = _vt
    if hasattr(m, 'courier'):
      m.courier = fakecourier
  saved_signal = courier_server.signal
  courier_server.signal = pytypes.SimpleNamespace(signal=lambda *a, **k: None, SIGINT=2, SIGTERM=15, SIGABRT=6)
  old_reg = courier_utils._worker_registry
  courier_utils._worker_registry = courier_utils.WorkerRegistry()
  fakecourier.BOARD.reset()
  try:
    yield pytypes.SimpleNamespace(courier_utils=courier_utils, courier_server=courier_server,
                                  courier_worker=courier_worker, orchestrate=orchestrate)
  finally:
    for m, ti, co in saved:
      m.time = ti
      if co is not None:
        m.courier = co
    courier_server.signal = saved_signal
    courier_utils._worker_registry = old_reg
    fakecourier.BOARD.reset()


_RUN = [0]


class Cluster:
  """n prefetching worker servers + a pool over them."""

  def __init__(self, mods, n_workers, *, prefetch=2, call_timeout=20.0, heartbeat_threshold=90.0, iterate_batch_size=1,
               master=False):
    _RUN[0] += 1
    self.mods = mods
    # master=True: a CourierServer in the pool's process receives the workers' alive / death notices (`clients=`)
    self.master = None
    self._clients = ()
    if master:
      self.master = mods.courier_server.CourierServer(f'master-r{_RUN[0]}')
      self.master.start()
      self._clients = (self.master.address,)
    self._prefetch = prefetch
    self.names = [f'w{i + 1}-r{_RUN[0]}' for i in range(n_workers)]
    self.servers = []
    for name in self.names:
      s = mods.courier_server.PrefetchedCourierServer(name, prefetch_size=prefetch, clients=self._clients)
      s.start()
      self.servers.append(s)
    self.pool = mods.courier_worker.WorkerPool(self.names, call_timeout=call_timeout,
                                               heartbeat_threshold_secs=heartbeat_threshold,
                                               iterate_batch_size=iterate_batch_size)

  def plan(self, worker_index, call_index, outcome):
    fakecourier.BOARD.plan.setdefault(self.names[worker_index], {})[call_index] = outcome

  def kill(self, worker_index):
    with fakecourier.BOARD.lock:
      fakecourier.BOARD.dead.add(self.names[worker_index])

  def restart(self, worker_index, same_object=False):
    """The worker rejoins: a NEW server (as a new process would be) under the same address."""
    name = self.names[worker_index]
    old = self.servers[worker_index]
    try:
      old._request_shutdown()
    except Exception:  # pylint: disable=broad-exception-caught
      pass
    if same_object:
      s = old            # stop() ... start() on the same server object
    else:
      # CourierServer is a singleton per (address, auto-shutdown, prefetch size): a different auto-shutdown value
      # gives a distinct object under the same address, as a new process would have
      self._incarnation = getattr(self, '_incarnation', 0) + 1
      s = self.mods.courier_server.PrefetchedCourierServer(name, prefetch_size=self._prefetch, clients=self._clients,
                                                           timeout_secs=10200 + self._incarnation)
    s.start()            # Start() of the transport clears the dead mark of the address
    self.servers[worker_index] = s
    return s

  def graceful_stop(self, worker_index):
    """The worker announces its death (is_alive=False notice to its clients) and stops."""
    s = self.servers[worker_index]
    s.stop().join(timeout=5)
    if self.master is not None:
      # the notice is sent asynchronously: wait until it has been recorded, so that a following restart's alive
      # notice cannot overtake it inside the in-process transport
      reg = self.mods.courier_utils._worker_registry
      t0 = _real_time.time()
      while reg.data.get(self.names[worker_index], 0) is not None and _real_time.time() - t0 < 3:
        _real_time.sleep(0.002)

  def close(self):
    for s in self.servers + ([self.master] if self.master is not None else []):
      try:
        s._request_shutdown()
        t = s._thread
        if t is not None:
          t.join(timeout=2)
      except Exception:  # pylint: disable=broad-exception-caught
        pass


@contextlib.contextmanager
def cluster(n_workers, **kw):
  with installed() as mods:
    c = Cluster(mods, n_workers, **kw)
    try:
      yield c
    finally:
      c.close()


def run_with_deadline(fn, seconds=30.0):
  """Runs fn() on a daemon thread; returns ('ok', value) | ('raised', exc) | ('hung', None)."""
  box = {}

  def target():
    try:
      box['v'] = ('ok', fn())
    except BaseException as e:  # pylint: disable=broad-exception-caught
      box['v'] = ('raised', e)

  t = threading.Thread(target=target, daemon=True)
  t.start()
  t.join(seconds)
  return box.get('v', ('hung', None))
