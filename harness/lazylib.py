"""Python twins of the function library of spec/remote/LazyEval.tla (module level => picklable)."""
from __future__ import annotations

import dataclasses as dc

TICKS = [0]


def reset():
  TICKS[0] = 0


def inc(x):
  return x + 1


def add(x, y):
  return x + y


def kwf(**kw):
  """Order-observing keyword callee: 10 * (first keyword's value) + (second keyword's value)."""
  vals = list(kw.values())
  assert sorted(kw) == ['a', 'z'], kw
  return 10 * vals[0] + vals[1]


def kind(x):
  """observes the type of its argument: 1, True and 1.0 are equal and hash alike, yet they are different arguments"""
  return {int: 0, bool: 1, float: 2}[type(x)]


def enc(x):
  """a callee whose result is a bytes object"""
  return str(x).encode()


def mkerr(x):
  """a callee whose RESULT is an exception object (returned, not raised)"""
  return ValueError(f'made({x})')


def lit(e):
  return {'int': int, 'bool': bool, 'float': float}[e.get('k', 'int')](e['v'])


def count_len(xs):
  """len(xs), counting its own evaluations in TICKS."""
  TICKS[0] += 1
  return len(xs)


def kwlen(payload=b''):
  return len(payload)


def tick():
  TICKS[0] += 1
  return 100 * TICKS[0]


def boom(x):
  raise ValueError(f'boom({x})')


@dc.dataclass(frozen=True)
class Box:
  val: int

  @property
  def items(self):
    return (self.val, self.val + 1)

  def plus(self, y):
    return self.val + y


def box(x):
  return Box(x)


FUNCS = dict(inc=inc, add=add, tick=tick, boom=boom, box=box, kwf=kwf, kind=kind, enc=enc, mkerr=mkerr)


def build(e, traced_literals=False):
  """Spec expression (JSON) -> lazy expression built with lazy_fns.trace.  traced_literals: every literal argument is
  itself a lazy value, trace(v) (the expression means the same)."""
  from ml_metrics._src.chainables import lazy_fns
  t = e['t']
  if t == 'lit':
    return lazy_fns.trace(lit(e)) if traced_literals else lit(e)
  if t == 'call':
    args = [build(a, traced_literals) for a in e['args']]
    if e['f'] == 'kwf':
      return lazy_fns.trace(kwf)(z=args[0], a=args[1], cache_result_=bool(e['c']))
    return lazy_fns.trace(FUNCS[e['f']])(*args, cache_result_=bool(e['c']))
  if t == 'attr':
    return build(e['e'], traced_literals).val
  if t == 'item':
    return build(e['e'], traced_literals).items[e['i']]
  raise ValueError(t)


def eager(e):
  """Independent eager evaluation of the same expression (plain Python)."""
  t = e['t']
  if t == 'lit':
    return lit(e)
  if t == 'call':
    args = [eager(a) for a in e['args']]
    if e['f'] == 'kwf':
      return kwf(z=args[0], a=args[1])
    return FUNCS[e['f']](*args)
  if t == 'attr':
    return eager(e['e']).val
  if t == 'item':
    return eager(e['e']).items[e['i']]
  raise ValueError(t)


# ---- keyed evaluators for the Lru spec: key k <-> a cached traced call of KEYED[k]
KEY_CALLS = {}


class Obj:
  """A fresh object per evaluation; identity is what the Lru replay compares."""

  def __init__(self, k, n):
    self.k, self.n = k, n

  def __repr__(self):
    return f'Obj(k={self.k}, gen={self.n})'


NONE_KEYS = set()      # keys whose traced call returns None (a legitimate value to cache)


def _mk_keyed(k):
  def fn():
    KEY_CALLS[k] = KEY_CALLS.get(k, 0) + 1
    if k in NONE_KEYS:
      return None
    return Obj(k, KEY_CALLS[k])
  fn.__name__ = fn.__qualname__ = f'keyed_{k}'
  return fn


KEYED = {k: _mk_keyed(k) for k in range(1, 9)}
for _k, _f in KEYED.items():
  globals()[f'keyed_{_k}'] = _f
