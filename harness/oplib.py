"""Python side of spec/pipeline/Operators.tla: the function library under the same names,
spec program -> real TreeTransform, spec trees <-> Python data, and the runner that
executes a program on the real code and reports the observable outcome."""
from __future__ import annotations

import copy
import gc


# ---------------------------------------------------------------- function library
def inc(x):
  return x + 1


def sub(x, y):
  return x - y


def pair(x):
  return x, x + 10


def swap(x, y):
  return y, x


def const7():
  return 7


def odd(x):
  return x % 2 == 1


def mod3(x):
  return x % 3


def gt(x, y):
  return x > y


def mkdict(x):
  return {'p': x, 'q': x + 1}


def sumab(r):
  return r['a'] + r['b']


def ident(x):
  return x


class OpFailure(ValueError):
  pass


def failodd(x):
  if x % 2:
    raise OpFailure(f'failodd({x})')
  return x + 100


def fail3(x):
  if x == 3:
    raise OpFailure(f'fail3({x})')
  return x + 100


FUNCS = dict(inc=inc, sub=sub, pair=pair, swap=swap, const7=const7, odd=odd, gt=gt, mod3=mod3, mkdict=mkdict, sumab=sumab,
             ident=ident, failodd=failodd, fail3=fail3)


class RecSink:
  """types.SinkT: write(*args, **kwargs) / close()."""

  def __init__(self):
    self.data = []
    self.closed = 0

  def write(self, *args, **kwargs):
    self.data.append((copy.deepcopy(args), copy.deepcopy(kwargs)))

  def close(self):
    self.closed += 1


# ---------------------------------------------------------------- conversions
class _Err:
  def __repr__(self):
    return 'SPEC-ERR'


ERR = _Err()


def to_py(t):
  k = t['k']
  if k == 'leaf':
    return t['v']
  if k == 'err':
    return ERR
  if k == 'null':
    return None
  if k == 'dict':
    return {n: to_py(c) for n, c in zip(t['keys'], t['kids'])}
  kids = [to_py(c) for c in t['kids']]
  if k == 'list':
    return kids
  if k == 'tuple':
    return tuple(kids)
  if k == 'dictset':     # a batch: unordered columns {path -> values}
    cols = sorted(t['cols'], key=lambda c: [(e['t'], e['s'], e['i']) for e in c[0]])
    root = None
    for p, vals in cols:
      root = _set_path(root, p, [to_py(v) for v in vals])
    return root
  raise ValueError(k)


def _set_path(node, path, value):
  """default-tree construction: a key creates a dict, an index a list (append at its length)"""
  if not path:
    return value
  e = path[0]
  if e['t'] == 'key':
    node = {} if node is None else node
    node[e['s']] = _set_path(node.get(e['s']), path[1:], value)
    return node
  node = [] if node is None else node
  i = e['i']
  if i < len(node):
    node[i] = _set_path(node[i], path[1:], value)
  else:
    node.append(_set_path(None, path[1:], value))
  return node


def canon(x):
  """Order-insensitive for dicts, type-aware for list/tuple; bool == int like Python."""
  if isinstance(x, dict):
    return ('dict', tuple(sorted((str(k), canon(v)) for k, v in x.items())))
  if isinstance(x, tuple):
    return ('tuple', tuple(canon(v) for v in x))
  if isinstance(x, list):
    return ('list', tuple(canon(v) for v in x))
  if isinstance(x, bool):
    return int(x)
  return x


def _path(p):
  from ml_metrics._src.chainables import tree
  if len(p) == 1 and p[0]['t'] == 'self':
    return tree.Key.SELF
  if len(p) == 1 and p[0]['t'] == 'skip':
    return tree.Key.SKIP
  if len(p) == 1 and p[0]['t'] == 'key':
    return p[0]['s']
  if len(p) == 1 and p[0]['t'] == 'idx':
    return tree.Key.Index(p[0]['i'])      # the bare shorthand (Index(0) is falsy: an int subclass)
  k = tree.Key()
  for e in p:
    k = k.at(e['s'] if e['t'] == 'key' else tree.Key.Index(e['i']))
  return k


def in_keys(o):
  from ml_metrics._src.chainables import tree
  els = [tree.Key.Literal(e['v']) if e['t'] == 'lit' else _path(e['p']) for e in o['ins']]
  if o['kw']:
    return dict(zip(o['kw'], els))
  if len(els) == 1:
    return els[0]
  return tuple(els)


def out_keys(o):
  els = []
  for e in o['outs']:
    if e['t'] == 'map':
      els.append(dict(zip(e['names'], e['from'])))
    else:
      els.append(_path(e['p']))
  if len(els) == 1:
    return els[0]
  return tuple(els)


def build(prog, *, name='p', ignore_error=False, num_threads=0, batch_opts=None):
  """Spec program -> (TreeTransform, [sinks]).  Raises what the real builder raises."""
  from ml_metrics._src.chainables import transform
  p = transform.TreeTransform.new(name=name, num_threads=num_threads) if num_threads else transform.TreeTransform.new(name=name)
  sinks = {}
  for j, o in enumerate(prog):
    kind = o['op']
    extra = (batch_opts or {}).get(j, {})
    if kind == 'select':
      p = p.select(in_keys(o), out_keys(o))
    elif kind == 'apply':
      p = p.apply(fn=FUNCS[o['fn']], input_keys=in_keys(o), output_keys=out_keys(o), **extra)
    elif kind == 'assign':
      p = p.assign(out_keys(o), fn=FUNCS[o['fn']], input_keys=in_keys(o), **extra)
    elif kind == 'filter':
      p = p.filter(FUNCS[o['fn']], input_keys=in_keys(o))
    elif kind == 'sink':
      s = RecSink()
      sinks[j] = s
      p = p.sink(s, input_keys=in_keys(o))
    elif kind == 'batch':
      p = p.batch(o['bs'])
    else:
      raise ValueError(kind)
  return p, sinks


def run(prog, stream_py, **kw):
  """-> dict(build_error, out, err, err_type, sinks {j: [args...]}, closed {j: n}, inputs_untouched, aliased)"""
  res = dict(build_error=None, out=[], err=False, err_type=None, sinks={}, closed={}, inputs_untouched=True, aliased=[])
  try:
    p, sinks = build(prog, **kw)
  except Exception as e:  # pylint: disable=broad-exception-caught
    res['build_error'] = f'{type(e).__name__}: {e}'
    return res
  data = copy.deepcopy(stream_py)
  snapshot = copy.deepcopy(data)
  ids = _ids(data)
  try:
    runner = p.make()
    it = iter(runner.iterate(data))
    while True:
      try:
        res['out'].append(next(it))
      except StopIteration:
        break
  except Exception as e:  # pylint: disable=broad-exception-caught
    res['err'] = True
    res['err_type'] = type(e).__name__
    res['err_chain'] = _chain(e)
    del e
  it = runner = None
  if any(s_.closed == 0 for s_ in sinks.values()):
    gc.collect()      # a suspended generator chain held by a reference cycle
  res['sinks'] = {j: [a for a, _ in s.data] for j, s in sinks.items()}
  res['sinks_kw'] = {j: [k for _, k in s.data] for j, s in sinks.items()}
  res['closed'] = {j: s.closed for j, s in sinks.items()}
  res['inputs_untouched'] = (data == snapshot and _ids(data) == ids)
  return res


def _ids(data):
  """identity snapshot of every container reachable from the caller's data"""
  out = []

  def walk(x):
    if isinstance(x, (dict, list)):
      out.append(id(x))
      for v in (x.values() if isinstance(x, dict) else x):
        walk(v)

  walk(data)
  return out


def _chain(e):
  out = []
  seen = set()
  while e is not None and id(e) not in seen:
    seen.add(id(e))
    out.append(type(e).__name__)
    e = e.__cause__ or e.__context__
  return out
