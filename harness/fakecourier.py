"""In-process stand-in for the `courier` package (the real one is not installed: the
`courier` module in /venv is an unrelated e-mail toolkit).

Server(name, port): Bind / Unbind / Start / Stop / has_started / address.
Client(address, call_timeout): .futures.<method>(*a, **kw) -> concurrent.futures.Future and
                               .<method>(*a, **kw) synchronous.
A process-global switchboard maps addresses to started servers and applies a fault plan:
per (address, call index[, method]) one of ok | deadline (request lost) | response_lost |
die | app_error.  Handlers run on a thread pool owned by the switchboard (or, in controlled
mode, on scheduler-managed threads).  Deadline errors carry `.code == 4` like
absl::StatusCode::kDeadlineExceeded.
"""
from __future__ import annotations

import concurrent.futures as cf
import threading
from typing import Any, Callable


class DeadlineExceeded(Exception):
  code = 4

  def __init__(self, msg='Deadline Exceeded'):
    super().__init__(msg)


class Switchboard:

  def __init__(self):
    self.servers: dict[str, 'Server'] = {}
    self.lock = threading.RLock()
    self.pool = cf.ThreadPoolExecutor(max_workers=64, thread_name_prefix='fakecourier')
    self.plan: dict[str, dict[int, Any]] = {}       # address -> {call index: outcome}
    self.calls: dict[str, int] = {}
    self.log: list[tuple] = []
    self.dead: set[str] = set()
    self.on_call: Callable | None = None
    self.on_done: Callable | None = None     # (address, call index, method, outcome, result or exception)
    self.hold: dict[tuple[str, int], threading.Event] = {}
    self.reply_delay: dict[str, float] = {}      # address -> real seconds every (non-heartbeat) answer of it is late

  def reset(self):
    with self.lock:
      self.servers.clear()
      self.plan.clear()
      self.calls.clear()
      self.log.clear()
      self.dead.clear()
      self.hold.clear()
      self.reply_delay.clear()
      self.on_call = None
      self.on_done = None

  def outcome(self, address, method):
    with self.lock:
      if method == 'heartbeat':
        return 'dead' if address in self.dead else 'ok'
      n = self.calls.get(address, 0) + 1
      self.calls[address] = n
      o = self.plan.get(address, {}).get(n, 'ok')
      if address in self.dead:
        o = 'dead'
      self.log.append((address, n, method, o))
      return o


BOARD = Switchboard()


class Server:

  def __init__(self, name: str | None = None, port: int | None = None):
    self._name = name or f'localhost:{port or id(self) % 50000 + 10000}'
    self._handlers: dict[str, Callable] = {}
    self._started = False

  @property
  def address(self) -> str:
    return self._name

  @property
  def has_started(self) -> bool:
    return self._started

  def Bind(self, name, fn):     # pylint: disable=invalid-name
    self._handlers[name] = fn

  def Unbind(self, name):       # pylint: disable=invalid-name
    self._handlers.pop(name, None)

  def Start(self):              # pylint: disable=invalid-name
    self._started = True
    with BOARD.lock:
      BOARD.servers[self._name] = self
      BOARD.dead.discard(self._name)

  def Stop(self):               # pylint: disable=invalid-name
    self._started = False
    with BOARD.lock:
      if BOARD.servers.get(self._name) is self:
        del BOARD.servers[self._name]

  def Join(self):               # pylint: disable=invalid-name
    pass


class _Futures:

  def __init__(self, client):
    self._client = client

  def __getattr__(self, method):
    def call(*args, **kwargs):
      return self._client._call(method, args, kwargs)
    return call


class Client:

  def __init__(self, address: str, call_timeout: float | None = 0.0, **_):
    self.address = address
    self.call_timeout = call_timeout
    self.futures = _Futures(self)

  def __getattr__(self, method):
    if method.startswith('_'):
      raise AttributeError(method)
    def call(*args, **kwargs):
      return self._call(method, args, kwargs).result()
    return call

  def _call(self, method, args, kwargs) -> cf.Future:
    fut: cf.Future = cf.Future()
    outcome = BOARD.outcome(self.address, method)
    with BOARD.lock:
      server = BOARD.servers.get(self.address)

    def done(payload):
      # reported before the future resolves, so that the record precedes anything the caller does with the answer
      if BOARD.on_done is not None and method != 'heartbeat':
        BOARD.on_done(self.address, method, outcome, payload)

    if outcome in ('deadline',):
      done(DeadlineExceeded())
      fut.set_exception(DeadlineExceeded())
      return fut
    if outcome in ('dead', 'die') or server is None or not server.has_started:
      if outcome == 'die':
        with BOARD.lock:
          BOARD.dead.add(self.address)
        done('die')
      if self.call_timeout:
        fut.set_exception(DeadlineExceeded())
      # without a timeout the call never completes (pending forever), like a lost peer
      return fut
    handler = server._handlers.get(method)
    if handler is None:
      fut.set_exception(AttributeError(f'method {method} not bound on {self.address}'))
      return fut

    def run():
      try:
        if isinstance(outcome, tuple) and outcome[0] == 'app_error':
          raise outcome[1]
        res = handler(*args, **kwargs)
        late = BOARD.reply_delay.get(self.address, 0) if method != 'heartbeat' else 0
        if callable(BOARD.reply_delay.get('*')) and method != 'heartbeat':
          late = BOARD.reply_delay['*'](self.address, method, kwargs) or late
        if late:
          import time as _t
          _t.sleep(late)          # the work is done, the answer is slow
        if outcome == 'response_lost':
          done(DeadlineExceeded())
          fut.set_exception(DeadlineExceeded())
        else:
          done(res)
          fut.set_result(res)
      except BaseException as e:  # pylint: disable=broad-exception-caught
        done(e)
        fut.set_exception(e)

    BOARD.pool.submit(run)
    return fut
