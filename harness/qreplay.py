"""Runs the real iter_utils.IteratorQueue under the deterministic scheduler.

A configuration is the Python twin of an IterQueue.tla constant assignment (see
harness/qconfig.py).  Thread names are the spec's process ids, so a TLC behaviour - a
sequence of process ids - is a schedule, and the projection below is comparable with the
spec state after every step.
"""
from __future__ import annotations

import contextlib
import dataclasses as dc
from typing import Any

from harness import sched


class ProducerError(RuntimeError):
  """Raised by harness iterators at the configured position (not a skippable type)."""


class SkippableError(ValueError):
  pass


# What a producer returns: its name in the specification; in the run the first two producers return FALSY values (an empty
# count, an empty string) - a return value is a value whatever its truth.
_FALSY_RETURNS = {'p1': 0, 'p2': ''}
_BACK = {repr(v): k for k, v in _FALSY_RETURNS.items()}


def ret_of(p):
  return _FALSY_RETURNS.get(p, p)


def unret(v):
  return _BACK.get(repr(v), v)


class ItemIter:
  """Harness iterator of producer p: yields (p, 1..n), raises at index fail_at, returns p."""

  def __init__(self, p, n, fail_at=0, exc=ProducerError, returns=True):
    self.p, self.n, self.fail_at, self.exc, self.returns = p, n, fail_at, exc, returns
    self.i = 0
    self.busy = False

  def __iter__(self):
    return self

  def __next__(self):
    if self.busy:
      raise ValueError('generator already executing')     # what a real generator does on re-entry
    self.busy = True
    try:
      sched.yield_point(f'next:{self.p}')
      if self.fail_at == self.i + 1:
        self.i += 1 if self.exc is SkippableError else 0
        raise self.exc(f'{self.p} fails at {self.fail_at}')
      if self.i == self.n:
        if self.returns:
          raise StopIteration(ret_of(self.p))
        raise StopIteration()
      self.i += 1
      return (self.p, self.i)
    finally:
      self.busy = False


TSI_INSTANCES = []


@contextlib.contextmanager
def installed():
  """Substitutes threading / queue / futures in iter_utils and instruments enqueue_done."""
  from ml_metrics._src.utils import iter_utils
  saved = (iter_utils.threading, iter_utils.queue, iter_utils.futures, iter_utils.IteratorQueue.enqueue_done)
  orig_prop = iter_utils.IteratorQueue.enqueue_done

  def _done(self):
    sched.yield_point('enqueue_done')
    return orig_prop.fget(self)

  iter_utils.threading = sched.threading
  iter_utils.queue = sched.queue
  iter_utils.futures = sched.futures
  iter_utils.IteratorQueue.enqueue_done = property(_done)
  orig_tsi_init = iter_utils._ThreadSafeIterator.__init__

  def _tsi_init(self, iterable):
    orig_tsi_init(self, iterable)
    TSI_INSTANCES.append(self)

  iter_utils._ThreadSafeIterator.__init__ = _tsi_init
  del TSI_INSTANCES[:]
  try:
    yield iter_utils
  finally:
    (iter_utils.threading, iter_utils.queue, iter_utils.futures, iter_utils.IteratorQueue.enqueue_done) = saved
    iter_utils._ThreadSafeIterator.__init__ = orig_tsi_init


@dc.dataclass
class Outcome:
  received: dict[str, list]
  batches: dict[str, list]
  ended: dict[str, Any]
  prod_result: dict[str, Any]
  failure: BaseException | None        # Deadlock / StepLimit / policy error
  blocked: dict[str, tuple]
  trace: list
  states: list
  steps: int
  stopper_result: dict[str, Any]
  pool_alive_at_end: dict[str, list] = dc.field(default_factory=dict)   # consumer -> pool workers still alive when it ended

  def summary(self):
    return dict(received=self.received, ended=self.ended, prod=self.prod_result,
                failure=None if self.failure is None else f'{type(self.failure).__name__}: {self.failure}',
                blocked=self.blocked, steps=self.steps)


def project(q, sch, received, ended, extra=None):
  """Abstract state of the real queue in the vocabulary of IterQueue.tla."""
  def owner(lock):
    o = lock.owner
    return 'none' if o is None else getattr(o, 'name', str(o))
  notified = sorted(t.name for c in (q._enqueue_lock, q._dequeue_lock) for t in c.notified)
  return dict(
      q=[list(x) for x in q._queue.items],
      ownE=owner(q._enqueue_lock.lock), ownD=owner(q._dequeue_lock.lock), ownS=owner(q._states_lock),
      waitE=[t.name for t in q._enqueue_lock.waiters], waitD=[t.name for t in q._dequeue_lock.waiters],
      notified=notified,
      start=q._enqueue_start, stop=q._enqueue_stop, maxenq=q._max_enqueuer,
      exc=q._exception is not None, exhausted=q._exhausted, returned=[unret(v) for v in q._returned],
      received={c: [list(x) for x in v] for c, v in received.items()},
      ended={c: v for c, v in ended.items()},
      **(extra() if extra else dict(ownL='none', srcIdx=0, cnt={c: 0 for c in received})),
  )


def run_config(cfg: dict, policy, *, record_states=False, max_steps=5000, timeout_value=0.01) -> Outcome:
  """cfg = dict(prods={p:(n,fail_at)}, cons={c:('get',)|('batch',K,block)}, stoppers={s:exc?},
               cap, declared, timeout, ignore_error)"""
  with installed() as iter_utils:
    states = []
    received = {c: [] for c in cfg['cons']}
    batches = {c: [] for c in cfg['cons']}
    ended = {c: ['run'] for c in cfg['cons']}
    prod_result, stopper_result = {}, {}
    qbox = {}

    pool_state = {}

    def on_state(s):
      if record_states and 'q' in qbox:
        states.append(project(qbox['q'], s, received, ended, qbox.get('extra')))

    sch = sched.Scheduler(policy, max_steps=max_steps, on_state=on_state)
    sched.set_active(sch)
    try:
      declared = cfg.get('declared')
      if declared is None:
        declared = len(cfg['prods'])
      piter = bool(cfg.get('shared')) or any(v[0] == 'diter' for v in cfg['cons'].values())
      extra_box = {}
      if piter:
        # the real parallel-iteration entry points: pool workers run enqueue_from_iterator
        pool = iter_utils.futures.ThreadPoolExecutor(max_workers=cfg.get('pool') or len(cfg['prods']), thread_name_prefix='p#',
                                                     per_task_threads=bool(cfg.get('pool')))
        exc_type = SkippableError if cfg.get('ignore_error') else ProducerError
        if cfg.get('shared'):
          n_src, fail_src = cfg['shared']
          src = ItemIter('src', n_src, fail_src, exc_type, returns=False)
          q = iter_utils.piter_fn(lambda it: map(_ident, it), input_iterable=src, thread_pool=pool,
                                  parallism=len(cfg['prods']), buffer_size=cfg.get('cap', 0))
        else:
          src = None
          its = [ItemIter(p_, n_, f_, exc_type) for p_, (n_, f_) in cfg['prods'].items()]
          q = iter_utils.piter_multiplex(its, pool, buffer_size=cfg.get('cap', 0))
        q.ignore_error = bool(cfg.get('ignore_error'))
        deq = {}

        def extra():
          tsi = TSI_INSTANCES[-1] if TSI_INSTANCES and src is not None else None
          o = getattr(tsi._lock, 'owner', None) if tsi is not None else None
          return dict(ownL='none' if o is None else getattr(o, 'name', str(o)),
                      srcIdx=src.i if src is not None else 0,
                      cnt={c: (deq[c]._cnt if c in deq else 0) for c in cfg['cons']},
                      workers_alive=pool.workers_alive())
        extra_box['f'] = extra
      else:
        q = iter_utils.IteratorQueue(cfg.get('cap', 0), name='vq',
                                     timeout=(timeout_value if cfg.get('timeout') else None),
                                     ignore_error=bool(cfg.get('ignore_error')), max_enqueuer=declared)
      qbox['q'] = q
      qbox['extra'] = extra_box.get('f')

      def producer(p, n, fail_at):
        def body():
          it = ItemIter(p, n, fail_at, SkippableError if cfg.get('ignore_error') else ProducerError)
          try:
            q.enqueue_from_iterator(it)
            prod_result[p] = 'returned'
          except sched.Aborted:
            raise
          except BaseException as e:  # pylint: disable=broad-exception-caught
            prod_result[p] = f'raised:{type(e).__name__}'
        return body

      def diter_consumer(c, steps):
        def body():
          # DequeueIterator(num_steps) wrapped by a real MultiplexIterator (its __next__ / maybe_stop)
          d = q.dequeue_as_iterator(num_steps=steps)
          deq[c] = d
          mi = iter_utils.MultiplexIterator.__new__(iter_utils.MultiplexIterator)
          mi._name, mi._iterator, mi._thread_pool = 'mi', d, pool
          try:
            while True:
              v = next(mi)
              received[c].append(v)
          except StopIteration as e:
            if steps >= 0 and d._cnt == steps:
              ended[c] = ['stopped']
            else:
              ended[c] = ['stop', [unret(v) for v in e.args]]
          except sched.Aborted:
            raise
          except BaseException as e:  # pylint: disable=broad-exception-caught
            if e is q._exception:
              ended[c] = ['exc', type(e).__name__]
            elif isinstance(e, TimeoutError):
              ended[c] = ['timeout']
            else:
              ended[c] = ['exc', type(e).__name__]
          pool_state[c] = pool.workers_alive()
        return body

      def consumer(c, spec):
        if spec[0] == 'diter':
          return diter_consumer(c, spec[1])
        def body():
          try:
            while True:
              if spec[0] == 'get':
                v = q.get()
                received[c].append(v)
              else:
                k = spec[1] if len(spec) > 1 else 0
                block = bool(spec[2]) if len(spec) > 2 else False
                b = q.get_batch(k, block=block)
                batches[c].append(list(b))
                received[c].extend(b)
          except StopIteration as e:
            ended[c] = ['stop', [unret(v) for v in e.args]]
          except sched.Aborted:
            raise
          except BaseException as e:  # pylint: disable=broad-exception-caught
            if e is q._exception:            # the stored producer error (may itself be a TimeoutError of a put)
              ended[c] = ['exc', type(e).__name__]
            elif isinstance(e, TimeoutError):
              ended[c] = ['timeout']
            else:
              ended[c] = ['exc', type(e).__name__]
        return body

      def stopper(s, with_exc):
        def body():
          try:
            q.maybe_stop(ProducerError('external') if with_exc else None)
            stopper_result[s] = 'returned'
          except sched.Aborted:
            raise
          except AssertionError:
            stopper_result[s] = 'assertfail'
        return body

      if not piter:
        for p, (n, fail_at) in cfg['prods'].items():
          sch.spawn(p, producer(p, n, fail_at))
      else:
        for w in pool._workers:
          prod_result[w.name] = 'pool-worker'
      for c, spec in cfg['cons'].items():
        sch.spawn(c, consumer(c, spec))
      for s, with_exc in (cfg.get('stoppers') or {}).items():
        sch.spawn(s, stopper(s, with_exc))
      failure = sch.run(timeout=30.0)
      return Outcome(received=received, batches=batches, ended=ended, prod_result=prod_result, failure=failure,
                     blocked=getattr(sch, 'blocked_at_end', {}), trace=list(sch.trace), states=states,
                     steps=sch.steps, stopper_result=stopper_result, pool_alive_at_end=pool_state)
    finally:
      sched.set_active(None)


def _ident(x):
  return x


def to_tlc(cfg, fixes=None):
  from harness import qconfig
  return qconfig.make(cfg['prods'], cfg['cons'], cap=cfg.get('cap', 0), stoppers=cfg.get('stoppers'),
                      declared=cfg.get('declared'), timeout=bool(cfg.get('timeout')),
                      ignore_error=bool(cfg.get('ignore_error')),
                      fixes=qconfig.ALL_FIXES if fixes is None else fixes, shared=cfg.get('shared'), pool=cfg.get('pool') or 0)
