"""Shared machinery of the queue properties (C04, C05): TLC on IterQueue.tla configurations,
replay of TLC behaviours on the real IteratorQueue under the deterministic scheduler with
step-by-step state comparison, and outcome judging."""
from __future__ import annotations

import os
import random
import shutil

from harness import graph, qconfig, qreplay, sched, tlc


def spec_proj(st: dict) -> dict:
  """Parsed TLC state -> the vocabulary of qreplay.project."""
  def seq(x):
    return [list(e) if isinstance(e, list) else e for e in x]
  def fn(x):
    return tlc.fn_to_dict(x) if x != [] else {}
  notified = st['notified']['$set'] if isinstance(st['notified'], dict) else []
  ended = {c: list(v) for c, v in fn(st['ended']).items()}
  return dict(
      q=seq(st['q']), ownE=st['ownE'], ownD=st['ownD'], ownS=st['ownS'],
      waitE=list(st['waitE']), waitD=list(st['waitD']), notified=sorted(notified),
      start=st['start'], stop=st['stop'], maxenq=st['maxenq'], exc=st['exc'], exhausted=st['exhausted'],
      returned=list(st['returned']),
      received={c: seq(v) for c, v in fn(st['received']).items()},
      ended=ended, ownL=st['ownL'], srcIdx=st['srcIdx'], cnt=dict(fn(st['cnt'])))


def norm_real(p: dict) -> dict:
  out = dict(p)
  out['ended'] = {c: ([v[0], list(v[1])] if v[0] == 'stop' else [v[0]]) for c, v in p['ended'].items()}
  return out


def diff(a: dict, b: dict) -> list[str]:
  return [k for k in a if a[k] != b.get(k)]


def judge(cfg: dict, o: qreplay.Outcome) -> list[tuple[str, str]]:
  """Property-level verdict on one real execution: list of (violation class, message)."""
  out = []
  prods, cons = cfg['prods'], cfg['cons']
  stoppers = cfg.get('stoppers') or {}
  shared = cfg.get('shared')
  declared = cfg.get('declared')
  declared = len(prods) if declared is None else declared
  fails = {p for p, (n, f) in prods.items() if f and f <= n + 1} if not shared else ({'src'} if shared[1] and shared[1] <= shared[0] + 1 else set())
  early = {c for c, v in cons.items() if v[0] == 'diter' and v[1] >= 0}
  fault_free = not fails and not stoppers and not cfg.get('timeout') and not early
  shape = f"{len(prods)}x{len(cons)}:cap{cfg.get('cap', 0)}"
  if isinstance(o.failure, sched.Deadlock):
    kinds = sorted({('producer' if t in prods else 'consumer' if t in cons else 'stopper') for t in o.blocked})
    how = ('fault-free' if fault_free else 'after-failure' if fails else 'after-stop' if (stoppers or early) else 'timeout')
    modes = sorted({cons[t][0] + ('-block' if len(cons[t]) > 2 and cons[t][2] else '') for t in o.blocked if t in cons})
    joined = any(v[0] == 'pred' and 'pool-shutdown' in str(v[1]) for v in o.blocked.values())
    out.append((f'deadlock:{how}:{"+".join(kinds)}{":" + "+".join(modes) if modes else ""}' + (':pool-shutdown' if joined else ''),
                f'blocked forever: {o.blocked}'))
    return out
  if o.failure is not None:
    out.append((f'nontermination:{type(o.failure).__name__}', str(o.failure)))
    return out
  if shared:
    all_items = [['src', i] for i in range(1, shared[0] + 1) if not (cfg.get('ignore_error') and i == shared[1])]
  else:
    all_items = [[p, i] for p, (n, f) in prods.items() for i in range(1, n + 1)]
  got = [list(x) for c in cons for x in o.received[c]]
  seen = set()
  for x in got:
    if tuple(x) in seen:
      out.append(('duplicate-delivery', f'{x} delivered twice: {o.received}'))
      break
    seen.add(tuple(x))
  for x in got:
    if x not in all_items:
      out.append(('phantom-element', f'{x} was never produced'))
      break
  if not shared:
    for c in cons:
      last = {}
      for p, i in o.received[c]:
        if last.get(p, 0) >= i:
          out.append(('order', f'{c} received {o.received[c]}'))
          break
        last[p] = i
  if fault_free and cons:
    if sorted(got) != sorted(all_items):
      out.append(('lost-element', f'received {sorted(got)} of {sorted(all_items)}'))
    for c in cons:
      e = o.ended[c]
      if e[0] != 'stop':
        out.append((f'end:{e[0]}', f'{c} ended with {e} in a fault-free run'))
      elif declared and not shared and sorted(e[1]) != sorted(prods):
        out.append(('end-args', f'{c} end-of-stream carries {e[1]}, producers returned {sorted(prods)}'))
    for p in prods:
      if o.prod_result.get(p) not in ('returned', 'pool-worker'):
        out.append(('producer-result', f'{p}: {o.prod_result.get(p)}'))
  # early stop after num_steps elements: exactly that many delivered (or the whole stream if shorter)
  for c in early:
    steps = cons[c][1]
    e = o.ended[c]
    if not fails and not stoppers:
      if e[0] == 'stopped' and len(o.received[c]) != steps:
        out.append(('early-stop-count', f'{c} stopped after {len(o.received[c])} elements, num_steps={steps}'))
      if e[0] == 'stop' and len(o.received[c]) != len(all_items):
        out.append(('early-stop-count', f'{c} saw end of stream after {len(o.received[c])} of {len(all_items)} elements'))
      if e[0] not in ('stopped', 'stop'):
        out.append((f'end:{e[0]}', f'{c} ended with {e}'))
  # helper threads: when iteration over a MultiplexIterator ends (exhausted, failed or stopped) the pool is shut down
  for c, alive in o.pool_alive_at_end.items():
    if alive:
      out.append(('pool-threads-alive', f'{alive} still running after {c} ended with {o.ended[c]}'))
  if fails and not stoppers and declared and not cfg.get('ignore_error'):
    for c in cons:
      if o.ended[c][0] not in ('exc', 'timeout'):
        out.append((f'failure-not-observed:{o.ended[c][0]}', f'{c} ended with {o.ended[c]} although {sorted(fails)} failed'))
  return out


def tlc_check(cfg: dict, *, liveness=True, timeout=1800, dump_dot=None, deadlock=True, fixes=None, workers='auto'):
  consts, defs = qreplay.to_tlc(cfg, fixes)
  return tlc.run('queue', 'IterQueue',
                 tlc.cfg_text(constants=consts, invariants=qconfig.SAFETY,
                              properties=['Termination'] if liveness else [], deadlock=deadlock),
                 mc_defs=defs, timeout=timeout, dump_dot=dump_dot, workers=workers)


def replay_path(cfg, path, g: graph.Graph):
  """Runs the real queue along a TLC path; returns (outcome, first mismatch or None)."""
  script = [proc for (_, _, _, proc) in path]
  pol = sched.Scripted(script, strict=False)
  o = qreplay.run_config(cfg, pol, record_states=True)
  mismatch = None
  limit = len(path)
  if pol.mismatch_at is not None:
    i, want, enabled = pol.mismatch_at
    mismatch = dict(step=i, kind='not-enabled', want=want, enabled=enabled, action=path[i][2])
    limit = i
  # states[0] is the state before the first step; an earlier state disagreement takes precedence
  for i, (src, dst, action, proc) in enumerate(path[:limit]):
    if i + 1 >= len(o.states):
      mismatch = dict(step=i, kind='run-too-short', action=action, proc=proc)
      break
    want = spec_proj(g.state(dst))
    got = norm_real(o.states[i + 1])
    d = diff(want, got)
    if d:
      mismatch = dict(step=i, kind='state', action=action, proc=proc, fields=d,
                      want={k: want[k] for k in d}, got={k: got.get(k) for k in d})
      break
  return o, mismatch


def outcome_allowed(o, mismatch, path, g: graph.Graph):
  """After a drift: is the observable outcome of the real run (what each consumer received and how it
  ended) one the specification can reach from the last point where the run provably followed the path?
  Returns None if allowed, else (real outcome, number of allowed outcomes)."""
  if o.failure is not None or not o.states:
    return None
  # the last state in which the real run and the specification provably agreed (source of the first drifting step):
  # whatever the real code did afterwards, also in a different step granularity, must end in an outcome the
  # specification reaches from there
  node = path[min(mismatch['step'], len(path) - 1)][0]
  real = norm_real(o.states[-1])
  key = lambda d: repr((sorted((c, [list(e) if isinstance(e, (list, tuple)) else e for e in v]) for c, v in d['received'].items()),
                        sorted((c, list(v)) for c, v in d['ended'].items())))
  allowed = set()
  for t in g.reachable_terminals(node):
    allowed.add(key(spec_proj(g.state(t))))
  if key(real) in allowed:
    return None
  return dict(received=real['received'], ended=real['ended']), len(allowed)


def scratch(prefix='verif_q_'):
  return tlc.scratch_dir(prefix)


# ------------------------------------------------------------------ exploration of the real code


class _PrefixPolicy:
  """Follows a prefix of thread names, then: keep running the same thread while it is enabled
  (no preemption), otherwise the first enabled thread in spawn order."""

  def __init__(self, prefix):
    self.prefix = list(prefix)
    self.choices = []        # (enabled, chosen, previous thread)
    self.prev = None

  def choose(self, enabled, sch):
    i = len(self.choices)
    if i < len(self.prefix) and self.prefix[i] in enabled:
      c = self.prefix[i]
    elif self.prev in enabled:
      c = self.prev
    else:
      order = [n for n in sch.threads if n in enabled]
      c = order[0]
    self.choices.append((list(enabled), c, self.prev))
    self.prev = c
    return c


def explore(cfg, *, bound=2, max_runs=2000, rnd=None, run=None):
  """Systematic depth-first exploration of the real code's schedules with at most `bound`
  preemptions (a preemption = switching away from a thread that could have continued).
  `run(policy)` executes one schedule (default: the queue configuration `cfg`)."""
  stack = [([], 0)]
  runs = 0
  while stack and runs < max_runs:
    prefix, used = stack.pop()
    pol = _PrefixPolicy(prefix)
    o = run(pol) if run is not None else qreplay.run_config(cfg, pol)
    runs += 1
    yield o, [c for _, c, _ in pol.choices]
    # count preemptions along the executed run up to each point
    pre = 0
    pres = []
    for enabled, chosen, prev in pol.choices:
      pres.append(pre)
      if prev is not None and prev in enabled and chosen != prev:
        pre += 1
    new = []
    for i in range(len(prefix), len(pol.choices)):
      enabled, chosen, prev = pol.choices[i]
      for alt in enabled:
        if alt == chosen:
          continue
        cost = pres[i] + (1 if (prev is not None and prev in enabled and alt != prev) else 0)
        if cost <= bound:
          new.append(([c for _, c, _ in pol.choices[:i]] + [alt], cost))
    if rnd is not None:
      rnd.shuffle(new)
    stack.extend(new)


def cex_script(res) -> list[str]:
  """Process ids along a TLC counter-example."""
  import re
  out = []
  for a in res.trace_actions[1:]:
    m = re.search(r'\("(\w+)"\)', a)
    if m:
      out.append(m.group(1))
  return out
